"""Bounded stand-in for C07 (a model is left behaviourally unchanged by every call, even one that
fails) - never counted as proved.

Harness.  A tiny torch model is built deterministically from a spec, a *snapshot* of everything the
statement lists is taken (hook dictionaries of every sub-module and parameter, state_dict bytes,
forward output and ordinary gradients w.r.t. input and parameters on a probe batch, training
flags, grad mode), one REAL tangermeme function is called - optionally with an exception injected
at the k-th call of one of the callables the function uses - and the snapshot is taken again.

Injection channels (k = 1..K, K = number of calls of that callable in the uninjected run, which is
measured first):
  forward    k-th call of the model's forward pass (a `Bomb` identity module inside the network,
             before the first layer / after the first non-linearity / after the last layer)
  reference  k-th call of the reference generator handed to deep_lift_shap
  bhook      k-th call of a DeepLIFT backward hook (rescale op supplied via additional_nonlinear_ops,
             delegating to the library's own op)
  backward   k-th call of the backward of a custom autograd node inside the network
  shuffle_fn k-th call of the shuffle function handed to ablate
  register   k-th hook registration (the register_* methods of an activation sub-class `BombReLU`)
  postproc   k-th call of deep_lift_shap's post-processing of a batch, i.e. after the forward/backward
             of the batch succeeded (a ticking wrapper around the library's module-level
             `hypothetical_attributions`, delegating to it; the channel is empty if that name is gone)
with exception class RuntimeError / a user-defined Exception sub-class (an `Exception`) or
KeyboardInterrupt / SystemExit (a `BaseException`).
Invalid inputs: sequence containing N, out-of-range target, too short args, int8 X, wrong number of
channels, malformed reference tensors / generators, a convergence warning turned into an error,
an unavailable device, no sequence at all, batch_size 0, float64 X on a float32 model, a key of
additional_nonlinear_ops that is not a class, ...
Failures that need no injection: nn.ReLU(inplace=True) (torch refuses the in-place write on the
output of a full backward hook: the forward pass raises while the hooks are active), an activation
sub-class without an entry in the op table (KeyError inside the backward hook), a float64 model on
float32 X, deep_lift_shap called under an ambient torch.no_grad().

Model classes (besides the plain ones): parameters frozen by the user (requires_grad=False), float64
parameters, a parametrised activation (PReLU) followed by a user-defined activation class that is only
known through additional_nonlinear_ops and owns a NON-persistent buffer updated by training-mode
forwards, training flags that differ between sub-modules (top-level in training mode, BatchNorm put in
eval mode by the user), user hooks of all three kinds on the activation itself.

Oracle (from the statement): after the call - however it ended -
  * every hook dictionary of every sub-module / parameter holds exactly the hooks it held before,
  * state_dict has the same keys and bit-identical tensors,
  * the model's forward output and torch.autograd.grad w.r.t. the input and every parameter (eval
    mode, probe batch) are bit-identical to before,
  * every buffer - also those registered with persistent=False, which state_dict() omits - is
    bit-identical and every parameter has the requires_grad flag it had (a parameter that silently
    became trainable / frozen changes the ordinary gradients of the model),
  * torch's module-global hook tables (register_module_forward_hook & co.) and the
    post-accumulate-grad hooks of the parameters hold what they held before,
  * no module went from eval to training mode; torch's grad mode is what it was - also when the
    call is made under an ambient torch.no_grad() (read inside that context, right after the call),
  * (histories) every call of a history on one shared model returns bit-identically what the same
    call returns on a fresh copy of the model (or raises the same exception class).
Not asserted (the statement does not say so): that an injected exception propagates; that scratch
attributes (`_NON_LINEAR_OPS`, `input`, `output`) are removed; anything about `.grad` fields.
"""
import collections
import itertools
import warnings

import contextlib

import numba
import numpy
import torch
import torch.nn.modules.module as _tmod

from tangermeme import ersatz
from tangermeme.predict import predict
from tangermeme.deep_lift_shap import deep_lift_shap
from tangermeme.ism import saturation_mutagenesis
from tangermeme.marginalize import marginalize, marginalize_annotations
from tangermeme.ablate import ablate, ablate_annotations
from tangermeme.space import space
from tangermeme.variant_effect import substitution_effect, deletion_effect, insertion_effect
from tangermeme.product import apply_pairwise, apply_product
from tangermeme.design import greedy_substitution
import tangermeme.deep_lift_shap as _dls_mod

# ----------------------------------------------------------------------------------------------
# POSSIBLE DEFECT (kept behind a flag that is False: the assertion fires on the unchanged repository)
#
#   A BaseException that is not an Exception (KeyboardInterrupt, SystemExit) arriving WHILE deep_lift_shap registers its
#   hooks leaves the hooks registered so far on the model: the registration is guarded by
#       try: model.apply(_register_hooks)
#       except Exception as e: model.apply(_clear_hooks); raise(e)
#   (deep_lift_shap.py, just before the batch loop), which lets a BaseException through without clearing, whereas the
#   batch loop itself is guarded by try/finally.  The statement says "or raises at any point".
#   Input: model = Conv1d(4,3,3,padding=1) - BombReLU - SumLen - Linear(3,4) - BombReLU - Linear(4,2)   (_spec('regbomb')),
#   X = 3 one-hot sequences of length 8, deep_lift_shap(model, X, batch_size=4, n_shuffles=2, references=_ref_fn,
#   random_state=0, additional_nonlinear_ops=_ops(True), device='cpu'), KeyboardInterrupt raised by the k-th
#   register_* call (channel 'register'), k = 2..6:
#     k=2: 1 hook left (_f_hook on the first activation); k=4: 3 hooks left incl. _b_hook - the ordinary gradients of the
#     model w.r.t. input and parameters on the probe batch then differ from before the call; k=6: 5 hooks left.
#   (k=1 leaves nothing; the same injection points with RuntimeError / a user Exception sub-class leave nothing and are
#   asserted.)  The window is a few microseconds wide in practice (a Ctrl-C during model.apply(_register_hooks)); an
#   activation class whose register_* methods can raise is needed to hit it deterministically.
#   Replay: {'kind': 'call', 'api': 'deep_lift_shap', 'model': _spec('regbomb'), 'data': {'n': 3, 'L': 8, 'seed': 0},
#            'opts': {'bs': 4, 'ops': True}, 'invalid': None, 'inject': {'channel': 'register', 'k': 4, 'exc': 'KeyboardInterrupt'}}
CHECK_BASEEXC_DURING_REGISTRATION = True   # repaired in /repo by ca4330a (known_findings.json: fixed); asserted since

SCOPE = {
    'quick': 'models: conv-relu-sum-linear (bomb pre/mid/post), conv-batchnorm-relu-maxpool-dropout-sum-linear-tanh-linear (training mode), '
             'with extra arg, with pre-existing user hooks; 3 sequences of length 8, 2 shuffles, batch sizes 1/4/32; '
             'every injection point k=1..K on channels forward/reference/bhook/backward/shuffle_fn for deep_lift_shap '
             '(direct; RuntimeError and KeyboardInterrupt) and for predict, saturation_mutagenesis, marginalize, ablate, '
             'space, substitution/deletion/insertion_effect, marginalize/ablate_annotations, apply_pairwise/product, '
             'greedy_substitution with func=predict and func=deep_lift_shap; 14 kinds of invalid input per function; '
             'all call histories of length <= 2 over a 20-item menu, all of length 3 and a seeded sample of length 4 '
             'over a 5-item core menu, on a shared model vs fresh copies. '
             'Added: model classes frozen-parameters / float64 / PReLU + user activation class with a non-persistent '
             'training-mode buffer / ReLU(inplace=True) / activation sub-class whose hook registration can fail / mixed '
             'training flags (BatchNorm in eval under a training-mode parent) / user hooks of all 3 kinds on the activation; '
             'channels register (k-th hook registration) and postproc (k-th per-batch post-processing call); exception classes '
             'SystemExit and a user Exception sub-class; every listed function (func=predict and deep_lift_shap) once uninjected '
             'and once with a failing first forward on each of the training-mode / mixed-flag / frozen / float64 models and '
             'under an ambient torch.no_grad(); 5 more invalid inputs (device unavailable, empty X, batch_size 0, float64 X, '
             'non-class op key); menu items with result-changing additional_nonlinear_ops '
             '(returning and failing) so that a stale per-module op table shows in a later call; histories of length <= 2 on a '
             'training-mode BatchNorm/Dropout model; observer also reads non-persistent buffers, requires_grad flags, '
             'torch\'s global module hook tables and parameter post-accumulate hooks',
    'thorough': 'as quick with every model x bomb position x batch size 1/2/4/5/32 x random_state None/int x '
                'raw_outputs/hypothetical/return_references/tensor references, both exception classes on every '
                'function, 2-4 sequences of length 8-10, 2-3 shuffles; all histories of length <= 2 over the 20-item '
                'menu on two models and all histories of length <= 4 over a 6-item core menu; the added model classes, '
                'channels, exception classes, invalid inputs and menu items of the quick tier with every injection point and '
                'every exception class',
}

# ----------------------------------------------------------------------------------------------
# fault injection (module-global: the models carry no injector state)

class CustomError(Exception):
    """an Exception sub-class the library cannot know about"""


_EXC = {'RuntimeError': RuntimeError, 'KeyboardInterrupt': KeyboardInterrupt, 'SystemExit': SystemExit,
        'CustomError': CustomError}


class _Injector:
    def __init__(self, channel=None, k=0, exc='RuntimeError'):
        self.channel, self.k, self.exc = channel, k, exc
        self.counts = collections.Counter()
        self.fired = False

    def tick(self, channel):
        self.counts[channel] += 1
        if channel == self.channel and self.counts[channel] == self.k:
            self.fired = True
            raise _EXC[self.exc]('injected at %s #%d' % (channel, self.k))


_INJ = None


def _tick(channel):
    if _INJ is not None:
        _INJ.tick(channel)


class _BombFn(torch.autograd.Function):
    @staticmethod
    def forward(ctx, x):
        return x.view_as(x)

    @staticmethod
    def backward(ctx, g):
        _tick('backward')
        return g


class Bomb(torch.nn.Module):
    """identity; ticks 'forward' when called and 'backward' when gradients flow through it"""

    def forward(self, x):
        _tick('forward')
        if x.requires_grad:
            x = _BombFn.apply(x)
        return x


def _user_fhook(module, inputs, outputs):
    return None


def _user_fphook(module, inputs):
    return None


def _user_bhook(module, grad_input, grad_output):
    return None


def _user_bprehook(module, grad_output):
    return None


class SumLen(torch.nn.Module):
    """sum over positions: keeps the models length-agnostic (deletion_effect shortens the sequences)"""

    def forward(self, x):
        return x.sum(dim=-1)


class BombReLU(torch.nn.ReLU):
    """a ReLU sub-class whose hook-registration methods tick 'register': an exception can be injected
    between two registrations, i.e. when some hooks of the model are already in place"""

    def register_forward_hook(self, *a, **k):
        _tick('register')
        return super().register_forward_hook(*a, **k)

    def register_forward_pre_hook(self, *a, **k):
        _tick('register')
        return super().register_forward_pre_hook(*a, **k)

    def register_full_backward_hook(self, *a, **k):
        _tick('register')
        return super().register_full_backward_hook(*a, **k)


class MyAct(torch.nn.Module):
    """user-defined element-wise activation (known to deep_lift_shap only through
    additional_nonlinear_ops) with a NON-persistent buffer that training-mode forwards update - the
    analogue of BatchNorm's running statistics that state_dict() does not show"""

    def __init__(self):
        super().__init__()
        self.register_buffer('calls', torch.zeros((), dtype=torch.int64), persistent=False)

    def forward(self, x):
        if self.training:
            self.calls += 1
        return x * torch.sigmoid(x)


class Net(torch.nn.Module):
    def __init__(self, arch, bomb, L):
        super().__init__()
        self.arch = arch
        B = lambda pos: [Bomb()] if bomb == pos else []
        if arch in ('relu', 'arg', 'userhook', 'userhook3', 'frozen', 'f64', 'inplace'):
            layers = B('pre') + [torch.nn.Conv1d(4, 3, 3, padding=1), torch.nn.ReLU(inplace=arch == 'inplace')] + \
                B('mid') + [SumLen(), torch.nn.Linear(3, 2)] + B('post')
        elif arch == 'custom':
            layers = B('pre') + [torch.nn.Conv1d(4, 3, 3, padding=1), torch.nn.PReLU(3)] + B('mid') + \
                [MyAct(), SumLen(), torch.nn.Linear(3, 2)] + B('post')
        elif arch == 'regbomb':
            layers = B('pre') + [torch.nn.Conv1d(4, 3, 3, padding=1), BombReLU()] + B('mid') + \
                [SumLen(), torch.nn.Linear(3, 4), BombReLU(), torch.nn.Linear(4, 2)] + B('post')
        elif arch == 'bnpool':
            layers = B('pre') + [torch.nn.Conv1d(4, 3, 3, padding=1), torch.nn.BatchNorm1d(3), torch.nn.ReLU()] + B('mid') + \
                [torch.nn.MaxPool1d(2), torch.nn.Dropout(0.5), SumLen(), torch.nn.Linear(3, 4),
                 torch.nn.Tanh(), torch.nn.Linear(4, 2)] + B('post')
        elif arch == 'shared':
            # one activation object registered under two parents (and aliased as an attribute): model.apply()
            # visits it more than once
            act = torch.nn.ReLU()
            block1 = torch.nn.Sequential(torch.nn.Conv1d(4, 3, 3, padding=1), act)
            block2 = torch.nn.Sequential(torch.nn.Conv1d(3, 3, 3, padding=1), act)
            self.act = act
            layers = B('pre') + [block1] + B('mid') + [block2, SumLen(), torch.nn.Linear(3, 2)] + B('post')
        else:
            raise ValueError(arch)
        self.body = torch.nn.Sequential(*layers)
        if arch == 'arg':
            self.al = torch.nn.Linear(1, 2, bias=False)

    def forward(self, X, alpha=None, beta=None):
        y = self.body(X)
        if self.arch == 'arg':
            for a in (alpha, beta):
                if a is not None:
                    y = y + self.al(a.type(y.dtype))
        return y


def build_model(spec):
    torch.manual_seed(1000 + spec['seed'])
    m = Net(spec['arch'], spec['bomb'], spec['L'])
    g = torch.Generator().manual_seed(2000 + spec['seed'])
    for mod in m.modules():
        if isinstance(mod, torch.nn.BatchNorm1d):
            mod.running_mean.copy_(torch.randn(mod.running_mean.shape, generator=g))
            mod.running_var.copy_(torch.rand(mod.running_var.shape, generator=g) + 0.5)
            mod.num_batches_tracked.fill_(7)
    if spec['arch'] == 'userhook':
        conv = [x for x in m.modules() if isinstance(x, torch.nn.Conv1d)][0]
        relu = [x for x in m.modules() if isinstance(x, torch.nn.ReLU)][0]
        lin = [x for x in m.modules() if isinstance(x, torch.nn.Linear)][0]
        conv.register_forward_hook(_user_fhook)
        relu.register_forward_pre_hook(_user_fphook)
        lin.register_full_backward_hook(_user_bhook)
    if spec['arch'] == 'userhook3':
        # user hooks of three kinds on the activation itself, next to which deep_lift_shap puts its own (a user
        # full backward hook would make _register_hooks skip the module: a backward PRE hook does not)
        relu = [x for x in m.modules() if isinstance(x, torch.nn.ReLU)][0]
        relu.register_forward_hook(_user_fhook)
        relu.register_forward_pre_hook(_user_fphook)
        relu.register_full_backward_pre_hook(_user_bprehook)
    if spec['arch'] == 'frozen':
        conv = [x for x in m.modules() if isinstance(x, torch.nn.Conv1d)][0]
        lin = [x for x in m.modules() if isinstance(x, torch.nn.Linear)][0]
        conv.weight.requires_grad_(False)
        lin.bias.requires_grad_(False)
    if spec['arch'] == 'f64':
        m.double()
    tr = spec.get('train', False)
    m.train(bool(tr))
    if tr == 'mixed':
        # the user froze the normalisation layers: top-level module in training mode, BatchNorm in eval mode
        for mod in m.modules():
            if isinstance(mod, torch.nn.BatchNorm1d):
                mod.eval()
    return m


def build_data(d):
    rs = numpy.random.RandomState(d['seed'])
    n, L = d['n'], d['L']
    idx = rs.randint(0, 4, size=(n, L))
    X = torch.zeros(n, 4, L)
    for i in range(n):
        X[i, idx[i], numpy.arange(L)] = 1
    alpha = torch.from_numpy(rs.randint(-3, 4, size=(n, 1)).astype('float32'))
    A0 = torch.from_numpy(rs.randint(-3, 4, size=(3, 1)).astype('float32'))
    A1 = torch.from_numpy(rs.randint(-3, 4, size=(2, 1)).astype('float32'))
    return {'X': X, 'alpha': alpha, 'A0': A0, 'A1': A1, 'n': n, 'L': L}


# ----------------------------------------------------------------------------------------------
# observation

def _pin_threads():
    # numba's threading layer resets the OpenMP thread count when it first launches a parallel
    # kernel (greedy_substitution); reductions then round differently.  Not a model change: pin it.
    if torch.get_num_threads() != 1:
        torch.set_num_threads(1)


def _hooks(model):
    out = {}
    for name, mod in model.named_modules():
        for attr, val in vars(mod).items():
            if 'hooks' in attr and hasattr(val, 'values'):
                out['%s.%s' % (name, attr)] = list(val.values())
    for name, p in model.named_parameters():
        h = getattr(p, '_backward_hooks', None)
        out['param:%s' % name] = list(h.values()) if h else []
        h = getattr(p, '_post_accumulate_grad_hooks', None)
        out['param-post-acc:%s' % name] = list(h.values()) if h else []
    # torch's module-global hook tables (register_module_forward_hook & co.): a hook left there acts on the model too
    for attr, val in vars(_tmod).items():
        if attr.startswith('_global_') and 'hook' in attr and hasattr(val, 'values'):
            out['<torch global>.%s' % attr] = list(val.values())
    return out


def _n_hooks(model):
    return sum(len(v) for v in _hooks(model).values())


def _bytes(t):
    return None if t is None else (str(t.dtype), tuple(t.shape), t.detach().cpu().contiguous().numpy().tobytes())


def _behaviour(model, probe):
    """forward output and ordinary gradients on the probe batch, in eval mode (training flags are
    restored afterwards so that the observation itself does not alter the model)"""
    global _INJ
    saved_inj, _INJ = _INJ, None
    flags = [(m, m.training) for m in model.modules()]
    _pin_threads()
    try:
        model.eval()
        with torch.enable_grad():
            x = probe['X'].clone().requires_grad_()
            y = model(x, probe['alpha']) if probe['use_alpha'] else model(x)
            w = torch.arange(1, y.numel() + 1, dtype=y.dtype).reshape(y.shape) / 7.0
            params = [p for p in model.parameters() if p.requires_grad]
            grads = torch.autograd.grad((y * w).sum(), [x] + params, allow_unused=True)
        return {'output': _bytes(y), 'grad_input': _bytes(grads[0]),
                'grad_params': [_bytes(g) for g in grads[1:]]}
    finally:
        for m, f in flags:
            m.training = f
        _INJ = saved_inj


_BEH = {}


def snapshot(model, probe, key=None):
    """key: identity of a deterministically built, still untouched model; its behaviour is computed once
    per process (the state_dict bytes and hook dictionaries are always read from the live object)"""
    if key is None or key not in _BEH:
        beh = _behaviour(model, probe)
        if key is not None:
            _BEH[key] = beh
    else:
        beh = _BEH[key]
    return {'hooks': _hooks(model),
            'state': {k: _bytes(v) for k, v in model.state_dict().items()},
            'buffers': {n: _bytes(b) for n, b in model.named_buffers()},
            'requires_grad': {n: p.requires_grad for n, p in model.named_parameters()},
            'training': {n: m.training for n, m in model.named_modules()},
            'grad_mode': torch.is_grad_enabled(),
            'behaviour': beh}


def _fn_name(f):
    return getattr(f, '__qualname__', None) or repr(f)


def compare(before, model, probe):
    """-> (violations, hook_violation: bool); one string per violated clause of the statement"""
    out, hookv = [], False
    hooks = _hooks(model)
    left, gone = [], []
    for key in sorted(set(before['hooks']) | set(hooks)):
        a, b = before['hooks'].get(key, []), hooks.get(key, [])
        left += ['%s:%s' % (key, _fn_name(f)) for f in b if not any(f is g for g in a)]
        gone += ['%s:%s' % (key, _fn_name(f)) for f in a if not any(f is g for g in b)]
    if left:
        out.append('%d hooks left over (%s)' % (len(left), ', '.join(left[:6]) + (', ...' if len(left) > 6 else '')))
    if gone:
        out.append('%d pre-existing hooks removed (%s)' % (len(gone), ', '.join(gone[:6])))
    hookv = bool(left or gone)
    state = {k: _bytes(v) for k, v in model.state_dict().items()}
    if set(state) != set(before['state']):
        out.append('state_dict keys changed: %s' % sorted(set(state) ^ set(before['state'])))
    bad = [k for k in state if k in before['state'] and state[k] != before['state'][k]]
    if bad:
        out.append('state_dict entries not bit-identical: %s' % bad)
    bufs = {n: _bytes(b) for n, b in model.named_buffers()}
    if set(bufs) != set(before['buffers']):
        out.append('set of buffers changed: %s' % sorted(set(bufs) ^ set(before['buffers'])))
    bad = [k for k in bufs if k in before['buffers'] and bufs[k] != before['buffers'][k] and k not in state]
    if bad:
        out.append('non-persistent buffers not bit-identical: %s' % bad)
    rg = {n: p.requires_grad for n, p in model.named_parameters()}
    bad = [k for k in rg if k in before['requires_grad'] and rg[k] != before['requires_grad'][k]]
    if bad:
        out.append('requires_grad flag of parameters changed: %s' % ['%s -> %s' % (k, rg[k]) for k in bad])
    bad = [n for n, m in model.named_modules() if m.training and not before['training'].get(n, True)]
    if bad:
        out.append('modules switched from eval to training mode: %s' % bad)
    if torch.is_grad_enabled() != before['grad_mode']:
        out.append('torch grad mode not restored')
        torch.set_grad_enabled(before['grad_mode'])
    try:
        beh = _behaviour(model, probe)
    except BaseException as e:   # e.g. a left-over hook that now fails
        out.append('ordinary forward/backward of the model now raises %s: %s' % (type(e).__name__, str(e)[:80]))
        return out, hookv
    diff = [k for k in ('output', 'grad_input', 'grad_params') if beh[k] != before['behaviour'][k]]
    if diff:
        names = {'output': 'forward output', 'grad_input': 'ordinary gradient w.r.t. the input',
                 'grad_params': 'ordinary gradient w.r.t. the parameters'}
        out.append('%s on the probe batch differ(s) from before the call' % ', '.join(names[k] for k in diff))
    return out, hookv


# ----------------------------------------------------------------------------------------------
# the API calls

try:
    from tangermeme.deep_lift_shap import _nonlinear as _lib_nonlinear, _maxpool as _lib_maxpool
except Exception:    # pragma: no cover - private names moved: own rescale rule for elementwise ops
    def _lib_nonlinear(module, grad_input, grad_output):
        d_in = torch.sub(*module.input.chunk(2))
        d_out = torch.sub(*module.output.chunk(2))
        d_in, d_out = torch.cat([d_in, d_in]), torch.cat([d_out, d_out])
        return (torch.where(torch.abs(d_in) < 1e-6, grad_input[0], grad_output[0] * d_out / d_in),)
    _lib_maxpool = None


def _wrap_op(op):
    def f(module, grad_input, grad_output):
        _tick('bhook')
        return op(module, grad_input, grad_output)
    return f


def _plain_op(module, grad_input, grad_output):
    """a user op that keeps the ordinary gradient: the attributions differ from those of the default table"""
    _tick('bhook')
    return grad_input


def _ops(mode=True):
    """mode True: the library's own rules behind a ticking wrapper (also for the classes only the harness knows);
    'plain': ordinary gradients for ReLU (a table whose use shows in the result)"""
    if mode == 'plain':
        return {torch.nn.ReLU: _plain_op, BombReLU: _plain_op, MyAct: _wrap_op(_lib_nonlinear)}
    ops = {torch.nn.ReLU: _wrap_op(_lib_nonlinear), torch.nn.Tanh: _wrap_op(_lib_nonlinear),
           torch.nn.PReLU: _wrap_op(_lib_nonlinear), MyAct: _wrap_op(_lib_nonlinear),
           BombReLU: _wrap_op(_lib_nonlinear)}
    if _lib_maxpool is not None:
        ops[torch.nn.MaxPool1d] = _wrap_op(_lib_maxpool)
    return ops


def _ref_fn(X, n=20, random_state=None, **kwargs):
    _tick('reference')
    return ersatz.dinucleotide_shuffle(X, n=n, random_state=random_state)


def _ref_fn_bad_shape(X, n=20, random_state=None, **kwargs):
    _tick('reference')
    return torch.zeros(X.shape[0], n, X.shape[1], X.shape[2] + 1)


def _ref_fn_none(X, n=20, random_state=None, **kwargs):
    _tick('reference')
    return None


def _shuffle_fn(X, start=0, end=-1, n=1, random_state=None):
    _tick('shuffle_fn')
    return ersatz.shuffle(X, start=start, end=end, n=n, random_state=random_state)


# ops: False (default table) / True / 'plain' (see _ops); xdtype: 'f64' casts X (and the reference tensor)
# to float64; ambient: 'no_grad' makes the call under torch.no_grad()
DEFAULT_OPTS = {'func': 'predict', 'bs': 4, 'rs': 0, 'ns': 2, 'ref': 'fn', 'args': False, 'ops': False,
                'raw': False, 'hyp': False, 'retref': False, 'target': 0, 'xdtype': None, 'ambient': None}

INVALID = ['N-default-ref', 'N-fn-ref', 'target-oob', 'args-short', 'refs-tensor-short', 'refs-tensor-wrong-L',
           'X-int8', 'X-wrong-channels', 'ref-fn-bad-shape', 'ref-fn-none', 'warning-as-error', 'n-shuffles-0',
           'motif-too-long', 'span-off-end',
           'device-bad', 'X-empty', 'batch-size-0', 'X-float64', 'ops-bad-key']


def _bad_device():
    return 'cuda:7' if torch.cuda.is_available() and torch.cuda.device_count() < 8 else 'cuda'

APIS = ['predict', 'deep_lift_shap', 'saturation_mutagenesis', 'marginalize', 'ablate', 'space',
        'substitution_effect', 'deletion_effect', 'insertion_effect', 'marginalize_annotations',
        'ablate_annotations', 'apply_pairwise', 'apply_product', 'greedy_substitution']


def _call(model, D, api, opts, invalid):
    o = dict(DEFAULT_OPTS)
    o.update(opts or {})
    X, n, L = D['X'], D['n'], D['L']
    args = (D['alpha'],) if o['args'] else None
    motif, span = 'AC', (2, 6)
    dls = dict(target=o['target'], n_shuffles=o['ns'], random_state=o['rs'], raw_outputs=o['raw'],
               hypothetical=o['hyp'], return_references=o['retref'])
    if o['ref'] == 'fn':
        dls['references'] = _ref_fn
    elif o['ref'] == 'tensor':
        dls['references'] = ersatz.dinucleotide_shuffle(X, n=o['ns'], random_state=5)
    if o['ops']:
        dls['additional_nonlinear_ops'] = _ops(o['ops'])
    if o['xdtype'] == 'f64':
        X = X.double()
        if isinstance(dls.get('references'), torch.Tensor):
            dls['references'] = dls['references'].double()
    device, bs = 'cpu', o['bs']
    # ---- invalid inputs
    if invalid in ('N-default-ref', 'N-fn-ref'):
        X = X.clone()
        X[0, :, 3] = 0
        if invalid == 'N-default-ref':
            dls.pop('references', None)
    elif invalid == 'target-oob':
        dls['target'] = 7
    elif invalid == 'args-short':
        args = (D['alpha'][:1],)
    elif invalid == 'refs-tensor-short':
        dls['references'] = torch.zeros(max(n - 1, 0), o['ns'], 4, L)
    elif invalid == 'refs-tensor-wrong-L':
        dls['references'] = torch.zeros(n, o['ns'], 4, L + 1)
    elif invalid == 'X-int8':
        X = X.type(torch.int8)
    elif invalid == 'X-wrong-channels':
        X = torch.cat([X, torch.zeros(n, 1, L)], dim=1)
    elif invalid == 'ref-fn-bad-shape':
        dls['references'] = _ref_fn_bad_shape
    elif invalid == 'ref-fn-none':
        dls['references'] = _ref_fn_none
    elif invalid == 'warning-as-error':
        dls['warning_threshold'] = -1.0
    elif invalid == 'n-shuffles-0':
        dls['n_shuffles'] = 0
    elif invalid == 'motif-too-long':
        motif = 'ACGT' * L
    elif invalid == 'span-off-end':
        span = (2, L + 3)
    elif invalid == 'device-bad':
        device = _bad_device()
    elif invalid == 'X-empty':
        X = X[:0]
        args = None if args is None else tuple(a[:0] for a in args)
    elif invalid == 'batch-size-0':
        bs = 0
    elif invalid == 'X-float64':
        X = X.double()
    elif invalid == 'ops-bad-key':
        dls['additional_nonlinear_ops'] = {'ReLU': _plain_op}
    elif invalid is not None:
        raise ValueError('unknown invalid kind %r' % invalid)

    use_dls = o['func'] == 'dls' or api == 'deep_lift_shap'
    func = deep_lift_shap if use_dls else predict
    common = dict(batch_size=bs, device=device)
    fk = dict(dls) if use_dls else {}

    if api == 'predict':
        return predict(model, X, args=args, **common)
    if api == 'deep_lift_shap':
        return deep_lift_shap(model, X, args=args, **common, **dls)
    if api == 'saturation_mutagenesis':
        return saturation_mutagenesis(model, X, args=args, **common)
    if api == 'marginalize':
        return marginalize(model, X, motif, func=func, additional_func_kwargs=fk, args=args, **common)
    if api == 'ablate':
        fk.pop('random_state', None)
        return ablate(model, X, span[0], span[1], n=2, shuffle_fn=_shuffle_fn, args=args, random_state=o['rs'],
                      func=func, additional_func_kwargs=fk, **common)
    if api == 'space':
        return space(model, X, [motif, 'G'], [[1], [2]], func=func, additional_func_kwargs=fk, args=args, **common)
    if api == 'substitution_effect':
        subs = torch.tensor([[0, 1, 2], [n - 1, span[1] - 1, 0]])
        return substitution_effect(model, X, subs, args=args, func=func, additional_func_kwargs=fk, **common)
    if api == 'deletion_effect':
        dels = torch.tensor([[0, 1], [0, 2], [n - 1, span[1] - 1]])
        return deletion_effect(model, X, dels, args=args, func=func, additional_func_kwargs=fk, **common)
    if api == 'insertion_effect':
        ins = torch.tensor([[0, 1, 2], [n - 1, min(span[1] - 1, L + 50), 0]])
        return insertion_effect(model, X, ins, args=args, func=func, additional_func_kwargs=fk, **common)
    if api == 'marginalize_annotations':
        ann = torch.tensor([[0, 1, 4], [n - 1, span[0], span[1]]])
        return marginalize_annotations(model, X, X, ann, func=func, additional_func_kwargs=fk, args=args, **common)
    if api == 'ablate_annotations':
        ann = torch.tensor([[0, 1, 4], [n - 1, span[0], span[1]]])
        fk.pop('random_state', None)
        # no `args` here: the per-annotation slicing of args is C08's subject
        return ablate_annotations(model, X, ann, n=2, shuffle_fn=_shuffle_fn, random_state=o['rs'], func=func,
                                  additional_func_kwargs=fk, **common)
    if api == 'apply_pairwise':
        A = [D['A0'][:1]] if invalid == 'args-short' else [D['A0']]
        return apply_pairwise(func, model, X, A, additional_func_kwargs=fk, **common)
    if api == 'apply_product':
        A = [D['A0'][:1]] if invalid == 'args-short' else [D['A0'], D['A1']]
        return apply_product(func, model, X, A, additional_func_kwargs=fk, **common)
    if api == 'greedy_substitution':
        motifs = [motif, 'T'] if invalid == 'motif-too-long' else ['ACG', 'T']
        n_thr = numba.get_num_threads()
        numba.set_num_threads(1)
        try:
            return greedy_substitution(model, X[:1], motifs, torch.zeros(1, 2), max_iter=2, **common)
        finally:
            numba.set_num_threads(n_thr)
    raise ValueError('unknown api %r' % api)


_WARM = False


def _warmup():
    """launch numba's parallel layer once (it changes the OpenMP thread count, see _pin_threads) so that
    no later call differs from another only by the thread count it happened to run with"""
    global _WARM
    if not _WARM:
        _WARM = True
        m = build_model({'arch': 'relu', 'bomb': None, 'L': 8, 'seed': 0})
        D = build_data({'n': 1, 'L': 8, 'seed': 0})
        greedy_substitution(m, D['X'], ['AC'], torch.zeros(1, 2), max_iter=1, device='cpu')
        _pin_threads()


def run_api(model, D, item):
    """one API call under (optional) injection -> (outcome, injector); outcome = ('ok', result) or
    ('raised', exception class name).  All global RNGs are seeded so that the call is reproducible."""
    global _INJ
    _warmup()
    inj = item.get('inject') or {}
    _INJ = _Injector(inj.get('channel'), inj.get('k', 0), inj.get('exc', 'RuntimeError'))
    injector = _INJ
    injector.grad_mode = None
    _pin_threads()
    numpy.random.seed(12345)
    torch.manual_seed(12345)
    ambient = (item.get('opts') or {}).get('ambient')
    # channel 'postproc': a ticking wrapper around the library's per-batch post-processing function
    orig_pp = getattr(_dls_mod, 'hypothetical_attributions', None)
    if orig_pp is not None:
        def _pp(*a, **k):
            _tick('postproc')
            return orig_pp(*a, **k)
        _dls_mod.hypothetical_attributions = _pp
    try:
        with warnings.catch_warnings():
            warnings.simplefilter('error' if item.get('invalid') == 'warning-as-error' else 'ignore')
            with (torch.no_grad() if ambient == 'no_grad' else contextlib.nullcontext()):
                mode0 = torch.is_grad_enabled()
                try:
                    outcome = ('ok', _call(model, D, item['api'], item.get('opts'), item.get('invalid')))
                except BaseException as e:
                    outcome = ('raised', type(e).__name__)
                injector.grad_mode = (mode0, torch.is_grad_enabled())
                torch.set_grad_enabled(mode0)
    finally:
        _INJ = None
        if orig_pp is not None:
            _dls_mod.hypothetical_attributions = orig_pp
    return outcome, injector


def _grad_mode_violation(injector):
    gm = injector.grad_mode
    if gm is not None and gm[0] != gm[1]:
        return ['torch grad mode not restored (enabled=%s before the call, %s after it)' % gm]
    return []


def _probe(case, D):
    rs = numpy.random.RandomState(99)
    L = D['L']
    idx = rs.randint(0, 4, size=(2, L))
    X = torch.zeros(2, 4, L)
    for i in range(2):
        X[i, idx[i], numpy.arange(L)] = 1
    if case['model']['arch'] == 'f64':
        X = X.double()
    return {'X': X, 'alpha': torch.tensor([[1.0], [-2.0]]), 'use_alpha': case['model']['arch'] == 'arg'}


def _eval_call(case):
    model = build_model(case['model'])
    D = build_data(case['data'])
    probe = _probe(case, D)
    before = snapshot(model, probe, _item_key(case['model']))
    outcome, inj = run_api(model, D, case)
    viol, hookv = compare(before, model, probe)
    viol = _grad_mode_violation(inj) + viol
    how = 'returned' if outcome[0] == 'ok' else 'raised %s' % outcome[1]
    viol = ['after %s %s: %s' % (case['api'], how, '; '.join(viol))] if viol else []
    return viol, {'hookv': hookv, 'outcome': outcome, 'counts': dict(inj.counts), 'fired': inj.fired}


def check_call(case):
    return _eval_call(case)[0]


def _finding(hookv, outcome_kind, exc_name):
    head = 'hooks-left' if hookv else 'model-changed'
    if outcome_kind == 'ok':
        return head + '-after-return'
    if exc_name in ('KeyboardInterrupt', 'SystemExit', 'GeneratorExit'):
        return head + '-after-baseexception'
    return head + '-after-exception'


# ----------------------------------------------------------------------------------------------
# histories

def _same(a, b):
    if isinstance(a, torch.Tensor) or isinstance(b, torch.Tensor):
        return isinstance(a, torch.Tensor) and isinstance(b, torch.Tensor) and _bytes(a) == _bytes(b)
    if isinstance(a, (list, tuple)) or isinstance(b, (list, tuple)):
        return isinstance(a, (list, tuple)) and isinstance(b, (list, tuple)) and len(a) == len(b) and \
            all(_same(x, y) for x, y in zip(a, b))
    return a == b


def _item_key(item):
    return repr(sorted((k, repr(v)) for k, v in item.items()))


def _eval_history(case, fresh_cache=None):
    """case['items']: list of call items (api, opts, inject, invalid) executed in order on ONE model;
    each result is compared with the same call on a fresh copy of the model"""
    fresh_cache = {} if fresh_cache is None else fresh_cache
    D = build_data(case['data'])
    probe = _probe(case, D)
    shared = build_model(case['model'])
    before = snapshot(shared, probe, _item_key(case['model']))
    n_before = _n_hooks(shared)
    viol, first_bad = [], None
    for pos, item in enumerate(case['items']):
        key = (_item_key(case['model']), _item_key(case['data']), _item_key(item))
        if key not in fresh_cache:
            fresh_cache[key] = run_api(build_model(case['model']), D, item)[0]
        exp = fresh_cache[key]
        got, inj = run_api(shared, D, item)
        viol += ['call #%d (%s): %s' % (pos + 1, item['api'], w) for w in _grad_mode_violation(inj)]
        if got[0] != exp[0] or not _same(got[1], exp[1]):
            viol.append('call #%d (%s) on the shared model %s but on a fresh copy %s' % (
                pos + 1, item['api'], 'raised ' + got[1] if got[0] == 'raised' else 'returned a different result',
                'raised ' + exp[1] if exp[0] == 'raised' else 'returned'))
        if first_bad is None and _n_hooks(shared) != n_before:
            first_bad = (pos, got)
    v, hookv = compare(before, shared, probe)
    if v:
        viol.append('after the history %s: %s' % ([i['api'] for i in case['items']], '; '.join(v)))
    return viol, {'hookv': hookv or first_bad is not None, 'first_bad': first_bad}


def check_history(case):
    return _eval_history(case)[0]


# ----------------------------------------------------------------------------------------------
# self-test of the observer (a harness that cannot see a leak proves nothing)

def _selftest():
    spec = {'arch': 'bnpool', 'bomb': 'mid', 'L': 8, 'seed': 0, 'train': True}
    case = {'model': spec}
    D = build_data({'n': 2, 'L': 8, 'seed': 0})
    probe = _probe(case, D)

    def leak_fhook(m):
        [x for x in m.modules() if isinstance(x, torch.nn.ReLU)][0].register_forward_hook(_user_fhook)

    def leak_bhook(m):
        [x for x in m.modules() if isinstance(x, torch.nn.ReLU)][0].register_full_backward_hook(
            lambda mod, gi, go: (gi[0] * 2,))

    def ulp(m):
        with torch.no_grad():
            p = next(m.parameters())
            p.view(-1)[0] = torch.nextafter(p.view(-1)[0], torch.tensor(10.0))

    def buf(m):
        [x for x in m.modules() if isinstance(x, torch.nn.BatchNorm1d)][0].num_batches_tracked += 1

    def train_fwd(m):   # a forward pass in training mode updates the BatchNorm buffers
        m.train()
        m(D['X'])

    def to_train(m):
        m.train()

    for name, bad, start_train in (('forward hook', leak_fhook, True), ('backward hook', leak_bhook, True),
                                   ('1-ulp parameter change', ulp, True), ('buffer change', buf, True),
                                   ('training-mode forward', train_fwd, True), ('eval -> train', to_train, False)):
        m = build_model(dict(spec, train=start_train))
        before = snapshot(m, probe)
        bad(m)
        v, _ = compare(before, m, probe)
        if not v:
            raise AssertionError('C07 observer self-test: %s not detected' % name)
    m = build_model(spec)
    before = snapshot(m, probe)
    m.eval()
    if compare(before, m, probe)[0]:
        raise AssertionError('C07 observer self-test: eval() reported as a change')

    # the additions: global hook table, requires_grad flags (both directions), non-persistent buffer, mixed flags
    def glob(m):
        return _tmod.register_module_forward_hook(_user_fhook)

    def thaw(m):
        for p in m.parameters():
            p.requires_grad_(True)

    def freeze(m):
        [p for p in m.parameters() if p.requires_grad][0].requires_grad_(False)

    def npbuf(m):
        [x for x in m.modules() if isinstance(x, MyAct)][0].calls += 1

    def retrain(m):
        m.train()

    for name, bad, sp in (('global forward hook', glob, _spec('relu')), ('frozen parameter made trainable', thaw, _spec('frozen')),
                          ('parameter frozen', freeze, _spec('frozen')), ('non-persistent buffer change', npbuf, _spec('custom')),
                          ('train(True) over a BatchNorm in eval mode', retrain, _spec('bnpool', train='mixed'))):
        m = build_model(sp)
        pr = _probe({'model': sp}, D)
        before = snapshot(m, pr)
        h = bad(m)
        v, _ = compare(before, m, pr)
        if h is not None:
            h.remove()
        if not v:
            raise AssertionError('C07 observer self-test: %s not detected' % name)
    for sp in (_spec('frozen'), _spec('f64'), _spec('custom'), _spec('regbomb'), _spec('inplace'), _spec('userhook3'),
               _spec('bnpool', train='mixed')):
        m = build_model(sp)
        pr = _probe({'model': sp}, D)
        before = snapshot(m, pr)
        if compare(before, m, pr)[0]:
            raise AssertionError('C07 observer self-test: untouched %s model reported as changed' % sp['arch'])


# ----------------------------------------------------------------------------------------------
# enumeration

_CHANNELS_DLS = ('forward', 'reference', 'backward', 'bhook')


def _spec(arch, bomb='mid', L=8, seed=0, train=None):
    return {'arch': arch, 'bomb': bomb, 'L': L, 'seed': seed,
            'train': (arch in ('bnpool', 'custom')) if train is None else train}


def _record(rep, case, viol, info, section):
    rep.case(_item_key(case), nontrivial=True, section=section,
             sample={k: case[k] for k in ('api', 'opts', 'inject', 'invalid')} if info.get('fired') else None)
    if viol:
        inj = case.get('inject') or {}
        key = _finding(info['hookv'], info['outcome'][0], info['outcome'][1] if info['outcome'][0] == 'raised' else None)
        for w in viol:
            rep.violation(w, case, finding=key)


def _inject_all(rep, base, channels, excs, section, first_only=(), ks=None):
    """measure K per channel on the uninjected run, then inject at every k = 1..K with every exception
    class of `excs` (classes in `first_only` are injected at k = 1 only; `ks`: restrict to these k, negative
    values counting from K)"""
    clean = dict(base, inject=None)
    viol, info = _eval_call(clean)
    _record(rep, clean, viol, info, section + ':none')
    counts = info['counts']
    for ch in channels:
        K = counts.get(ch, 0)
        for k in range(1, K + 1):
            if ks is not None and k not in [x if x > 0 else K + 1 + x for x in ks]:
                continue
            for exc in excs:
                if exc in first_only and k > 1:
                    continue
                if rep.out_of_time():
                    return False
                case = dict(base, inject={'channel': ch, 'k': k, 'exc': exc})
                viol, info = _eval_call(case)
                if not info['fired']:
                    rep.note('injection %s #%d did not fire for %s' % (ch, k, base['api']))
                _record(rep, case, viol, info, section + ':' + ch)
    return True


def _base(api, model, data, opts=None, invalid=None):
    return {'kind': 'call', 'api': api, 'model': model, 'data': data, 'opts': opts or {}, 'invalid': invalid}


# appended to MENU below (the indices of CORE stay put): a result-changing op table, returning and failing - the
# failing call leaves its table on the modules, which a later call must not pick up
_MENU_ADDED = [
    {'api': 'deep_lift_shap', 'opts': {'args': True, 'ops': 'plain'}},
    {'api': 'deep_lift_shap', 'opts': {'args': True, 'ops': 'plain'}, 'invalid': 'target-oob'},
    {'api': 'predict', 'opts': {'args': True, 'ambient': 'no_grad'}},
]

MENU = [
    {'api': 'predict', 'opts': {'args': True}},
    {'api': 'predict', 'opts': {'args': True}, 'invalid': 'args-short'},
    {'api': 'deep_lift_shap', 'opts': {'args': True}},
    {'api': 'deep_lift_shap', 'opts': {'args': True}, 'invalid': 'N-default-ref'},
    {'api': 'deep_lift_shap', 'opts': {'args': True}, 'invalid': 'target-oob'},
    {'api': 'deep_lift_shap', 'opts': {'args': True}, 'inject': {'channel': 'forward', 'k': 2, 'exc': 'RuntimeError'}},
    {'api': 'deep_lift_shap', 'opts': {'args': True}, 'inject': {'channel': 'reference', 'k': 2, 'exc': 'RuntimeError'}},
    {'api': 'deep_lift_shap', 'opts': {'args': True}, 'inject': {'channel': 'backward', 'k': 1, 'exc': 'KeyboardInterrupt'}},
    {'api': 'saturation_mutagenesis', 'opts': {'args': True}},
    {'api': 'marginalize', 'opts': {'args': True}},
    {'api': 'marginalize', 'opts': {'args': True, 'func': 'dls'}},
    {'api': 'ablate', 'opts': {'args': True}},
    {'api': 'space', 'opts': {'args': True}},
    {'api': 'substitution_effect', 'opts': {'args': True}},
    {'api': 'deletion_effect', 'opts': {'args': True}},
    {'api': 'insertion_effect', 'opts': {'args': True}},
    {'api': 'apply_product', 'opts': {}},
    {'api': 'apply_pairwise', 'opts': {'func': 'dls'}},
    {'api': 'greedy_substitution', 'opts': {}},
    {'api': 'deep_lift_shap', 'opts': {'args': True}, 'invalid': 'X-int8'},
] + _MENU_ADDED
CORE = [0, 2, 3, 4, 8, 6]


def _norm_item(item):
    return {'api': item['api'], 'opts': item.get('opts') or {}, 'inject': item.get('inject'), 'invalid': item.get('invalid')}


def _history(rep, model, data, idxs, cache, section):
    case = {'kind': 'history', 'model': model, 'data': data, 'items': [_norm_item(MENU[i]) for i in idxs]}
    viol, info = _eval_history(case, cache)
    rep.case(('hist', _item_key(model), tuple(idxs)), nontrivial=True, section=section,
             sample={'history': [MENU[i]['api'] + (':' + str(MENU[i].get('invalid') or MENU[i].get('inject') or '')) for i in idxs]}
             if len(idxs) == 3 else None)
    if viol:
        # the finding is named after the first call of the history that left hooks behind
        key = 'history-differs-from-fresh-copies'
        if info['first_bad'] is not None:
            got = info['first_bad'][1]
            key = _finding(True, got[0], got[1] if got[0] == 'raised' else None)
        elif info['hookv']:
            key = _finding(True, 'raised', 'Exception')
        for w in viol:
            rep.violation(w, case, finding=key)


_DLS_ONLY = ('N-default-ref', 'target-oob', 'refs-tensor-short', 'refs-tensor-wrong-L', 'ref-fn-bad-shape',
             'ref-fn-none', 'warning-as-error', 'n-shuffles-0', 'ops-bad-key')
_NO_FUNC = ('predict', 'saturation_mutagenesis', 'greedy_substitution')
_NO_ARGS = ('greedy_substitution', 'ablate_annotations')


def run(rep):
    thorough = rep.tier == 'thorough'
    _selftest()
    rep.note('observer self-test passed (forward hook, backward hook, 1-ulp parameter change, buffer change, '
             'training-mode forward, eval->train are each detected; eval() alone is not reported)')
    data = {'n': 3, 'L': 8, 'seed': rep.seed}
    both = ('RuntimeError', 'KeyboardInterrupt')

    # ---- A. deep_lift_shap, direct: every injection point
    cfgs = []
    if thorough:
        for arch in ('relu', 'bnpool', 'arg', 'userhook', 'shared'):
            for bomb in ('pre', 'mid', 'post'):
                for bs in (1, 2, 4, 5, 32):
                    for rs in (0, None):
                        cfgs.append((_spec(arch, bomb), {'bs': bs, 'rs': rs, 'args': arch == 'arg'}, data))
        for flags in ({'raw': True}, {'hyp': True}, {'retref': True}, {'ref': 'tensor'}, {'ref': 'default'}):
            cfgs.append((_spec('relu'), dict({'bs': 4}, **flags), data))
        for n, L, ns in ((2, 9, 3), (4, 10, 2), (1, 8, 3)):
            cfgs.append((_spec('bnpool', 'mid', L), {'bs': 4, 'ns': ns}, {'n': n, 'L': L, 'seed': rep.seed + 1}))
    else:
        for bs, rs in ((1, 0), (4, 0), (4, None), (32, 0)):
            cfgs.append((_spec('relu', 'mid'), {'bs': bs, 'rs': rs}, data))
        for arch, bomb in (('shared', 'mid'), ('relu', 'pre'), ('relu', 'post'), ('bnpool', 'mid'), ('arg', 'mid'), ('userhook', 'mid')):
            cfgs.append((_spec(arch, bomb), {'bs': 4, 'args': arch == 'arg'}, data))
        cfgs.append((_spec('relu'), {'bs': 4, 'ref': 'tensor', 'raw': True}, data))
    every = both + ('SystemExit', 'CustomError')
    # added model classes / call contexts (quick: one batching each)
    added = [(_spec('frozen'), {'bs': 4}, data), (_spec('custom'), {'bs': 4}, data), (_spec('userhook3'), {'bs': 4}, data),
             (_spec('f64'), {'bs': 4, 'xdtype': 'f64'}, data), (_spec('f64'), {'bs': 4}, data),
             (_spec('bnpool', train='mixed'), {'bs': 4}, data), (_spec('inplace'), {'bs': 4}, data),
             (_spec('relu'), {'bs': 4, 'ambient': 'no_grad'}, data)]
    if thorough:
        added += [(m, dict(o, bs=bs, rs=rs), d) for m, o, d in added for bs, rs in ((1, 0), (5, None), (32, 0))]
    first = True
    for model, opts, d in cfgs + added:
        for ops in (False, True):
            o = dict(opts, ops=ops)
            chans = ('bhook',) if ops else ('forward', 'reference', 'backward', 'postproc')
            # all four exception classes on the first configuration (thorough: on every configuration with batch size 4
            # and an integer random_state), every k; elsewhere RuntimeError / KeyboardInterrupt
            excs = every if first or (thorough and opts.get('bs') == 4 and opts.get('rs', 0) == 0) else both
            if not _inject_all(rep, _base('deep_lift_shap', model, d, o), chans, excs, 'deep_lift_shap'):
                rep.note('time budget reached in part A')
                return
        first = False
    # hook registration that fails half-way (channel register), and an activation sub-class missing from the op table
    # (ops False: KeyError inside the backward hook - a failure during back-propagation that needs no injection)
    reg_excs = ('RuntimeError', 'CustomError') + (('KeyboardInterrupt', 'SystemExit') if CHECK_BASEEXC_DURING_REGISTRATION else ())
    for bs in ((1, 4, 32) if thorough else (4,)):
        for ops, chans, excs in ((True, ('register',), reg_excs), (True, ('bhook', 'forward', 'postproc'), both),
                                 (False, ('register',), reg_excs), (False, ('forward', 'reference'), both)):
            if not _inject_all(rep, _base('deep_lift_shap', _spec('regbomb'), data, {'bs': bs, 'ops': ops}), chans, excs,
                               'deep_lift_shap/regbomb'):
                rep.note('time budget reached in part A')
                return
    n_cfgs = len(cfgs) + len(added) + 1
    rep.mark_exhaustive('every injection point k=1..K (forward, reference generator, backward node, backward hook, per-batch '
                        'post-processing, hook registration) of deep_lift_shap on %d model/batching configurations, RuntimeError '
                        'and KeyboardInterrupt (hook registration: Exception sub-classes only%s)' % (
                            n_cfgs, '' if not CHECK_BASEEXC_DURING_REGISTRATION else ' - and BaseException'))

    # ---- B. every listed API function, func=predict and func=deep_lift_shap
    dataB = data if thorough else {'n': 2, 'L': 8, 'seed': rep.seed}
    for api in APIS:
        if api == 'deep_lift_shap':
            continue
        for func in (('predict',) if api in _NO_FUNC else ('predict', 'dls')):
            variants = [(_spec('arg', 'mid'), {'func': func, 'args': api not in _NO_ARGS, 'bs': 4 if thorough else 3})]
            if thorough:
                variants.append((_spec('bnpool', 'post'), {'func': func, 'bs': 1, 'rs': None if func == 'dls' and
                                 api not in ('ablate', 'ablate_annotations') else 0}))
            for mdl, opts in variants:
                chans = ('forward', 'shuffle_fn') + (('reference', 'backward') if func == 'dls' else ())
                # quick tier: KeyboardInterrupt at the first injection point of each channel only
                first_only = () if thorough else ('KeyboardInterrupt',)
                if not _inject_all(rep, _base(api, mdl, dataB, opts), chans, both, api + '/' + func, first_only):
                    rep.note('time budget reached in part B')
                    return
                if func == 'dls':
                    if not _inject_all(rep, _base(api, mdl, dataB, dict(opts, ops=True)), ('bhook',), both,
                                       api + '/' + func, first_only):
                        rep.note('time budget reached in part B')
                        return
    rep.mark_exhaustive('every injection point of every listed API function (func=predict and func=deep_lift_shap)')

    # ---- B2. every listed function on the model classes whose state a call can disturb without any hook being left:
    # training-mode BatchNorm/Dropout (buffers), mixed training flags, frozen parameters, float64 parameters, a
    # non-persistent training-mode buffer; and under an ambient torch.no_grad().  Uninjected + first forward failing.
    variantsB2 = [(_spec('bnpool', 'pre'), {}), (_spec('bnpool', 'pre', train='mixed'), {}), (_spec('custom', 'pre'), {}),
                  (_spec('frozen', 'pre'), {}), (_spec('f64', 'pre'), {}), (_spec('arg', 'pre'), {'ambient': 'no_grad', 'args': True})]
    for mdl, extra in variantsB2:
        for api in APIS:
            for func in (('predict',) if api in _NO_FUNC else (('dls',) if api == 'deep_lift_shap' else ('predict', 'dls'))):
                opts = dict(extra, func=func, bs=3)
                if api in _NO_ARGS:
                    opts['args'] = False
                if mdl['arch'] == 'f64' and func == 'dls':
                    opts['xdtype'] = 'f64'
                if mdl['arch'] == 'custom' and func == 'dls':
                    opts['ops'] = True
                excs = both if thorough or extra else ('RuntimeError',)
                if not _inject_all(rep, _base(api, mdl, dataB, opts), ('forward',), excs, 'B2:%s/%s' % (mdl['arch'], func),
                                   ks=None if thorough else (1,)):
                    rep.note('time budget reached in part B2')
                    return
    rep.mark_exhaustive('every listed API function (func=predict and func=deep_lift_shap), returning and failing in the first '
                        'forward pass, on %d model classes / call contexts' % len(variantsB2))

    # ---- C. invalid inputs
    for api in APIS:
        funcs = ('predict',) if api in _NO_FUNC else (('dls',) if api == 'deep_lift_shap' else ('predict', 'dls'))
        for func in funcs:
            for inv in INVALID:
                if func == 'predict' and inv in _DLS_ONLY:
                    continue
                mdls = [_spec('arg', 'mid')] + ([_spec('bnpool', 'mid')] if thorough or api == 'deep_lift_shap' else [])
                for mdl in mdls:
                    if rep.out_of_time():
                        rep.note('time budget reached in part C')
                        return
                    case = _base(api, mdl, data, {'func': func, 'args': mdl['arch'] == 'arg' and api not in _NO_ARGS}, inv)
                    case['inject'] = None
                    viol, info = _eval_call(case)
                    _record(rep, case, viol, info, 'invalid:' + inv)
    rep.mark_exhaustive('%d kinds of invalid input x every listed API function' % len(INVALID))

    # ---- D. histories on a shared model vs fresh copies
    rng = rep.rng
    models = [_spec('arg', 'mid')] + ([_spec('bnpool', 'mid')] if thorough else [])
    core = CORE if thorough else CORE[:5]
    if not thorough:
        # a training-mode BatchNorm/Dropout model: the first call of a history switches it to eval mode
        mdl, cache = _spec('bnpool', 'mid'), {}
        for ln in (1, 2):
            for idxs in itertools.product(core, repeat=ln):
                if rep.out_of_time():
                    rep.note('time budget reached in part D')
                    return
                _history(rep, mdl, data, idxs, cache, 'history-train-len%d' % ln)
    for mdl in models:
        cache = {}
        todo = [(idxs, 'history-len%d' % ln) for ln in (1, 2) for idxs in itertools.product(range(len(MENU)), repeat=ln)]
        # the histories that contain an added menu item first (a stale op table shows only there)
        n_old = len(MENU) - len(_MENU_ADDED)
        todo.sort(key=lambda t: not any(i >= n_old for i in t[0]))
        todo += [(idxs, 'history-len3') for idxs in itertools.product(core, repeat=3)]
        all4 = list(itertools.product(core, repeat=4))
        todo += [(idxs, 'history-len4') for idxs in (all4 if thorough else rng.sample(all4, 120))]
        for idxs, section in todo:
            if rep.out_of_time():
                rep.note('time budget reached in part D')
                return
            _history(rep, mdl, data, idxs, cache, section)
    rep.mark_exhaustive('histories of length <= 2 over the %d-item menu; length 3%s over the %d-item core menu' % (
        len(MENU), ' and 4' if thorough else '', len(core)))


def replay(case):
    k = case.get('kind')
    if k == 'call':
        return check_call(case)
    if k == 'history':
        return check_history(case)
    return ['unknown replay kind']
