"""Bounded stand-in for C19 (seqlet.recursive_seqlets / seqlet.tfmodisco_seqlets) -- never counted as proved.

Every case builds an attribution track from a seed (noise + planted bumps; by default all values are
multiples of 1/64 so that every window sum is exact in float32 and float64; `quant: False` cases use
unrounded noise and a rigorous rounding bound instead), presents it to the REAL caller in one of several
memory layouts / call styles and checks the returned DataFrame against the input with an oracle written
from the statement:

recursive_seqlets
 * columns example_idx, start, end, attribution, p-value; 0 <= example_idx < n (integral);
 * 0 <= start < end <= length;
 * length before flanks: there is a core span [s, s+c) inside the example with
   min_seqlet_len <= c <= max_seqlet_len, start = max(s - additional_flanks, 0) and
   end = min(s + c + additional_flanks, length)  (for additional_flanks = 0: min <= end-start <= max);
 * attribution = sum of X[example, start:end] (quantised tracks: exact, tolerance 1e-9 relative; unrounded
   tracks: within 2*length*eps(dtype)*(1+max|prefix sum|), the worst-case rounding of two running sums);
 * p-value <= threshold; rows sorted by ascending p-value;
 * the input (torch tensor or numpy array, float32 / float64; C-contiguous, Fortran-ordered, a column- or
   row-strided view with an offset into a larger buffer, or a reversed view) is unchanged, and so is the
   buffer it is a view of;
 * call styles: keywords, positional (X, threshold, min, max, flanks), all defaults omitted (the documented
   defaults threshold=0.01, min_seqlet_len=4, max_seqlet_len=25, additional_flanks=0 are what the oracle then uses),
   only min/max omitted.
tfmodisco_seqlets
 * columns example_idx, start, end, attribution; end - start = window_size + 2*flank,
   0 <= start, end <= length, valid example index;
 * attribution = sum of X[example, start+flank : end-flank];
 * two seqlets of one example have starts at least int(0.5*window_size) + flank apart
   (the suppression radius of the caller);
 * the input tensor (contiguous, strided view with storage offset, transposed storage) and the buffer behind
   it are unchanged;
 * call styles: keywords, positional (X, window_size, flank, target_fdr), defaults omitted (documented
   window_size=21, flank=10), and the rarely used min_passing_frac / max_passing_frac /
   weak_threshold_for_counting_sign keywords (they only move the threshold, every clause must still hold).
Not asserted (not in the statement): which spans are called, the statistical thresholds, the value of
the p-value beyond `<= threshold`.

Tolerated exceptions (counted in a note) -- everything else that is raised is reported:
 * recursive_seqlets raises ZeroDivisionError when some length in [min, max] has, over the whole batch, no
   window with a positive sum or no window with a negative sum (1 / n_pos, 1 / n_neg or 999 * 0 / xmin with
   xmin == 0 in the histogram step; short tracks dominated by bumps).  On quantised tracks the oracle recomputes
   that precondition exactly; a ZeroDivisionError without it is reported (finding
   recursive-raised-ZeroDivisionError-unexpected).
 * tfmodisco_seqlets raises inside its threshold estimation on some small inputs: tolerated only if the
   innermost frame of tangermeme/seqlet.py in the traceback is _laplacian_null or _isotonic_thresholds;
   an exception from the extraction / attribution part or from argument handling is reported.
"""
import traceback

import numpy
import torch

SCOPE = {
    'quick': 'recursive_seqlets: ~150 directed cases (bumps at positions 0-3 and at the end, edge ramps rising to the first / last position, '
             'additional_flanks 0-5, 1-3 examples, float32/float64, torch/numpy, C / Fortran / column-strided+offset / row-strided / reversed views, '
             'positional / default-omitting calls, unrounded values, min_seqlet_len up to 29, max == min, thresholds 0.001 and 0.2), then ~4000 seeded tracks '
             '(1-6 examples, length 40-600, 0-10 planted +/- bumps of width 3-30 incl. at position 0/1 and ending at length / length-1, 30% with an edge ramp, '
             'noise sd 0.05-0.5, thresholds 0.001-0.2, min_seqlet_len 3-12 (25%: 3-29), max_seqlet_len min(+1)..30, additional_flanks 0-5, '
             'float32/float64, torch/numpy input, 35% non-contiguous layouts, 25% positional/default calls, 15% unrounded values; '
             'ZeroDivisionError accepted only under its recomputed precondition); '
             'tfmodisco_seqlets: ~130 directed cases (ramps flush with both ends, window 1-21 odd and even, flank 0-10, length 41-101 incl. length == window+2*flank, '
             'strided / transposed views, positional / default calls, min_passing_frac / max_passing_frac / weak_threshold keywords), then ~700 seeded float32 tracks, '
             'window 1-30, flank 0-15, target_fdr 0.05-0.3, 30% views, 25% extra keywords, 10% unrounded; exceptions accepted only from the threshold estimation helpers',
    'thorough': 'same directed cases and generators: up to 60000 recursive cases and up to 12000 tfmodisco cases (time-capped)',
}

Q = 64.0
SENTINEL = 977.0          # fills the parts of a larger buffer that the presented view does not cover

REC_DEFAULTS = dict(threshold=0.01, min_len=4, max_len=25, flanks=0)      # documented defaults of recursive_seqlets
TFM_DEFAULTS = dict(window=21, flank=10, target_fdr=0.2)                  # documented defaults of tfmodisco_seqlets
TFM_THRESHOLD_HELPERS = ('_laplacian_null', '_isotonic_thresholds')


def _track(case):
    rs = numpy.random.RandomState(case['seed'])
    n, l = case['n'], case['l']
    X = rs.normal(0, case['sd'], size=(n, l))
    if case.get('quant', True):
        X = numpy.round(X * Q) / Q
    for ex, pos, width, height in case['bumps']:
        X[ex, max(pos, 0):pos + width] += height
    return X.astype(case.get('dtype', 'float64'))


def _present(X, layout):
    """(view handed to the caller, buffer that owns the memory); the view equals X element-wise"""
    n, l = X.shape
    if layout == 'C':
        base = numpy.ascontiguousarray(X).copy()
        return base, base
    if layout == 'F':
        base = numpy.asfortranarray(X).copy(order='F')
        return base, base
    if layout == 'strided':                     # every second column, starting at column 3 of row 1 of a larger buffer
        base = numpy.full((n + 1, 2 * l + 3), SENTINEL, dtype=X.dtype)
        view = base[1:, 3:3 + 2 * l:2]
        view[...] = X
        return view, base
    if layout == 'rowstrided':                  # every second row of a larger buffer
        base = numpy.full((2 * n, l), SENTINEL, dtype=X.dtype)
        view = base[::2]
        view[...] = X
        return view, base
    if layout == 'neg':                         # reversed view (negative stride; numpy only)
        base = numpy.ascontiguousarray(X[:, ::-1]).copy()
        return base[:, ::-1], base
    if layout == 'T':                           # storage is (length, n): the transposed view is presented
        base = numpy.ascontiguousarray(X.T).copy()
        return base.T, base
    raise ValueError('unknown layout %r' % (layout,))


def _ints(col):
    return all(float(v) == int(v) for v in col)


def _rec_params(case):
    call = case.get('call', 'kw')
    if call == 'defaults':
        d = REC_DEFAULTS
        return d['threshold'], d['min_len'], d['max_len'], d['flanks']
    if call == 'partial':
        return case['threshold'], REC_DEFAULTS['min_len'], REC_DEFAULTS['max_len'], case['flanks']
    return case['threshold'], case['min_len'], case['max_len'], case['flanks']


def _zde_expected(X64, mn, mx):
    """some length in [mn, mx] that has (over all examples) no window with a sum > 0 or no window with a sum < 0: the
    precondition of the ZeroDivisionError of the histogram step (exact on quantised tracks).  No window <= 0 gives
    1 / n_neg, non-positive windows that are all exactly 0 give xmin == 0 and 999 * 0 / 0; no window > 0 gives 1 / n_pos."""
    n, l = X64.shape
    cs = numpy.cumsum(X64, axis=1)
    for j in range(mn, mx + 1):
        if l - j <= 0:
            return True
        w = cs[:, j:] - cs[:, :l - j]
        if not (w > 0).any() or not (w < 0).any():
            return True
    return False


def _eval_recursive(case):
    """-> (violations, number of seqlets or -1 for a tolerated exception, edge counts)"""
    from tangermeme.seqlet import recursive_seqlets
    out = []
    X = _track(case)
    n, l = X.shape
    thr, mn, mx, af = _rec_params(case)
    view, base = _present(X, case.get('layout', 'C'))
    base0 = base.copy()
    arg = torch.from_numpy(view) if case.get('container', 'torch') == 'torch' else view
    call = case.get('call', 'kw')
    quant = case.get('quant', True)
    X64 = X.astype(numpy.float64)
    try:
        if call == 'positional':
            df = recursive_seqlets(arg, thr, mn, mx, af)
        elif call == 'defaults':
            df = recursive_seqlets(arg)
        elif call == 'partial':
            df = recursive_seqlets(arg, threshold=thr, additional_flanks=af)
        else:
            df = recursive_seqlets(arg, threshold=thr, min_seqlet_len=mn, max_seqlet_len=mx, additional_flanks=af)
    except ZeroDivisionError:
        # every window of some length has the same sign (1 / n_pos or 1 / n_neg in the histogram step): the call
        # returns nothing, so no clause about returned seqlets is violated; counted in a note.  On quantised
        # tracks the precondition is recomputed exactly and a ZeroDivisionError without it is reported.
        if quant and not _zde_expected(X64, mn, mx):
            return [('recursive-raised-ZeroDivisionError-unexpected',
                     'recursive_seqlets raised ZeroDivisionError although every length in [%d, %d] has windows with positive and with negative sums' % (mn, mx))], 0, (0, 0)
        if not numpy.array_equal(base, base0):
            return [('input-modified', 'recursive_seqlets modified its input (before raising ZeroDivisionError)')], -1, (0, 0)
        return [], -1, (0, 0)
    except Exception as e:
        return [('recursive-raised-' + type(e).__name__, 'recursive_seqlets raised %s: %s' % (type(e).__name__, str(e)[:100]))], 0, (0, 0)
    if not numpy.array_equal(base, base0):
        out.append(('input-modified', 'recursive_seqlets modified its input (or the buffer its input is a view of)'))
    if list(df.columns) != ['example_idx', 'start', 'end', 'attribution', 'p-value']:
        return out + [('columns', 'columns are %s' % list(df.columns))], 0, (0, 0)
    if len(df) == 0:
        return out, 0, (0, 0)
    if not (_ints(df['example_idx']) and _ints(df['start']) and _ints(df['end'])):
        return out + [('non-integral', 'example_idx/start/end are not integral')], len(df), (0, 0)
    pv = [float(p) for p in df['p-value']]
    if any(not a <= b for a, b in zip(pv, pv[1:])):
        out.append(('unsorted', 'rows are not sorted by ascending p-value'))
    if quant:
        tol_abs = None
    else:
        eps = float(numpy.finfo(X.dtype).eps)
        tol_abs = [2.0 * l * eps * (1.0 + float(numpy.abs(numpy.cumsum(X64[i])).max())) for i in range(n)]
    msgs = {}
    at0 = atl = 0

    def add(f, m):
        msgs.setdefault(f, []).append(m)
    for ex, s, e, attr, p in zip(df['example_idx'], df['start'], df['end'], df['attribution'], pv):
        ex, s, e, attr = int(ex), int(s), int(e), float(attr)
        tag = 'seqlet (example %d, [%d, %d))' % (ex, s, e)
        if not 0 <= ex < n:
            add('example-index', '%s: example index outside [0, %d)' % (tag, n))
            continue
        if not 0 <= s < e <= l:
            add('span-outside', '%s is not a non-empty span inside [0, %d]' % (tag, l))
            continue
        at0 += s == 0
        atl += e == l
        # a core span explaining (start, end)
        ok = False
        for cs in ([s + af] if s > 0 else range(0, af + 1)):
            for c in range(mn, mx + 1):
                if cs + c <= l and max(cs - af, 0) == s and min(cs + c + af, l) == e:
                    ok = True
        if not ok:
            add('length', '%s: no core of length in [%d, %d] with %d additional flanks gives this span' % (tag, mn, mx, af))
        true = float(X64[ex, s:e].sum())
        tol = 1e-9 * (1 + abs(true)) if quant else tol_abs[ex]
        if not abs(attr - true) <= tol:
            f = 'attribution-wraps-at-start-0' if s == 0 else 'attribution-mismatch'
            add(f, '%s reports attribution %r, the input sums to %r over the span' % (tag, attr, true))
        if not p <= thr:
            add('p-above-threshold', '%s has p-value %r > threshold %r' % (tag, p, thr))
    for f, ms in msgs.items():
        out.append((f, ms[0] + ('' if len(ms) == 1 else ' (and %d more of %d seqlets)' % (len(ms) - 1, len(df)))))
    return out, len(df), (at0, atl)


def _tfm_params(case):
    if case.get('call', 'kw') == 'defaults':
        d = TFM_DEFAULTS
        return d['window'], d['flank'], d['target_fdr']
    return case['window'], case['flank'], case['target_fdr']


def _eval_tfmodisco(case):
    """-> (violations, number of seqlets or -1 for a tolerated exception, edge counts)"""
    from tangermeme.seqlet import tfmodisco_seqlets
    out = []
    X = _track(case)
    n, l = X.shape
    view, base = _present(X, case.get('layout', 'C'))
    base0 = base.copy()
    Xt = torch.from_numpy(view)
    w, fl, fdr = _tfm_params(case)
    call = case.get('call', 'kw')
    extra = dict(case.get('extra') or {})
    quant = case.get('quant', True)
    try:
        if call == 'positional':
            df = tfmodisco_seqlets(Xt, w, fl, fdr, **extra)
        elif call == 'defaults':
            df = tfmodisco_seqlets(Xt, **extra)
        else:
            df = tfmodisco_seqlets(Xt, window_size=w, flank=fl, target_fdr=fdr, **extra)
    except Exception as e:
        # threshold estimation (Laplacian null / isotonic regression) is outside the statement: tolerated only
        # if the exception comes out of one of the two estimation helpers
        frames = [f.name for f in traceback.extract_tb(e.__traceback__) if f.filename.replace('\\', '/').endswith('tangermeme/seqlet.py')]
        if frames and frames[-1] in TFM_THRESHOLD_HELPERS:
            if not numpy.array_equal(base, base0):
                return [('input-modified', 'tfmodisco_seqlets modified its input (before raising in the threshold estimation)')], -1, (0, 0)
            return [], -1, (0, 0)
        where = frames[-1] if frames else 'outside seqlet.py'
        return [('tfmodisco-raised-' + type(e).__name__,
                 'tfmodisco_seqlets raised %s outside the threshold estimation helpers (innermost frame: %s): %s' % (type(e).__name__, where, str(e)[:100]))], 0, (0, 0)
    if not numpy.array_equal(base, base0):
        out.append(('input-modified', 'tfmodisco_seqlets modified its input (or the buffer its input is a view of)'))
    if list(df.columns) != ['example_idx', 'start', 'end', 'attribution']:
        return out + [('columns', 'columns are %s' % list(df.columns))], 0, (0, 0)
    if len(df) == 0:
        return out, 0, (0, 0)
    if not (_ints(df['example_idx']) and _ints(df['start']) and _ints(df['end'])):
        return out + [('non-integral', 'example_idx/start/end are not integral')], len(df), (0, 0)
    X64 = X.astype(numpy.float64)
    eps = float(numpy.finfo(X.dtype).eps)
    radius = int(0.5 * w) + fl
    msgs = {}
    at0 = atl = 0

    def add(f, m):
        msgs.setdefault(f, []).append(m)
    starts = {}
    for ex, s, e, attr in zip(df['example_idx'], df['start'], df['end'], df['attribution']):
        ex, s, e, attr = int(ex), int(s), int(e), float(attr)
        tag = 'seqlet (example %d, [%d, %d))' % (ex, s, e)
        if not 0 <= ex < n:
            add('example-index', '%s: example index outside [0, %d)' % (tag, n))
            continue
        if e - s != w + 2 * fl or s < 0 or e > l:
            add('tfmodisco-span', '%s does not span window_size+2*flank = %d positions inside [0, %d]' % (tag, w + 2 * fl, l))
            continue
        at0 += s == 0
        atl += e == l
        true = float(X64[ex, s + fl:e - fl].sum())
        tol = 1e-9 * (1 + abs(true)) if quant else 4.0 * (w + 2) * eps * (1.0 + float(numpy.abs(X64[ex, s + fl:e - fl]).sum()))
        if not abs(attr - true) <= tol:
            add('tfmodisco-attribution', '%s reports %r, the central window sums to %r' % (tag, attr, true))
        starts.setdefault(ex, []).append(s)
    for ex, ss in starts.items():
        ss = sorted(ss)
        gaps = [b - a for a, b in zip(ss, ss[1:])]
        if gaps and min(gaps) < radius:
            add('suppression', 'example %d: two seqlets start %d apart < suppression radius %d' % (ex, min(gaps), radius))
    for f, ms in msgs.items():
        out.append((f, ms[0] + ('' if len(ms) == 1 else ' (and %d more)' % (len(ms) - 1))))
    return out, len(df), (at0, atl)


def check_recursive(case):
    return [m for _, m in _eval_recursive(case)[0]]


def check_tfmodisco(case):
    return [m for _, m in _eval_tfmodisco(case)[0]]


# ----------------------------------------------------------------------------------------------

def _ramp(ex, l, side, sign=1.0, widths=(24, 16, 10, 6, 3, 1)):
    """stacked bumps: a profile rising monotonically towards the first / last position, so that the windows nearest
    to that edge carry the largest sums (a plateau would make arg-max pick a window away from the edge)"""
    return [[ex, 0 if side == 'left' else l - w, w, sign * 1.0] for w in widths]


def _bumps(rng, n, l, k, wmin, wmax):
    bumps = []
    for _ in range(k):
        width = rng.randint(wmin, min(wmax, l - 2))
        pos = rng.choice([0, 1, 2, l - width, l - width - 1, rng.randint(0, l - width), rng.randint(0, l - width), rng.randint(0, l - width)])
        height = rng.choice([-1, 1]) * rng.randint(32, 256) / Q
        bumps.append([rng.randint(0, n - 1), pos, width, height])
    if rng.random() < 0.3:
        bumps += _ramp(rng.randint(0, n - 1), l, rng.choice(['left', 'right']), rng.choice([-1.0, 1.0]))
    return bumps


def _gen_recursive(rng, seed):
    n, l = rng.randint(1, 6), rng.choice([40, 41, 50, 64, 100, 150, 200, 300, 600, rng.randint(40, 600)])
    if rng.random() < 0.25:
        mn = rng.randint(3, 29)            # the whole stated range, including max == min (nothing can be called)
        mx = rng.randint(mn, 30)
    else:
        mn = rng.randint(3, 12)
        mx = rng.randint(mn + 1, 30)
    dtype = rng.choice(['float64', 'float64', 'float32'])
    container = rng.choice(['torch', 'torch', 'numpy'])
    layout = rng.choice(['C'] * 13 + ['strided', 'strided', 'rowstrided', 'rowstrided', 'neg', 'F', 'F'])
    if layout == 'neg':
        container = 'numpy'                # torch.from_numpy refuses negative strides
    if layout == 'F':
        dtype = 'float64'                  # one compiled specialisation less
    case = dict(kind='recursive', seed=seed, n=n, l=l, sd=rng.choice([0.05, 0.1, 0.2, 0.5]),
                bumps=_bumps(rng, n, l, rng.randint(0, 10), 3, 30),
                threshold=rng.choice([0.001, 0.005, 0.01, 0.05, 0.1, 0.2, round(rng.uniform(0.001, 0.2), 4)]),
                min_len=mn, max_len=mx, flanks=rng.choice([0, 0, 1, 2, 3, 4, 5]),
                dtype=dtype, container=container, layout=layout,
                # omitting every argument means threshold 0.01: only worth a call when there are enough windows for such a p-value
                call=rng.choice(['kw'] * 9 + ['positional', 'positional', 'partial'] + (['defaults'] if l >= 150 and n >= 2 else ['partial'])),
                quant=rng.random() >= 0.15)
    return case


def _gen_tfmodisco(rng, seed):
    n, l = rng.randint(1, 6), rng.choice([60, 100, 150, 200, 300, 400, 600, rng.randint(40, 600)])
    w = rng.choice([3, 5, 7, 8, 11, 15, 21, 1, 2, 4, 6, 10, 12, 16, 20, 30])
    fl = rng.choice([0, 1, 2, 3, 5, 10, 0, 1, 4, 7, 15])
    extra = {}
    if rng.random() < 0.25:
        for key, vals in (('min_passing_frac', [0.0, 0.01, 0.1, 0.3]), ('max_passing_frac', [0.05, 0.1, 0.5, 1.0]),
                          ('weak_threshold_for_counting_sign', [0.0, 0.5, 1.0])):
            if rng.random() < 0.5:
                extra[key] = rng.choice(vals)
    return dict(kind='tfmodisco', seed=seed, n=n, l=l, sd=rng.choice([0.05, 0.1, 0.2]), bumps=_bumps(rng, n, l, rng.randint(0, 10), 3, 30),
                window=w, flank=fl, target_fdr=rng.choice([0.05, 0.1, 0.2, 0.2, 0.3]), dtype='float32',
                layout=rng.choice(['C'] * 7 + ['strided', 'strided', 'T']), call=rng.choice(['kw'] * 8 + ['positional', 'positional'] + (['defaults'] if l >= 100 else ['positional'])),
                extra=extra, quant=rng.random() >= 0.1)


def _directed():
    cases = []
    for af in range(0, 6):
        for pos in (0, 1, 2, 3):
            cases.append(dict(kind='recursive', name='bump@%d,flanks=%d' % (pos, af), seed=7, n=1, l=100, sd=0.1, bumps=[[0, pos, 8, 3.0]],
                              threshold=0.05, min_len=4, max_len=25, flanks=af, dtype='float64', container='torch'))
        for end_gap in (0, 1, 2):
            cases.append(dict(kind='recursive', name='bump@end-%d,flanks=%d' % (end_gap, af), seed=11, n=2, l=120, sd=0.1,
                              bumps=[[1, 120 - 9 - end_gap, 9, -2.5], [0, 40, 6, 2.0]],
                              threshold=0.05, min_len=4, max_len=25, flanks=af, dtype='float64', container='numpy'))
    # spans clipped to position 0 in an example that is not the first one, and ramps whose strongest windows touch either end
    for af in range(0, 6):
        for dtype, container in (('float64', 'numpy'), ('float32', 'torch')):
            cases.append(dict(kind='recursive', name='bump@1,examples 1+2,flanks=%d,%s,%s' % (af, dtype, container), seed=13, n=3, l=90, sd=0.1,
                              bumps=[[1, 1, 8, 3.0], [2, 2, 7, -3.0], [0, 50, 6, 2.0], [2, 90 - 8, 8, 2.5]],
                              threshold=0.05, min_len=4, max_len=25, flanks=af, dtype=dtype, container=container))
        # (the last core position the caller can reach is length-2, so the clip at the end needs additional_flanks >= 2)
        cases.append(dict(kind='recursive', name='ramps,flanks=%d' % af, seed=17, n=6, l=150, sd=0.1,
                          bumps=_ramp(0, 150, 'left', 1.0, (8, 4)) + _ramp(1, 150, 'right', -1.0, (8, 4)) + _ramp(2, 150, 'right', 1.0, (8, 4)),
                          threshold=0.05, min_len=3, max_len=20, flanks=af, dtype='float64', container='torch'))
    # memory layouts (each non-C layout is a separate compiled specialisation of the numba kernel)
    for layout, dtype, container in (('strided', 'float64', 'numpy'), ('strided', 'float32', 'torch'), ('rowstrided', 'float64', 'torch'),
                                     ('rowstrided', 'float32', 'numpy'), ('neg', 'float64', 'numpy'), ('neg', 'float32', 'numpy'),
                                     ('F', 'float64', 'numpy'), ('F', 'float64', 'torch'), ('T', 'float64', 'torch')):
        for af in (0, 3):
            cases.append(dict(kind='recursive', name='layout=%s,%s,%s,flanks=%d' % (layout, dtype, container, af), seed=19, n=3, l=110, sd=0.1,
                              bumps=[[0, 1, 8, 3.0], [1, 110 - 10, 9, -2.5], [2, 40, 6, 2.0], [1, 30, 12, 2.0]],
                              threshold=0.05, min_len=4, max_len=25, flanks=af, dtype=dtype, container=container, layout=layout))
    # call styles; the documented defaults are what the oracle uses when arguments are omitted
    for call in ('positional', 'defaults', 'partial'):
        for seed in (23, 29):
            cases.append(dict(kind='recursive', name='call=%s,seed=%d' % (call, seed), seed=seed, n=4, l=300, sd=0.1,
                              bumps=[[0, 1, 10, 3.0], [1, 300 - 12, 11, -2.5], [2, 140, 8, 2.0], [3, 30, 14, 2.0], [3, 200, 5, -3.0]],
                              threshold=0.02, min_len=6, max_len=11, flanks=2, dtype='float64', container='torch', call=call))
    # unrounded values: the span sum is compared within the rounding bound of the input dtype
    for dtype in ('float64', 'float32'):
        for af in (0, 2):
            cases.append(dict(kind='recursive', name='unrounded,%s,flanks=%d' % (dtype, af), seed=31, n=3, l=400, sd=0.3, quant=False,
                              bumps=[[0, 1, 10, 3.1], [1, 400 - 12, 11, -2.7], [2, 140, 8, 2.3], [0, 200, 14, 1.9]],
                              threshold=0.05, min_len=4, max_len=25, flanks=af, dtype=dtype, container='numpy'))
    # edges of the stated ranges: long minimum lengths, max == min, max == min + 1, thresholds 0.001 and 0.2
    for mn, mx in ((3, 3), (3, 4), (12, 12), (20, 30), (25, 30), (29, 30), (30, 30), (3, 30)):
        for thr in (0.001, 0.2):
            cases.append(dict(kind='recursive', name='min=%d,max=%d,threshold=%g' % (mn, mx, thr), seed=37, n=4, l=600 if thr < 0.01 else 150, sd=0.1,
                              bumps=[[0, 1, 30, 2.0], [1, 60, 29, -2.0], [2, 100, 26, 2.5], [3, 150 - 31, 30, 2.0], [3, 20, 4, 3.0], [0, 80, 3, -3.0]],
                              threshold=thr, min_len=mn, max_len=mx, flanks=1, dtype='float64', container='torch'))
    return cases


def _directed_tfmodisco():
    cases = []
    k = 0
    layouts = ('C', 'strided', 'T', 'C')
    for w in (1, 2, 3, 4, 7, 8, 15, 21):
        for fl in (0, 1, 2, 5, 10):
            for l in (60, 101):
                if w + 2 * fl + 10 > l:
                    continue
                k += 1
                cases.append(dict(kind='tfmodisco', name='ramps,window=%d,flank=%d,l=%d' % (w, fl, l), seed=41 + k, n=4, l=l, sd=0.1,
                                  bumps=_ramp(0, l, 'left') + _ramp(1, l, 'right', -1.0) + [[2, l // 2, 9, 2.0], [3, 5, 6, -2.0]]
                                  + _ramp(3, l, 'right', 1.0, (12, 8, 5, 3, 1)),
                                  window=w, flank=fl, target_fdr=0.2, dtype='float32', layout=layouts[k % 4]))
    # the example is exactly one seqlet long (a single admissible window), or one position longer
    for w, fl in ((21, 10), (11, 15), (30, 5), (40, 0)):
        for l in (w + 2 * fl, w + 2 * fl + 1):
            cases.append(dict(kind='tfmodisco', name='single-window,window=%d,flank=%d,l=%d' % (w, fl, l), seed=43, n=6, l=l, sd=0.1,
                              bumps=[[0, fl, w, 1.0], [1, l - fl - w, w, -1.0], [2, fl, 5, 2.0], [4, l // 2, 3, 2.0]],
                              window=w, flank=fl, target_fdr=0.2, dtype='float32'))
    base = dict(kind='tfmodisco', n=5, l=200, sd=0.1, window=7, flank=2, target_fdr=0.2, dtype='float32')
    bumps = _ramp(0, 200, 'left') + _ramp(1, 200, 'right') + [[2, 100, 10, -3.0], [3, 150, 10, 2.0], [4, 20, 25, 1.5]]
    for call in ('positional', 'defaults'):
        for layout in ('C', 'strided'):
            cases.append(dict(base, name='call=%s,%s' % (call, layout), seed=5047, bumps=bumps, call=call, layout=layout))
    for extra in (dict(min_passing_frac=0.0), dict(min_passing_frac=0.1), dict(min_passing_frac=0.3, max_passing_frac=0.5), dict(max_passing_frac=0.05),
                  dict(max_passing_frac=1.0), dict(min_passing_frac=0.5, max_passing_frac=0.4), dict(weak_threshold_for_counting_sign=0.0),
                  dict(weak_threshold_for_counting_sign=1.0), dict(min_passing_frac=0.2, max_passing_frac=1.0, weak_threshold_for_counting_sign=0.5)):
        for w, fl in ((7, 2), (8, 0)):
            cases.append(dict(base, name='extra=%s,window=%d,flank=%d' % (sorted(extra.items()), w, fl), seed=53, bumps=bumps, extra=extra, window=w, flank=fl))
    for fl in (0, 3):
        cases.append(dict(base, name='unrounded,flank=%d' % fl, seed=59, bumps=bumps, quant=False, flank=fl))
    return cases


def run(rep):
    torch.set_num_threads(1)
    thorough = rep.tier == 'thorough'
    rng = rep.rng
    n_rec, n_tfm = (60000, 12000) if thorough else (4000, 700)
    total, zde, e0, el = 0, 0, 0, 0
    for case in _directed():
        viol, k, (a, b) = _eval_recursive(case)
        total += max(k, 0)
        zde += k < 0
        e0, el = e0 + a, el + b
        rep.case(('d', case['name']), nontrivial=k > 0, section='recursive-directed', sample={x: case[x] for x in ('name', 'flanks', 'bumps')})
        for f, m in viol:
            rep.violation(m, case, finding=f)
    t_total, t_raised, t0, tl = 0, 0, 0, 0
    for case in _directed_tfmodisco():
        for attempt in range(4):
            # a directed configuration whose noise makes the threshold estimation raise is retried with another noise seed
            if attempt:
                case = dict(case, seed=case['seed'] + 1000, name=case['name'] + "'")
            viol, k, (a, b) = _eval_tfmodisco(case)
            t_total += max(k, 0)
            t_raised += k < 0
            t0, tl = t0 + a, tl + b
            rep.case(('dt', case['name']), nontrivial=k > 0, section='tfmodisco-directed', sample={x: case[x] for x in ('name', 'window', 'flank')})
            for f, m in viol:
                rep.violation(m, case, finding=f)
            if k >= 0:
                break
    share = 0.55 * rep.left()
    t_end = rep.left() - share
    for i in range(n_rec):
        if rep.left() < t_end:
            rep.note('time budget: %d of %d recursive cases evaluated' % (i, n_rec))
            break
        case = _gen_recursive(rng, rep.seed * 1000003 + i)
        viol, k, (a, b) = _eval_recursive(case)
        zde += k < 0
        total += max(k, 0)
        e0, el = e0 + a, el + b
        rep.case(('r', rep.seed, i), nontrivial=k > 0, section='recursive',
                 sample={x: case[x] for x in ('seed', 'n', 'l', 'threshold', 'min_len', 'max_len', 'flanks', 'layout', 'call')})
        for f, m in viol:
            rep.violation(m, case, finding=f)
    rep.note('%d recursive seqlets checked (%d starting at position 0, %d ending at the last position); %d recursive calls raised ZeroDivisionError '
             '(some length without a positive or without a negative window sum - recomputed on quantised tracks; not asserted)' % (total, e0, el, zde))
    for i in range(n_tfm):
        if rep.left() < 2:
            rep.note('time budget: %d of %d tfmodisco cases evaluated' % (i, n_tfm))
            break
        case = _gen_tfmodisco(rng, rep.seed * 1000003 + 500000 + i)
        viol, k, (a, b) = _eval_tfmodisco(case)
        t_raised += k < 0
        t_total += max(k, 0)
        t0, tl = t0 + a, tl + b
        rep.case(('t', rep.seed, i), nontrivial=k > 0, section='tfmodisco', sample={x: case[x] for x in ('seed', 'n', 'l', 'window', 'flank', 'layout', 'call', 'extra')})
        for f, m in viol:
            rep.violation(m, case, finding=f)
    rep.note('%d tfmodisco seqlets checked (%d starting at position 0, %d ending at the last position); %d tfmodisco calls raised inside the '
             'threshold estimation helpers (not asserted)' % (t_total, t0, tl, t_raised))


def replay(case):
    if case.get('kind') == 'recursive':
        return check_recursive(case)
    if case.get('kind') == 'tfmodisco':
        return check_tfmodisco(case)
    return ['unknown replay kind']
