"""Bounded stand-in for C19 (seqlet.recursive_seqlets / seqlet.tfmodisco_seqlets) -- never counted as proved.

Every case builds an attribution track from a seed (noise + planted bumps, all values multiples of
1/64 so that every window sum is exact in float32 and float64), calls the REAL caller and checks the
returned DataFrame against the input tensor with an oracle written from the statement:

recursive_seqlets
 * columns example_idx, start, end, attribution, p-value; 0 <= example_idx < n (integral);
 * 0 <= start < end <= length;
 * length before flanks: there is a core span [s, s+c) inside the example with
   min_seqlet_len <= c <= max_seqlet_len, start = max(s - additional_flanks, 0) and
   end = min(s + c + additional_flanks, length)  (for additional_flanks = 0: min <= end-start <= max);
 * attribution = sum of X[example, start:end] (exact arithmetic, tolerance 1e-9 relative);
 * p-value <= threshold; rows sorted by ascending p-value;
 * the input (torch tensor or numpy array, float32 / float64) is unchanged.
tfmodisco_seqlets
 * columns example_idx, start, end, attribution; end - start = window_size + 2*flank,
   0 <= start, end <= length, valid example index;
 * attribution = sum of X[example, start+flank : end-flank];
 * two seqlets of one example have starts at least int(0.5*window_size) + flank apart
   (the suppression radius of the caller);
 * the input tensor is unchanged.
Not asserted (not in the statement): which spans are called, the statistical thresholds, the value of
the p-value beyond `<= threshold`.  recursive_seqlets raises ZeroDivisionError when all windows of
one length have the same sign (short tracks dominated by bumps) and tfmodisco_seqlets raises inside its threshold estimation on some
small inputs (and on float64 input); such calls are counted in a note, not reported.
"""
import numpy
import torch

SCOPE = {
    'quick': 'recursive_seqlets: directed bumps at positions 0/1/2 and at the end with additional_flanks 0-5, then ~4000 seeded tracks '
             '(1-6 examples, length 40-600, 0-10 planted +/- bumps of width 3-30 incl. at position 0/1 and ending at length / length-1, '
             'noise sd 0.05-0.5, thresholds 0.001-0.2, min_seqlet_len 3-12, max_seqlet_len min+1..30, additional_flanks 0-5, '
             'float32/float64, torch/numpy input); tfmodisco_seqlets: ~700 seeded float32 tracks, window 3-21, flank 0-10, target_fdr 0.05-0.3',
    'thorough': 'same generators: up to 60000 recursive cases and up to 12000 tfmodisco cases (time-capped)',
}

Q = 64.0


def _track(case):
    rs = numpy.random.RandomState(case['seed'])
    n, l = case['n'], case['l']
    X = numpy.round(rs.normal(0, case['sd'], size=(n, l)) * Q) / Q
    for ex, pos, width, height in case['bumps']:
        X[ex, max(pos, 0):pos + width] += height
    return X.astype(case.get('dtype', 'float64'))


def _ints(col):
    return all(float(v) == int(v) for v in col)


def _eval_recursive(case):
    from tangermeme.seqlet import recursive_seqlets
    out = []
    X = _track(case)
    X0 = X.copy()
    n, l = X.shape
    thr, mn, mx, af = case['threshold'], case['min_len'], case['max_len'], case['flanks']
    arg = torch.from_numpy(X) if case.get('container', 'torch') == 'torch' else X
    try:
        df = recursive_seqlets(arg, threshold=thr, min_seqlet_len=mn, max_seqlet_len=mx, additional_flanks=af)
    except ZeroDivisionError:
        # every window of some length has the same sign (1 / n_pos or 1 / n_neg in the histogram step): the call
        # returns nothing, so no clause about returned seqlets is violated; counted in a note
        return [], -1
    except Exception as e:
        return [('recursive-raised-' + type(e).__name__, 'recursive_seqlets raised %s: %s' % (type(e).__name__, str(e)[:100]))], 0
    if not numpy.array_equal(X, X0):
        out.append(('input-modified', 'recursive_seqlets modified its input'))
    if list(df.columns) != ['example_idx', 'start', 'end', 'attribution', 'p-value']:
        return out + [('columns', 'columns are %s' % list(df.columns))], 0
    if len(df) == 0:
        return out, 0
    if not (_ints(df['example_idx']) and _ints(df['start']) and _ints(df['end'])):
        return out + [('non-integral', 'example_idx/start/end are not integral')], len(df)
    pv = [float(p) for p in df['p-value']]
    if any(b < a for a, b in zip(pv, pv[1:])):
        out.append(('unsorted', 'rows are not sorted by ascending p-value'))
    X64 = X0.astype(numpy.float64)
    msgs = {}

    def add(f, m):
        msgs.setdefault(f, []).append(m)
    for ex, s, e, attr, p in zip(df['example_idx'], df['start'], df['end'], df['attribution'], pv):
        ex, s, e, attr = int(ex), int(s), int(e), float(attr)
        tag = 'seqlet (example %d, [%d, %d))' % (ex, s, e)
        if not 0 <= ex < n:
            add('example-index', '%s: example index outside [0, %d)' % (tag, n))
            continue
        if not 0 <= s < e <= l:
            add('span-outside', '%s is not a non-empty span inside [0, %d]' % (tag, l))
            continue
        # a core span explaining (start, end)
        ok = False
        for cs in ([s + af] if s > 0 else range(0, af + 1)):
            for c in range(mn, mx + 1):
                if cs + c <= l and max(cs - af, 0) == s and min(cs + c + af, l) == e:
                    ok = True
        if not ok:
            add('length', '%s: no core of length in [%d, %d] with %d additional flanks gives this span' % (tag, mn, mx, af))
        true = float(X64[ex, s:e].sum())
        if not abs(attr - true) <= 1e-9 * (1 + abs(true)):
            f = 'attribution-wraps-at-start-0' if s == 0 else 'attribution-mismatch'
            add(f, '%s reports attribution %r, the input sums to %r over the span' % (tag, attr, true))
        if not p <= thr:
            add('p-above-threshold', '%s has p-value %r > threshold %r' % (tag, p, thr))
    for f, ms in msgs.items():
        out.append((f, ms[0] + ('' if len(ms) == 1 else ' (and %d more of %d seqlets)' % (len(ms) - 1, len(df)))))
    return out, len(df)


def _eval_tfmodisco(case):
    from tangermeme.seqlet import tfmodisco_seqlets
    out = []
    X = _track(case)
    n, l = X.shape
    Xt = torch.from_numpy(X.copy())
    w, fl = case['window'], case['flank']
    try:
        df = tfmodisco_seqlets(Xt, window_size=w, flank=fl, target_fdr=case['target_fdr'])
    except Exception as e:
        # threshold estimation (Laplacian null / isotonic regression) is outside the statement
        return [], -1
    if not numpy.array_equal(Xt.numpy(), X):
        out.append(('input-modified', 'tfmodisco_seqlets modified its input'))
    if list(df.columns) != ['example_idx', 'start', 'end', 'attribution']:
        return out + [('columns', 'columns are %s' % list(df.columns))], 0
    if len(df) == 0:
        return out, 0
    if not (_ints(df['example_idx']) and _ints(df['start']) and _ints(df['end'])):
        return out + [('non-integral', 'example_idx/start/end are not integral')], len(df)
    X64 = X.astype(numpy.float64)
    radius = int(0.5 * w) + fl
    msgs = {}

    def add(f, m):
        msgs.setdefault(f, []).append(m)
    starts = {}
    for ex, s, e, attr in zip(df['example_idx'], df['start'], df['end'], df['attribution']):
        ex, s, e, attr = int(ex), int(s), int(e), float(attr)
        tag = 'seqlet (example %d, [%d, %d))' % (ex, s, e)
        if not 0 <= ex < n:
            add('example-index', '%s: example index outside [0, %d)' % (tag, n))
            continue
        if e - s != w + 2 * fl or s < 0 or e > l:
            add('tfmodisco-span', '%s does not span window_size+2*flank = %d positions inside [0, %d]' % (tag, w + 2 * fl, l))
            continue
        true = float(X64[ex, s + fl:e - fl].sum())
        if not abs(attr - true) <= 1e-6 * (1 + abs(true)):
            add('tfmodisco-attribution', '%s reports %r, the central window sums to %r' % (tag, attr, true))
        starts.setdefault(ex, []).append(s)
    for ex, ss in starts.items():
        ss = sorted(ss)
        gaps = [b - a for a, b in zip(ss, ss[1:])]
        if gaps and min(gaps) < radius:
            add('suppression', 'example %d: two seqlets start %d apart < suppression radius %d' % (ex, min(gaps), radius))
    for f, ms in msgs.items():
        out.append((f, ms[0] + ('' if len(ms) == 1 else ' (and %d more)' % (len(ms) - 1))))
    return out, len(df)


def check_recursive(case):
    return [m for _, m in _eval_recursive(case)[0]]


def check_tfmodisco(case):
    return [m for _, m in _eval_tfmodisco(case)[0]]


# ----------------------------------------------------------------------------------------------

def _bumps(rng, n, l, k, wmin, wmax):
    bumps = []
    for _ in range(k):
        width = rng.randint(wmin, min(wmax, l - 2))
        pos = rng.choice([0, 1, 2, l - width, l - width - 1, rng.randint(0, l - width), rng.randint(0, l - width), rng.randint(0, l - width)])
        height = rng.choice([-1, 1]) * rng.randint(32, 256) / Q
        bumps.append([rng.randint(0, n - 1), pos, width, height])
    return bumps


def _gen_recursive(rng, seed):
    n, l = rng.randint(1, 6), rng.choice([40, 41, 50, 64, 100, 150, 200, 300, 600, rng.randint(40, 600)])
    mn = rng.randint(3, 12)
    mx = rng.randint(mn + 1, 30)
    return dict(kind='recursive', seed=seed, n=n, l=l, sd=rng.choice([0.05, 0.1, 0.2, 0.5]),
                bumps=_bumps(rng, n, l, rng.randint(0, 10), 3, 30),
                threshold=rng.choice([0.001, 0.005, 0.01, 0.05, 0.1, 0.2, round(rng.uniform(0.001, 0.2), 4)]),
                min_len=mn, max_len=mx, flanks=rng.choice([0, 0, 1, 2, 3, 4, 5]),
                dtype=rng.choice(['float64', 'float64', 'float32']), container=rng.choice(['torch', 'torch', 'numpy']))


def _gen_tfmodisco(rng, seed):
    n, l = rng.randint(1, 6), rng.choice([60, 100, 150, 200, 300, 400, 600, rng.randint(40, 600)])
    w = rng.choice([3, 5, 7, 8, 11, 15, 21])
    fl = rng.choice([0, 1, 2, 3, 5, 10])
    return dict(kind='tfmodisco', seed=seed, n=n, l=l, sd=rng.choice([0.05, 0.1, 0.2]), bumps=_bumps(rng, n, l, rng.randint(0, 10), 3, 30),
                window=w, flank=fl, target_fdr=rng.choice([0.05, 0.1, 0.2, 0.2, 0.3]), dtype='float32')


def _directed():
    cases = []
    for af in range(0, 6):
        for pos in (0, 1, 2, 3):
            cases.append(dict(kind='recursive', name='bump@%d,flanks=%d' % (pos, af), seed=7, n=1, l=100, sd=0.1, bumps=[[0, pos, 8, 3.0]],
                              threshold=0.05, min_len=4, max_len=25, flanks=af, dtype='float64', container='torch'))
        for end_gap in (0, 1, 2):
            cases.append(dict(kind='recursive', name='bump@end-%d,flanks=%d' % (end_gap, af), seed=11, n=2, l=120, sd=0.1,
                              bumps=[[1, 120 - 9 - end_gap, 9, -2.5], [0, 40, 6, 2.0]],
                              threshold=0.05, min_len=4, max_len=25, flanks=af, dtype='float64', container='numpy'))
    return cases


def run(rep):
    thorough = rep.tier == 'thorough'
    rng = rep.rng
    n_rec, n_tfm = (60000, 12000) if thorough else (4000, 700)
    total, zde = 0, 0
    for case in _directed():
        viol, k = _eval_recursive(case)
        total += max(k, 0)
        rep.case(('d', case['name']), nontrivial=k > 0, section='recursive-directed', sample={x: case[x] for x in ('name', 'flanks', 'bumps')})
        for f, m in viol:
            rep.violation(m, case, finding=f)
    share = 0.55 * rep.left()
    t_end = rep.left() - share
    for i in range(n_rec):
        if rep.left() < t_end:
            rep.note('time budget: %d of %d recursive cases evaluated' % (i, n_rec))
            break
        case = _gen_recursive(rng, rep.seed * 1000003 + i)
        viol, k = _eval_recursive(case)
        zde += k < 0
        total += max(k, 0)
        rep.case(('r', rep.seed, i), nontrivial=k > 0, section='recursive', sample={x: case[x] for x in ('seed', 'n', 'l', 'threshold', 'min_len', 'max_len', 'flanks')})
        for f, m in viol:
            rep.violation(m, case, finding=f)
    rep.note('%d recursive seqlets checked; %d recursive calls raised ZeroDivisionError (all windows of one length one-signed; not asserted)' % (total, zde))
    total, raised = 0, 0
    for i in range(n_tfm):
        if rep.left() < 2:
            rep.note('time budget: %d of %d tfmodisco cases evaluated' % (i, n_tfm))
            break
        case = _gen_tfmodisco(rng, rep.seed * 1000003 + 500000 + i)
        viol, k = _eval_tfmodisco(case)
        if k < 0:
            raised += 1
        total += max(k, 0)
        rep.case(('t', rep.seed, i), nontrivial=k > 0, section='tfmodisco', sample={x: case[x] for x in ('seed', 'n', 'l', 'window', 'flank')})
        for f, m in viol:
            rep.violation(m, case, finding=f)
    rep.note('%d tfmodisco seqlets checked; %d tfmodisco calls raised inside the threshold estimation (not asserted)' % (total, raised))


def replay(case):
    if case.get('kind') == 'recursive':
        return check_recursive(case)
    if case.get('kind') == 'tfmodisco':
        return check_tfmodisco(case)
    return ['unknown replay kind']
