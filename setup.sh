#!/bin/bash
# MANIFEST.setup_cmd — builds the overlay interpreter /verif/.venv offline (idempotent, locked).
# python 3.12 venv derived from /venv + z3-solver, cvc5, jsonschema, hypothesis, deal, icontract
# from the offline wheelhouse; a .pth line adds /venv's site-packages so that z3 and the
# repository's own torch / numba / pandas live in one process.
set -e
cd "$(dirname "$0")"
V=/verif/.venv
[ -d "$(pwd)/vf" ] && V="$(pwd)/.venv"
exec 9>"$(pwd)/.setup.lock"
flock 9
if [ -x "$V/bin/python" ] && "$V/bin/python" -c "import z3, jsonschema, torch, numba" 2>/dev/null; then
  exit 0
fi
rm -rf "$V"
/venv/bin/python -m venv "$V"
PIP_NO_INDEX=1 "$V/bin/python" -m pip install -q --no-index --find-links /opt/veriftools/wheels \
   z3-solver cvc5 jsonschema hypothesis deal icontract >/dev/null
SP=$("$V/bin/python" -c "import sysconfig; print(sysconfig.get_paths()['purelib'])")
echo "import site; site.addsitedir('/venv/lib/python3.12/site-packages')" > "$SP/zz_repo_deps.pth"
"$V/bin/python" -c "import z3, jsonschema, torch, numba; print('verif venv ok: z3', z3.get_version_string())"
