"""Frame obligations "a function writes no module-level state" decided on the real AST (DESIGN 9.7).

For every function of a module: a store through a subscript / attribute whose base is a module-level name
that the function neither binds locally nor receives as a parameter, an augmented assignment to such a
name, a `global` declaration followed by an assignment, or a call of a mutating method (append, update,
setdefault, pop, ...) on such a name is a write to state that outlives the call - later calls could then
depend on earlier ones (C06, C07, C12, C13: results independent of history).  The analysis is a sound
over-approximation for these syntactic forms (aliases of module state obtained through other expressions
are not tracked); it needs no solver."""
import ast

MUTATORS = {'append', 'extend', 'insert', 'remove', 'pop', 'popitem', 'clear', 'update', 'setdefault', 'add', 'discard', 'sort', 'reverse',
            'fill', 'fill_', 'zero_', 'copy_', 'add_', 'mul_', 'sub_', 'div_', 'resize', 'put', 'itemset'}


def module_level_names(tree):
    out = {}
    for st in tree.body:
        targets = []
        if isinstance(st, ast.Assign):
            targets = st.targets
        elif isinstance(st, (ast.AnnAssign, ast.AugAssign)):
            targets = [st.target]
        for t in targets:
            for n in ast.walk(t):
                if isinstance(n, ast.Name):
                    out[n.id] = st.lineno
    return out


def local_names(fn):
    names = {a.arg for a in fn.args.posonlyargs + fn.args.args + fn.args.kwonlyargs}
    if fn.args.vararg:
        names.add(fn.args.vararg.arg)
    if fn.args.kwarg:
        names.add(fn.args.kwarg.arg)
    globs = set()
    for n in ast.walk(fn):
        if isinstance(n, ast.Global):
            globs.update(n.names)
    for n in ast.walk(fn):
        if isinstance(n, ast.Name) and isinstance(n.ctx, ast.Store) and n.id not in globs:
            names.add(n.id)
        elif isinstance(n, (ast.FunctionDef, ast.ClassDef)) and n is not fn:
            names.add(n.name)
        elif isinstance(n, ast.ExceptHandler) and n.name:
            names.add(n.name)
        elif isinstance(n, (ast.Import, ast.ImportFrom)):
            for a in n.names:
                names.add((a.asname or a.name).split('.')[0])
    return names, globs


def base_name(e):
    while isinstance(e, (ast.Subscript, ast.Attribute)):
        e = e.value
    return e.id if isinstance(e, ast.Name) else None


def scan_source(src, filename='<src>'):
    """-> list of dicts(function, line, name, what) : writes to module-level state"""
    tree = ast.parse(src)
    mod = module_level_names(tree)
    finds = []
    for fn in [n for n in ast.walk(tree) if isinstance(n, (ast.FunctionDef, ast.AsyncFunctionDef))]:
        loc, globs = local_names(fn)

        def is_state(name):
            return name is not None and name in mod and (name not in loc or name in globs)
        for n in ast.walk(fn):
            if isinstance(n, (ast.Assign, ast.AugAssign, ast.AnnAssign, ast.Delete)):
                targets = n.targets if isinstance(n, (ast.Assign, ast.Delete)) else [n.target]
                for t in targets:
                    for tt in (t.elts if isinstance(t, (ast.Tuple, ast.List)) else [t]):
                        if isinstance(tt, (ast.Subscript, ast.Attribute)) and is_state(base_name(tt)):
                            finds.append({'function': fn.name, 'line': n.lineno, 'name': base_name(tt), 'what': 'store into module-level %s' % base_name(tt)})
                        elif isinstance(tt, ast.Name) and tt.id in globs:
                            finds.append({'function': fn.name, 'line': n.lineno, 'name': tt.id, 'what': 'assignment to global %s' % tt.id})
            elif isinstance(n, ast.Call) and isinstance(n.func, ast.Attribute) and n.func.attr in MUTATORS:
                b = base_name(n.func.value)
                if is_state(b) and isinstance(n.func.value, (ast.Name, ast.Subscript, ast.Attribute)):
                    finds.append({'function': fn.name, 'line': n.lineno, 'name': b, 'what': '%s.%s(...) on module-level state' % (b, n.func.attr)})
    return finds, sorted(mod)
