"""Dual-interpretation scalar operations.

Every contract, invariant and library axiom in this framework is written against these helpers.
They dispatch on their operands: if any operand is a z3 term the result is a z3 term (symbolic
interpretation: proof obligations); if all operands are plain Python values the result is a plain
Python value (concrete interpretation: run-time contract on the real function, replay of solver
counter-models, conformance of the library axioms against real torch / numpy).
"""
import itertools
import z3

Z3 = z3.ExprRef


def is_sym(x):
    return isinstance(x, z3.ExprRef)


def any_sym(*xs):
    for x in xs:
        if isinstance(x, z3.ExprRef):
            return True
    return False


def is_bool(x):
    return isinstance(x, (bool,)) or (isinstance(x, z3.ExprRef) and z3.is_bool(x))


def to_z3(x):
    if isinstance(x, z3.ExprRef):
        return x
    if isinstance(x, bool):
        return z3.BoolVal(x)
    if isinstance(x, int):
        return z3.IntVal(x)
    if isinstance(x, float):
        if x != x or x in (float('inf'), float('-inf')):
            raise ValueError("non-finite float has no z3 real value")
        return z3.RealVal(repr(x)) if not float(x).is_integer() else z3.RealVal(int(x))
    raise TypeError("cannot convert %r to z3" % (x,))


def simp(x):
    if isinstance(x, z3.ExprRef):
        x = z3.simplify(x)
        if z3.is_int_value(x):
            return x.as_long()
        if z3.is_true(x):
            return True
        if z3.is_false(x):
            return False
    return x


def And(*a):
    flat = []
    for x in a:
        if isinstance(x, (list, tuple)):
            flat.extend(x)
        else:
            flat.append(x)
    if any_sym(*flat):
        out = []
        for x in flat:
            if x is True:
                continue
            if x is False:
                return False
            out.append(to_z3(x))
        return z3.And(*out) if len(out) != 1 else out[0]
    return all(bool(x) for x in flat)


def Or(*a):
    flat = []
    for x in a:
        if isinstance(x, (list, tuple)):
            flat.extend(x)
        else:
            flat.append(x)
    if any_sym(*flat):
        out = []
        for x in flat:
            if x is False:
                continue
            if x is True:
                return True
            out.append(to_z3(x))
        return z3.Or(*out) if len(out) != 1 else out[0]
    return any(bool(x) for x in flat)


def Not(a):
    if is_sym(a):
        return z3.Not(a)
    return not a


def Implies(a, b):
    if any_sym(a, b):
        if a is True:
            return b
        if a is False:
            return True
        return z3.Implies(to_z3(a), to_z3(b))
    return (not a) or bool(b)


def Iff(a, b):
    if any_sym(a, b):
        return to_z3(a) == to_z3(b)
    return bool(a) == bool(b)


def _is_const_leaf_tree(x):
    """ite-tree whose leaves are numerals (used to push multiplication inside)."""
    if not is_sym(x):
        return True
    if z3.is_int_value(x) or z3.is_rational_value(x):
        return True
    if z3.is_app_of(x, z3.Z3_OP_ITE):
        return _is_const_leaf_tree(x.arg(1)) and _is_const_leaf_tree(x.arg(2))
    if z3.is_app_of(x, z3.Z3_OP_TO_REAL):
        return _is_const_leaf_tree(x.arg(0))
    return False


def _map_leaves(x, f):
    if is_sym(x) and z3.is_app_of(x, z3.Z3_OP_ITE):
        return z3.If(x.arg(0), to_z3(_map_leaves(x.arg(1), f)), to_z3(_map_leaves(x.arg(2), f)))
    if is_sym(x) and z3.is_app_of(x, z3.Z3_OP_TO_REAL):
        return _map_leaves(x.arg(0), f)
    if is_sym(x):
        if z3.is_int_value(x):
            return f(x.as_long())
        return f(x)
    return f(x)


def ite(c, a, b):
    if is_sym(c):
        c2 = simp(c)
        if c2 is True:
            return a
        if c2 is False:
            return b
        if a is b:
            return a
        if isinstance(a, tuple) and isinstance(b, tuple) and len(a) == len(b):
            return tuple(ite(c, x, y) for x, y in zip(a, b))
        za, zb = to_z3(a), to_z3(b)
        if z3.is_int(za) and z3.is_real(zb):
            za = z3.ToReal(za)
        if z3.is_real(za) and z3.is_int(zb):
            zb = z3.ToReal(zb)
        return z3.If(c, za, zb)
    return a if c else b


def mul(a, b):
    """Multiplication that keeps products linear when one side is an ite-tree of numerals
    (one-hot masks): x * ite(c,1,0) == ite(c,x,0)."""
    if any_sym(a, b):
        if is_sym(a) and not (z3.is_int_value(a) or z3.is_rational_value(a)) and _is_const_leaf_tree(a) and is_sym(b):
            return _map_leaves(a, lambda k: 0 if k == 0 else (b if k == 1 else k * b))
        if is_sym(b) and not (z3.is_int_value(b) or z3.is_rational_value(b)) and _is_const_leaf_tree(b) and is_sym(a):
            return _map_leaves(b, lambda k: 0 if k == 0 else (a if k == 1 else a * k))
        if is_sym(a) and is_sym(b) and z3.is_int(a) and z3.is_int(b):
            # products of two symbolic integers are kept as sums of monomials (distributed over +
            # and over numeral factors), so that e.g. (t+1)*n and t*n + n are the same term
            for x, y in ((a, b), (b, a)):
                if z3.is_app_of(x, z3.Z3_OP_ADD):
                    out = None
                    for ch in x.children():
                        m = mul(ch, y)
                        out = m if out is None else out + m
                    return out
                if z3.is_app_of(x, z3.Z3_OP_SUB) and x.num_args() == 2:
                    return mul(x.arg(0), y) - mul(x.arg(1), y)
                if z3.is_app_of(x, z3.Z3_OP_MUL) and x.num_args() == 2 and z3.is_int_value(x.arg(0)):
                    return x.arg(0) * mul(x.arg(1), y)
            if z3.is_int_value(a) or z3.is_int_value(b):
                return a * b
            # canonical operand order for monomials
            if a.get_id() > b.get_id():
                a, b = b, a
            return a * b
        return to_z3(a) * to_z3(b) if not (is_sym(a) and is_sym(b)) else a * b
    return a * b


_QR = {}


def register_qr(term, q, n, r):
    """remember that `term` was built as q*n + r (mixed-radix flat index).  floordiv / mod by the
    same n then return q / r under the guard 0 <= r < n (sound unconditionally: the guard is part
    of the term), which spares the solver the non-linear division reasoning."""
    if isinstance(term, z3.ExprRef) and isinstance(n, z3.ExprRef):
        _QR[term.get_id()] = (term, q, n, r)


def _qr_lookup(a, b):
    if isinstance(a, z3.ExprRef) and isinstance(b, z3.ExprRef):
        e = _QR.get(a.get_id())
        if e is not None and e[0].eq(a):
            return e
    return None


def floordiv(a, b):
    """Python // on integers. z3's div agrees with floor division for positive divisors; callers
    are responsible for the side obligation divisor > 0 (the interpreter emits it)."""
    if any_sym(a, b):
        za, zb = to_z3(a), to_z3(b)
        if z3.is_int(za) and z3.is_int(zb):
            e = _qr_lookup(za, zb)
            if e is not None:
                _, q, n, r = e
                return z3.If(z3.And(to_z3(r) >= 0, to_z3(r) < n, n == zb), to_z3(q), za / zb)
            return za / zb
        raise TypeError("symbolic floor division of reals")
    return a // b


def mod(a, b):
    if any_sym(a, b):
        za, zb = to_z3(a), to_z3(b)
        e = _qr_lookup(za, zb)
        if e is not None:
            _, q, n, r = e
            return z3.If(z3.And(to_z3(r) >= 0, to_z3(r) < n, n == zb), to_z3(r), za % zb)
        return za % zb
    return a % b


def truediv(a, b):
    if any_sym(a, b):
        za, zb = to_z3(a), to_z3(b)
        if z3.is_int(za):
            za = z3.ToReal(za)
        if z3.is_int(zb):
            zb = z3.ToReal(zb)
        return za / zb
    return a / b


def vmin(a, b):
    if any_sym(a, b):
        return ite(to_z3(a) <= to_z3(b), a, b)
    return min(a, b)


def vmax(a, b):
    if any_sym(a, b):
        return ite(to_z3(a) >= to_z3(b), a, b)
    return max(a, b)


def vabs(a):
    if is_sym(a):
        return z3.If(a >= 0, a, -a)
    return abs(a)


def eq(a, b):
    if any_sym(a, b):
        za, zb = to_z3(a), to_z3(b)
        if z3.is_int(za) and z3.is_real(zb):
            za = z3.ToReal(za)
        if z3.is_real(za) and z3.is_int(zb):
            zb = z3.ToReal(zb)
        return za == zb
    return a == b


def ne(a, b):
    return Not(eq(a, b))


def in_range(i, lo, hi):
    return And(lo <= i, i < hi)


PINF = z3.Real('+inf')     # infinities as one unspecified huge real: sound for index / initialisation
                           # reasoning, not for value semantics (assumption listed in the evidence)

_fresh_ctr = itertools.count()


def fresh_int(prefix='k'):
    return z3.Int('%s!%d' % (prefix, next(_fresh_ctr)))


def fresh_real(prefix='x'):
    return z3.Real('%s!%d' % (prefix, next(_fresh_ctr)))


def fresh_bool(prefix='b'):
    return z3.Bool('%s!%d' % (prefix, next(_fresh_ctr)))


def fresh_name(prefix):
    return '%s!%d' % (prefix, next(_fresh_ctr))


def forall(dims, f):
    """Goal-position universal quantifier over an index box.  Symbolic: fresh index constants
    (the obligation stays quantifier-free); concrete: exhaustive enumeration."""
    dims = list(dims)
    if any_sym(*dims):
        idx = [fresh_int('i') for _ in dims]
        return Implies(And(*[in_range(i, 0, d) for i, d in zip(idx, dims)]), f(*idx))
    vals = [f(*idx) for idx in itertools.product(*[range(int(d)) for d in dims])]
    if any_sym(*vals):
        return And(*vals)
    return all(bool(v) for v in vals)


def forall_hyp(dims, f, pats=None):
    """Hypothesis-position universal quantifier (a real z3 ForAll); concrete: enumeration."""
    dims = list(dims)
    if not any_sym(*dims):
        n = 1
        for d in dims:
            n *= max(int(d), 0)
        if n <= 4096:
            return And(*[f(*idx) for idx in itertools.product(*[range(int(d)) for d in dims])])
    idx = [z3.Int('q%d' % i) for i in range(len(dims))]
    body = Implies(And(*[in_range(i, 0, d) for i, d in zip(idx, dims)]), f(*idx))
    if body is True:
        return True
    return z3.ForAll(idx, to_z3(body))


def exists_in(lo, hi, f):
    """Bounded existential; symbolic form introduces a real Exists (use sparingly)."""
    if any_sym(lo, hi):
        k = z3.Int('e%d' % next(_fresh_ctr))
        return z3.Exists([k], to_z3(And(lo <= k, k < hi, f(k))))
    return any(f(k) for k in range(int(lo), int(hi)))


def conc_int(x):
    """Concrete python int out of a python or z3 numeral value."""
    x = simp(x)
    if isinstance(x, bool):
        return int(x)
    if isinstance(x, int):
        return x
    if isinstance(x, z3.ExprRef) and z3.is_int_value(x):
        return x.as_long()
    raise ValueError("not a concrete int: %r" % (x,))


def is_conc(x):
    x = simp(x)
    return not isinstance(x, z3.ExprRef)


def exists_box(dims, f):
    """exists idx in the box [0,d0) x [0,d1) x ... with f(idx).  Symbolic: a real z3 Exists (its
    negation on the other branch of a `branch` is then the full universal fact); concrete: any()."""
    dims = list(dims)
    probe_sym = any_sym(*dims)
    if not probe_sym:
        try:
            vals = [f(*idx) for idx in itertools.product(*[range(int(d)) for d in dims])]
            if not any_sym(*vals):
                return any(bool(v) for v in vals)
            return Or(*vals)
        except Exception:
            pass
    ks = [z3.Int('ex!%d' % next(_fresh_ctr)) for _ in dims]
    body = simp(And(And(*[in_range(k, 0, d) for k, d in zip(ks, dims)]), f(*ks)))
    if body is True or body is False:
        return body
    return z3.Exists(ks, body)


SUM_DEFS = {}
CONGRUENT_DECLS = set()   # names of uninterpreted functions with array arguments (assumed row-wise callables)


def _mentions_congruent(t, _depth=0):
    if _depth > 6 or not z3.is_app(t):
        return False
    nm = t.decl().name()
    if nm in SUM_DEFS or nm in CONGRUENT_DECLS:
        return True
    return any(_mentions_congruent(c, _depth + 1) for c in t.children())


_SUM_LEMMAS = []


class sum_lemmas:
    """while active, every split of an equality between sums (sum_congr_range) may use the given lemma
    instances about the summation index: fn(k) -> formula, added as an antecedent of the summand goal.
    The instances are the caller's responsibility (proved lemma schemas, listed as trusted)."""

    def __init__(self, *fns):
        self.fns = fns

    def __enter__(self):
        _SUM_LEMMAS.append(self.fns)

    def __exit__(self, *a):
        _SUM_LEMMAS.pop()


def smart_eq(x, y, depth=0):
    """sufficient condition for x == y that never needs lambda extensionality: equalities between
    applications of the same uninterpreted row-wise function are split argument-wise, array
    arguments are compared pointwise at fresh indices (goal position), ite-trees are split."""
    if not (isinstance(x, z3.ExprRef) and isinstance(y, z3.ExprRef)) or depth > 12:
        return eq(x, y)
    if x.eq(y):
        return True
    if depth == 0:
        x, y = z3.simplify(x), z3.simplify(y)
        if x.eq(y):
            return True
    if z3.is_app_of(x, z3.Z3_OP_ITE):
        return z3.If(x.arg(0), to_z3(smart_eq(x.arg(1), y, depth + 1)), to_z3(smart_eq(x.arg(2), y, depth + 1)))
    if z3.is_app_of(y, z3.Z3_OP_ITE):
        return z3.If(y.arg(0), to_z3(smart_eq(x, y.arg(1), depth + 1)), to_z3(smart_eq(x, y.arg(2), depth + 1)))
    if z3.is_app(x) and z3.is_app(y) and x.decl().name() in SUM_DEFS and y.decl().name() in SUM_DEFS:
        # sum_congr_range (lean/Lemmas.lean): equal bounds and equal summands on the range
        from .lib import sum_summand
        k = z3.Int('cg!%d' % next(_fresh_ctr))
        nx, ny = x.num_args(), y.num_args()
        lo1, hi1, lo2, hi2 = x.arg(nx - 2), x.arg(nx - 1), y.arg(ny - 2), y.arg(ny - 1)
        sa = z3.simplify(sum_summand(x, k))
        sb = z3.simplify(sum_summand(y, k))
        lem = [fn(k) for fns in _SUM_LEMMAS for fn in fns]
        return And(eq(lo1, lo2), eq(hi1, hi2), Implies(And(lo1 <= k, k < hi1, *lem), smart_eq(sa, sb, depth + 1)))
    if (z3.is_app(x) and z3.is_app(y) and x.decl().kind() == y.decl().kind() and x.num_args() == y.num_args() and x.num_args() >= 1
            and x.decl().kind() in (z3.Z3_OP_MUL, z3.Z3_OP_ADD, z3.Z3_OP_SUB, z3.Z3_OP_DIV, z3.Z3_OP_TO_REAL, z3.Z3_OP_UMINUS)
            and _mentions_congruent(x) and _mentions_congruent(y)):
        # arithmetic over applications of row-wise functions / sums: equal operands suffice (a
        # sufficient condition; keeping the plain equality as an alternative would hand the solver the
        # disequality of lambda-carrying terms, which is what this function exists to avoid)
        parts = [smart_eq(a, b, depth + 1) for a, b in zip(x.children(), y.children())]
        return And(*parts)
    if z3.is_app(x) and z3.is_app(y) and x.decl().name() in CONGRUENT_DECLS and x.decl().eq(y.decl()):
        conj = []
        for a, b in zip(x.children(), y.children()):
            if z3.is_array_sort(a):
                dom = []
                srt = a.sort()
                k = 0
                while True:
                    try:
                        dom.append(srt.domain_n(k))
                        k += 1
                    except Exception:
                        break
                idx = [z3.Const('cg!%d' % next(_fresh_ctr), d) for d in dom]
                sa = z3.simplify(z3.Select(a, *idx))
                sb = z3.simplify(z3.Select(b, *idx))
                conj.append(smart_eq(sa, sb, depth + 1))
            else:
                conj.append(eq(a, b) if not a.eq(b) else True)
        return And(*conj)
    return eq(x, y)
