"""Discharge of proof obligations: z3 (Python API, in worker processes via SMT-LIB text) with the
cvc5 binary as second solver for anything z3 leaves unknown (DESIGN §2.6)."""
import multiprocessing as mp
import os
import subprocess
import tempfile
import time

import z3

from . import ops as O

# Budgets are z3 resource units (`rlimit`: deterministic, independent of machine load - a verdict must not flip when
# all cores are busy); the wall-clock timeouts are a safety net only.  Slow queries are seed-sensitive: several
# modest attempts with different seeds beat one long one.  refute = looking for `sat` only (small-scope refutation).
Z3_TIMEOUT_MS = {'quick': 150000, 'thorough': 600000, 'refute': 15000}
Z3_RLIMIT = {'quick': 50000000, 'thorough': 300000000, 'refute': 10000000}
Z3_ATTEMPTS = {'quick': 4, 'thorough': 3, 'refute': 1}


_MULF = z3.Function('vf.mul', z3.IntSort(), z3.IntSort(), z3.IntSort())
_DIVF = z3.Function('vf.div', z3.IntSort(), z3.IntSort(), z3.IntSort())
_MODF = z3.Function('vf.mod', z3.IntSort(), z3.IntSort(), z3.IntSort())


def congruence_helpers(terms, limit=400):
    """definitional equalities f(a, b) == a (op) b for every non-linear integer product, quotient and
    remainder (by a non-numeral) occurring quantifier-free in the given formulas, f a fresh function
    symbol per operator: they add nothing but congruence (equal operands => equal value) in a form the
    solver's core sees without non-linear reasoning."""
    seen, out = set(), []

    def bound_free(t):
        return True

    def rec(t, under_binder):
        if t.get_id() in seen or len(out) >= limit:
            return
        seen.add(t.get_id())
        if z3.is_quantifier(t):
            return      # terms with bound variables cannot be named outside their binder
        if z3.is_app(t):
            if t.sort() == z3.IntSort() and t.num_args() == 2:
                a, b = t.arg(0), t.arg(1)
                k = t.decl().kind()
                if k == z3.Z3_OP_MUL and not z3.is_int_value(a) and not z3.is_int_value(b):
                    out.append(_MULF(a, b) == t)
                elif k == z3.Z3_OP_IDIV and not z3.is_int_value(b):
                    out.append(_DIVF(a, b) == t)
                elif k == z3.Z3_OP_MOD and not z3.is_int_value(b):
                    out.append(_MODF(a, b) == t)
            for ch in t.children():
                rec(ch, under_binder)
    for t in terms:
        rec(t, False)
    return out


def _has_var(t, _seen=None):
    _seen = _seen if _seen is not None else set()
    if t.get_id() in _seen:
        return False
    _seen.add(t.get_id())
    if z3.is_var(t):
        return True
    if z3.is_quantifier(t):
        return True
    return any(_has_var(c, _seen) for c in t.children())


def _heavy(t, _seen=None):
    """mentions a quantifier or a lambda"""
    _seen = _seen if _seen is not None else set()
    if t.get_id() in _seen:
        return False
    _seen.add(t.get_id())
    if z3.is_quantifier(t):
        return True
    return any(_heavy(c, _seen) for c in t.children())


def to_smt2(ob, light=False):
    """SMT-LIB text of the negated obligation.  light: only the hypotheses without quantifiers and
    lambdas (a subset of the hypotheses: `unsat` for it implies `unsat` for the full query)."""
    s = z3.Solver()
    fs = []
    for h in ob.hyps:
        hz = O.to_z3(h)
        if light and z3.is_expr(hz) and _heavy(hz):
            continue
        fs.append(hz)
    for l in getattr(ob, 'lemmas', []) or []:
        fs.append(O.to_z3(l))
    g = ob.goal
    if g is True:
        return None
    if g is False:
        pass
    else:
        fs.append(z3.Not(O.to_z3(g)))
    for f in fs:
        s.add(f)
    for e in congruence_helpers([f for f in fs if z3.is_expr(f)]):
        if not _has_var(e):
            s.add(e)
    return s.to_smt2()


def _solve(job):
    name, text, tier, seed = job
    timeout_ms, rlimit, attempts = Z3_TIMEOUT_MS.get(tier, 150000), Z3_RLIMIT.get(tier, 50000000), Z3_ATTEMPTS.get(tier, 4)
    refute_only = tier == 'refute'
    light = None
    if isinstance(text, tuple):
        light, text = text
    t0 = time.time()
    res, detail = 'unknown', None
    if light is not None:
        # relevance filter: first without the quantified / lambda-carrying hypotheses
        try:
            s = z3.Solver()
            s.set('timeout', max(2000, timeout_ms // 4))
            s.set('rlimit', max(2000000, rlimit // 5))
            s.set('random_seed', seed)
            s.from_string(light)
            if s.check() == z3.unsat:
                return name, 'unsat', time.time() - t0, 'z3', None
        except Exception:
            pass
    try:
        # slow queries are the unstable ones: a few differently seeded attempts before giving up
        for attempt in range(attempts):
            s = z3.Solver()
            s.set('timeout', timeout_ms)
            s.set('rlimit', rlimit)
            s.set('random_seed', seed + 7919 * attempt)
            if attempt:
                s.set('smt.arith.random_initial_value', True)
            s.from_string(text)
            r = s.check()
            res = str(r)
            detail = None
            if r != z3.unknown:
                break
            detail = s.reason_unknown()
    except Exception as e:  # parser / solver error -> undecided, never a verdict
        res, detail = 'error', repr(e)
    dt = time.time() - t0
    backend = 'z3'
    if res in ('unknown', 'error') and os.path.exists('/usr/bin/cvc5') and not refute_only:
        try:
            with tempfile.NamedTemporaryFile('w', suffix='.smt2', delete=False, dir=os.environ.get('VERIF_TMP', None)) as f:
                f.write('(set-logic ALL)\n' + text)
                path = f.name
            try:
                cv_ms = {'quick': 30000, 'thorough': 120000}.get(tier, 30000)
                p = subprocess.run(['/usr/bin/cvc5', '--tlimit=%d' % cv_ms, path], capture_output=True, text=True,
                                   timeout=cv_ms / 1000 + 10)
                out = p.stdout.strip().split('\n')[0] if p.stdout.strip() else ''
                if out == 'unsat':
                    res, backend, detail = 'unsat', 'cvc5', None
            finally:
                os.unlink(path)
        except Exception:
            pass
    return name, res, time.time() - t0, backend, detail


def discharge(obls, tier='quick', workers=None, seed=0):
    """sets ob.result in {'unsat','sat','unknown','error'}, ob.seconds, ob.backend"""
    jobs = []
    byname = {}
    for i, ob in enumerate(obls):
        key = '%d:%s' % (i, ob.name)
        byname[key] = ob
        if ob.goal is True:
            ob.result, ob.backend, ob.seconds = 'unsat', 'trivial', 0.0
            continue
        try:
            text = to_smt2(ob)
            if any(z3.is_expr(O.to_z3(h)) and _heavy(O.to_z3(h)) for h in ob.hyps):
                lt = to_smt2(ob, light=True)
                if lt is not None:
                    text = (lt, text)
        except Exception as e:
            ob.result, ob.backend, ob.detail = 'error', 'z3', repr(e)
            continue
        jobs.append((key, text, tier, seed))
    if not jobs:
        return
    workers = workers or min(16, os.cpu_count() or 4)
    if len(jobs) < 4 or workers == 1:
        results = [_solve(j) for j in jobs]
    else:
        ctx = mp.get_context('fork')
        with ctx.Pool(workers) as pool:
            results = pool.map(_solve, jobs, chunksize=max(1, len(jobs) // (workers * 4)))
    for key, res, dt, backend, detail in results:
        ob = byname[key]
        ob.result, ob.seconds, ob.backend, ob.detail = res, dt, backend, detail


def model_for(ob, bound=None, extra=(), timeout_ms=20000):
    """in-process counter-model of a refuted obligation (optionally with all given terms bounded)"""
    s = z3.Solver()
    s.set('timeout', timeout_ms)
    for h in ob.hyps:
        s.add(O.to_z3(h))
    if ob.goal is not False:
        s.add(z3.Not(O.to_z3(ob.goal)))
    for e in extra:
        s.add(e)
    r = s.check()
    if r == z3.sat:
        return s.model()
    return None
