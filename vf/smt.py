"""Discharge of proof obligations: z3 (Python API, in worker processes via SMT-LIB text) with the
cvc5 binary as second solver for anything z3 leaves unknown (DESIGN §2.6)."""
import multiprocessing as mp
import os
import subprocess
import tempfile
import time

import z3

from . import ops as O

Z3_TIMEOUT_MS = {'quick': 20000, 'thorough': 120000}


def to_smt2(ob):
    s = z3.Solver()
    for h in ob.hyps:
        s.add(O.to_z3(h))
    for l in getattr(ob, 'lemmas', []) or []:
        s.add(O.to_z3(l))
    g = ob.goal
    if g is True:
        return None
    if g is False:
        pass
    else:
        s.add(z3.Not(O.to_z3(g)))
    return s.to_smt2()


def _solve(job):
    name, text, timeout_ms, seed = job
    t0 = time.time()
    res, detail = 'unknown', None
    try:
        # slow queries are the unstable ones: a few differently seeded attempts before giving up
        for attempt in range(3):
            s = z3.Solver()
            s.set('timeout', timeout_ms)
            s.set('random_seed', seed + 7919 * attempt)
            if attempt:
                s.set('smt.arith.random_initial_value', True)
            s.from_string(text)
            r = s.check()
            res = str(r)
            detail = None
            if r != z3.unknown:
                break
            detail = s.reason_unknown()
    except Exception as e:  # parser / solver error -> undecided, never a verdict
        res, detail = 'error', repr(e)
    dt = time.time() - t0
    backend = 'z3'
    if res in ('unknown', 'error') and os.path.exists('/usr/bin/cvc5'):
        try:
            with tempfile.NamedTemporaryFile('w', suffix='.smt2', delete=False, dir=os.environ.get('VERIF_TMP', None)) as f:
                f.write('(set-logic ALL)\n' + text)
                path = f.name
            try:
                p = subprocess.run(['/usr/bin/cvc5', '--tlimit=%d' % timeout_ms, path], capture_output=True, text=True,
                                   timeout=timeout_ms / 1000 + 10)
                out = p.stdout.strip().split('\n')[0] if p.stdout.strip() else ''
                if out == 'unsat':
                    res, backend, detail = 'unsat', 'cvc5', None
            finally:
                os.unlink(path)
        except Exception:
            pass
    return name, res, time.time() - t0, backend, detail


def discharge(obls, tier='quick', workers=None, seed=0):
    """sets ob.result in {'unsat','sat','unknown','error'}, ob.seconds, ob.backend"""
    jobs = []
    byname = {}
    for i, ob in enumerate(obls):
        key = '%d:%s' % (i, ob.name)
        byname[key] = ob
        if ob.goal is True:
            ob.result, ob.backend, ob.seconds = 'unsat', 'trivial', 0.0
            continue
        try:
            text = to_smt2(ob)
        except Exception as e:
            ob.result, ob.backend, ob.detail = 'error', 'z3', repr(e)
            continue
        jobs.append((key, text, Z3_TIMEOUT_MS.get(tier, 20000), seed))
    if not jobs:
        return
    workers = workers or min(16, os.cpu_count() or 4)
    if len(jobs) < 4 or workers == 1:
        results = [_solve(j) for j in jobs]
    else:
        ctx = mp.get_context('fork')
        with ctx.Pool(workers) as pool:
            results = pool.map(_solve, jobs, chunksize=max(1, len(jobs) // (workers * 4)))
    for key, res, dt, backend, detail in results:
        ob = byname[key]
        ob.result, ob.seconds, ob.backend, ob.detail = res, dt, backend, detail


def model_for(ob, bound=None, extra=(), timeout_ms=20000):
    """in-process counter-model of a refuted obligation (optionally with all given terms bounded)"""
    s = z3.Solver()
    s.set('timeout', timeout_ms)
    for h in ob.hyps:
        s.add(O.to_z3(h))
    if ob.goal is not False:
        s.add(z3.Not(O.to_z3(ob.goal)))
    for e in extra:
        s.add(e)
    r = s.check()
    if r == z3.sat:
        return s.model()
    return None
