"""Tensors as index functions over heap cells (DESIGN §2.2.2).

A `Cell` is a heap object: a content function from an index tuple to a scalar term, an
initialised-function (for numpy.empty buffers), a provenance tag.  A `Tn` is a reference
(cell, shape, index map): basic slicing, integer selection, permutations, `numpy()`, `from_numpy`
produce *views* (same cell, composed index map); functional operations allocate a fresh cell whose
content closes over a *snapshot* of its operands.  A store through any view is a functional update
of the cell's content, so every alias observes it.

The same class serves the concrete interpretation: a Tn whose cell content reads a real
torch / numpy array.  All library semantics in vf/lib.py are written once against this class and
are therefore (a) axioms for the verifier and (b) executable, which is how they are conformance
tested against the real library on every run.
"""
import itertools
import z3
from . import ops as O
from .ops import And, Or, Not, ite, in_range


class Unsupported(Exception):
    """Construct outside the verified subset: obligations of the function become undecided."""


def _aff(off, step, i):
    if step != 1:
        i = step * i
    if isinstance(off, int) and off == 0:
        return i
    return off + i


class Cell:
    _ctr = itertools.count()

    def __init__(self, rank, content, origin, kind='int', init=None, lib='torch'):
        self.rank = rank
        self.content = content
        self.origin = origin
        self.kind = kind
        self.init = init          # None = fully initialised; else closure idx -> bool term
        self.lib = lib
        self.id = next(Cell._ctr)
        self.base_shape = None


class Tn:
    """view = (cell, shape, imap). imap[d] for cell dimension d is ('fix', e) or
    ('aff', viewdim, offset, step): cell_index[d] = offset + step * view_index[viewdim]."""

    def __init__(self, cell, shape, imap=None, lib=None, dtype=None):
        self.cell = cell
        self.shape = list(shape)
        if imap is None:
            assert cell.rank == len(self.shape)
            imap = [('aff', d, 0, 1) for d in range(cell.rank)]
        self.imap = imap
        self.lib = lib or cell.lib
        self.dtype = dtype
        self.may_alias = False

    # ---- construction
    @staticmethod
    def fresh(shape, fn, kind='int', origin='fresh', lib='torch', init=None, dtype=None):
        shape = list(shape)
        c = Cell(len(shape), fn, origin, kind, init, lib)
        c.base_shape = shape
        return Tn(c, shape, None, lib, dtype)

    @staticmethod
    def param(name, rank, kind='int', lib='torch', shape=None, elem=None, lo=None, hi=None):
        """Symbolic input tensor: uninterpreted content, symbolic shape."""
        if shape is None:
            shape = [z3.Int('%s.d%d' % (name, i)) for i in range(rank)]
        if elem is None:
            sort = {'int': z3.IntSort(), 'real': z3.RealSort(), 'bool': z3.BoolSort()}[kind]
            f = z3.Function(name, *([z3.IntSort()] * rank), sort) if rank > 0 else None
            if rank == 0:
                cst = z3.Const(name, sort)
                elem = lambda: cst
            else:
                elem = lambda *idx: f(*[O.to_z3(i) for i in idx])
        t = Tn.fresh(shape, elem, kind, origin='param:' + name, lib=lib)
        return t

    @staticmethod
    def of_real(x, name='real', origin=None):
        """Concrete interpretation: wrap a real torch tensor / numpy array (as a view on it)."""
        import numpy
        try:
            import torch
            is_t = isinstance(x, torch.Tensor)
        except Exception:
            is_t = False
        arr = x
        kind = 'real'
        if is_t:
            if x.dtype == torch.bool:
                kind = 'bool'
            elif not x.dtype.is_floating_point:
                kind = 'int'
        else:
            arr = numpy.asarray(x)
            if arr.dtype == bool:
                kind = 'bool'
            elif numpy.issubdtype(arr.dtype, numpy.integer):
                kind = 'int'

        shp = tuple(int(d) for d in arr.shape)

        def content(*idx):
            # total function (like an uninterpreted function): 0 outside the array, since the
            # eager concrete `ite` evaluates both branches
            idx = tuple(int(i) for i in idx)
            for i, d in zip(idx, shp):
                if i < 0 or i >= d:
                    return 0
            return arr[idx].item()
        return Tn.fresh([int(d) for d in arr.shape], content, kind, origin or ('param:' + name),
                        lib='torch' if is_t else 'np')

    # ---- reading
    @property
    def rank(self):
        return len(self.shape)

    def cidx(self, idx):
        out = []
        for m in self.imap:
            if m[0] == 'fix':
                out.append(m[1])
            else:
                _, vd, off, step = m
                out.append(_aff(off, step, idx[vd]))
        return out

    def elem(self, *idx):
        if len(idx) != len(self.shape):
            raise Unsupported("elem: rank mismatch %d vs %d" % (len(idx), len(self.shape)))
        return self.cell.content(*self.cidx(idx))

    def snapshot(self):
        """closure idx -> term bound to the cell's *current* content (copy semantics)."""
        content = self.cell.content
        imap = list(self.imap)

        def f(*idx):
            out = []
            for m in imap:
                if m[0] == 'fix':
                    out.append(m[1])
                else:
                    _, vd, off, step = m
                    out.append(_aff(off, step, idx[vd]))
            return content(*out)
        return f

    def init_at(self, *idx):
        if self.cell.init is None:
            return True
        return self.cell.init(*self.cidx(idx))

    def __getitem__(self, idx):
        """contract-side scalar access: t[b, c, p] (no wrapping, no safety obligations)."""
        if not isinstance(idx, tuple):
            idx = (idx,)
        return self.elem(*idx)

    def in_bounds(self, *idx):
        return And(*[in_range(i, 0, d) for i, d in zip(idx, self.shape)])

    @property
    def kind(self):
        return self.cell.kind

    def numel(self):
        n = 1
        for d in self.shape:
            n = n * d
        return n

    def __repr__(self):
        return "Tn(%s, shape=%s, origin=%s)" % (self.kind, self.shape, self.cell.origin)

    # ---- views
    def view(self, shape, imap):
        t = Tn(self.cell, shape, imap, self.lib, self.dtype)
        t.may_alias = self.may_alias
        return t

    def compose(self, new_shape, f):
        """new view whose view index j maps to old view index f(j) per dimension descriptor:
        f is a list over OLD view dims of ('fix', e) | ('aff', newdim, off, step)."""
        imap = []
        for m in self.imap:
            if m[0] == 'fix':
                imap.append(m)
            else:
                _, vd, off, step = m
                g = f[vd]
                if g[0] == 'fix':
                    imap.append(('fix', O.simp(_aff(off, step, g[1]))))
                else:
                    _, nd, off2, step2 = g
                    imap.append(('aff', nd, O.simp(_aff(off, step, off2)), step * step2))
        return self.view(new_shape, imap)

    def permute(self, perm):
        perm = [p % self.rank for p in perm]
        if sorted(perm) != list(range(self.rank)):
            raise Unsupported("permute: not a permutation")
        # new dim j is old dim perm[j]
        f = [None] * self.rank
        for j, p in enumerate(perm):
            f[p] = ('aff', j, 0, 1)
        return self.compose([self.shape[p] for p in perm], f)

    def unsqueeze(self, d):
        r = self.rank + 1
        d = d % r
        f = []
        for od in range(self.rank):
            f.append(('aff', od if od < d else od + 1, 0, 1))
        shape = self.shape[:d] + [1] + self.shape[d:]
        return self.compose(shape, f)

    # ---- writing
    def write(self, region, value, ctx=None, bmask=None):
        """region: list over view dims of ('all',) | ('range', lo, hi) | ('pt', k).
        value: scalar term or Tn (broadcast from the right against the region box)."""
        cell = self.cell
        if self.may_alias:
            raise Unsupported("store through a possibly-aliasing reshape/unfold view")
        if ctx is not None:
            ctx.on_write(self)
        old = cell.content
        oldinit = cell.init
        imap = list(self.imap)
        shape = list(self.shape)
        rank = len(shape)
        # box dims (non-point view dims), in order
        box = [d for d in range(rank) if region[d][0] != 'pt']
        los = {}
        for d in range(rank):
            r = region[d]
            los[d] = 0 if r[0] == 'all' else (r[1] if r[0] == 'range' else r[1])
        if isinstance(value, Tn):
            vsnap = value.snapshot()
            vshape = list(value.shape)
            if len(vshape) > len(box):
                # leading dims of size 1 may be dropped by torch; we only accept exact concrete 1s
                extra = len(vshape) - len(box)
                for e in vshape[:extra]:
                    if not (O.is_conc(e) and O.conc_int(e) == 1):
                        raise Unsupported("store: value rank exceeds region rank")
                inner = vsnap
                vsnap = lambda *idx, _i=inner, _e=extra: _i(*([0] * _e + list(idx)))
                vshape = vshape[extra:]
            voff = len(box) - len(vshape)
        seen = {}
        for m in imap:
            if m[0] == 'aff':
                if m[1] in seen:
                    raise Unsupported("store through a diagonal view")
                seen[m[1]] = True

        def hit_and_vidx(cidx):
            conds = []
            vidx = {}
            for dcell, m in enumerate(imap):
                if m[0] == 'fix':
                    conds.append(O.eq(cidx[dcell], m[1]))
                else:
                    _, vd, off, step = m
                    if step == 1:
                        vi = cidx[dcell] - off
                    elif step == -1:
                        vi = off - cidx[dcell]
                    else:
                        vi = O.floordiv(cidx[dcell] - off, step)
                        conds.append(O.eq(O.mod(cidx[dcell] - off, step), 0))
                    vidx[vd] = vi
                    r = region[vd]
                    if r[0] == 'all':
                        conds.append(in_range(vi, 0, shape[vd]))
                    elif r[0] == 'range':
                        conds.append(in_range(vi, r[1], r[2]))
                    else:
                        conds.append(O.eq(vi, r[1]))
            return And(*conds), vidx

        def new(*cidx):
            c, vidx = hit_and_vidx(cidx)
            if c is False:
                return old(*cidx)
            if isinstance(value, Tn):
                widx = []
                for j, e in enumerate(vshape):
                    d = box[voff + j]
                    if (bmask is not None and bmask[len(bmask) - len(vshape) + j]) or (O.is_conc(e) and O.conc_int(e) == 1):
                        widx.append(0)
                    else:
                        if d not in vidx:
                            raise Unsupported("store: broadcast view dimension on the left-hand side")
                        widx.append(vidx[d] - los[d])
                v = vsnap(*widx)
            else:
                v = value
            return ite(c, v, old(*cidx))
        cell.content = new
        if oldinit is not None:
            def newinit(*cidx):
                c, _ = hit_and_vidx(cidx)
                return Or(c, oldinit(*cidx))
            cell.init = newinit

    def region_shape(self, region):
        out = []
        for d, r in enumerate(region):
            if r[0] == 'all':
                out.append(self.shape[d])
            elif r[0] == 'range':
                out.append(r[2] - r[1])
        return out


# ------------------------------------------------------------------ slicing helpers

def norm_slice(lo, hi, L, ctx=None):
    """Python/torch slice normalisation for step 1: returns (lo', length).  With a path context the
    clamping cases that the path condition already excludes are dropped (same value, smaller term)."""
    ent = getattr(ctx, 'entails', None)
    if ent is not None and O.any_sym(lo, hi, L):
        try:
            lo_ok = lo is None or bool(ent(And(0 <= lo, lo <= L)))
            hi_ok = hi is None or bool(ent(And(0 <= hi, hi <= L)))
            if lo_ok and hi_ok:
                lo_n = 0 if lo is None else lo
                hi_n = L if hi is None else hi
                if bool(ent(lo_n <= hi_n)):
                    return O.simp(lo_n), O.simp(hi_n - lo_n)
        except Exception:
            pass
    if lo is None:
        lo_n = 0
    else:
        lo_w = ite(lo < 0, lo + L, lo) if (O.is_sym(lo) or lo < 0) else lo
        lo_n = ite(lo_w < 0, 0, ite(lo_w > L, L, lo_w)) if (O.is_sym(lo_w) or O.is_sym(L) or lo_w < 0 or lo_w > L) else lo_w
    if hi is None:
        hi_n = L
    else:
        hi_w = ite(hi < 0, hi + L, hi) if (O.is_sym(hi) or hi < 0) else hi
        hi_n = ite(hi_w < 0, 0, ite(hi_w > L, L, hi_w)) if (O.is_sym(hi_w) or O.is_sym(L) or hi_w < 0 or hi_w > L) else hi_w
    lo_n, hi_n = O.simp(lo_n), O.simp(hi_n)
    ln = O.simp(ite(hi_n - lo_n < 0, 0, hi_n - lo_n) if O.any_sym(lo_n, hi_n) else max(hi_n - lo_n, 0))
    return lo_n, ln


class Key:
    """normalised indexing key items"""
    pass


def basic_index(t, key, ctx=None, wrap=True, site=None):
    """t[key] for a key of ints / slices / None / Ellipsis. Returns a view.
    Integer subscripts wrap when negative (torch / numpy semantics); an out-of-range integer raises
    IndexError (ctx.may_raise) — inside numba-compiled code it is instead an index-safety
    obligation (ctx.safety)."""
    if not isinstance(key, tuple):
        key = (key,)
    n_real = sum(1 for k in key if k is not None and k is not Ellipsis)
    if any(k is Ellipsis for k in key):
        i = [j for j, k in enumerate(key) if k is Ellipsis][0]
        fill = t.rank - n_real
        key = key[:i] + (slice(None),) * fill + key[i + 1:]
        n_real = sum(1 for k in key if k is not None and k is not Ellipsis)
    if n_real > t.rank:
        if ctx is not None:
            ctx.raise_now('IndexError')
        raise Unsupported("too many indices")
    key = list(key) + [slice(None)] * (t.rank - n_real)
    f = [None] * t.rank
    new_shape = []
    od = 0
    for k in key:
        if k is None:
            new_shape.append(1)
            continue
        L = t.shape[od]
        if isinstance(k, slice):
            step = k.step
            if step is None or (O.is_conc(step) and O.conc_int(step) == 1):
                lo, ln = norm_slice(k.start, k.stop, L, ctx)
                f[od] = ('aff', len(new_shape), lo, 1)
                new_shape.append(ln)
            else:
                step = O.conc_int(step)
                if step == -1 and k.start is None and k.stop is None:
                    f[od] = ('aff', len(new_shape), L - 1, -1)
                    new_shape.append(L)
                elif step > 1:
                    lo, ln = norm_slice(k.start, k.stop, L)
                    f[od] = ('aff', len(new_shape), lo, step)
                    new_shape.append(O.simp(O.floordiv(ln + step - 1, step)))
                else:
                    raise Unsupported("slice step %r" % (step,))
        else:
            i = k
            if isinstance(i, Tn):
                if i.rank != 0:
                    raise Unsupported("advanced index in basic_index")
                i = i.elem()
            bad = Or(i < -L, i >= L) if O.any_sym(i, L) else (i < -L or i >= L)
            if ctx is not None:
                if isinstance(i, int) and not isinstance(i, bool) and i < 0:
                    # a literal negative index is the deliberate idiom "from the end" (numba and numpy wrap it): it must
                    # name a cell (-L <= i); a computed index that may be negative is an unintended wrap
                    good = (i >= -L) if not O.is_sym(L) else (L >= -i)
                else:
                    good = And(0 <= i, i < L) if O.any_sym(i, L) else (0 <= i < L)
                ctx.index_check(bad, good, t, od, site)
            elif bad is True:
                raise IndexError("index %r out of range %r" % (i, L))
            if wrap:
                i = ite(i < 0, i + L, i) if O.is_sym(i) else (i + L if i < 0 else i)
            f[od] = ('fix', O.simp(i))
        od += 1
    return t.compose(new_shape, f)


def key_region(t, key, ctx=None, site=None):
    """for a store t[key] = v with a basic key: returns (view-to-write-through, region)."""
    # Indexing with ints removes dims; we instead produce the view and write 'all' of it.
    v = basic_index(t, key, ctx=ctx, site=site)
    return v, [('all',)] * v.rank
