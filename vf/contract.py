"""Contracts on real functions and the per-function verification driver (DESIGN §2.3, §2.7)."""
import itertools
import time
import traceback
import types

import z3

from . import ops as O
from .ops import And, Or, Not, ite, Implies
from .tensor import Tn, Unsupported
from .values import (SymRaise, PathEnd, SStr, DType, Opaque, LibFn, RepoFn, CatList, StackList, KeyedLists)
from .interp import Ctx, Interp, Obligation, PrefixStop
from .bind import BindError


class NS:
    """namespace of entry values (symbolic or concrete)"""

    def __init__(self, **kw):
        self.__dict__.update(kw)

    def get(self, k, d=None):
        return self.__dict__.get(k, d)


def freeze(v):
    """entry snapshot of a value (contracts speak about the pre-state unless they say otherwise)"""
    if isinstance(v, Tn):
        t = Tn.fresh(v.shape, v.snapshot(), v.kind, origin='entry', lib=v.lib, dtype=v.dtype)
        return t
    if isinstance(v, list):
        return [freeze(x) for x in v]
    if isinstance(v, tuple):
        return tuple(freeze(x) for x in v)
    if isinstance(v, dict):
        return {k: freeze(x) for k, x in v.items()}
    return v


def keyed_from_list(lst, nkey):
    """a concrete python list of lists of tuples as a keyed-list family"""
    for sub in lst:
        if not isinstance(sub, list) or any(not isinstance(t, tuple) or len(t) <= nkey for t in sub):
            return None
    width = None
    for sub in lst:
        for t in sub:
            width = len(t) - nkey

    def member(k, *ks):
        out = False
        for q, sub in enumerate(lst):
            for t in sub:
                out = Or(out, And(O.eq(k, q), *[O.eq(x, y) for x, y in zip(ks, t[:nkey])]))
        return out

    def payload(k, *ks):
        res = None
        for q, sub in enumerate(lst):
            for t in sub:
                hit = And(O.eq(k, q), *[O.eq(x, y) for x, y in zip(ks, t[:nkey])])
                res = tuple(t[nkey:]) if res is None else tuple(ite(hit, x, y) for x, y in zip(t[nkey:], res))
        return res if res is not None else tuple([0] * (width or 0))
    return KeyedLists(len(lst), nkey, member, payload)


def num_eq(x, y):
    """equality of scalars; concrete floats are compared up to rounding (floats are reals here)"""
    if isinstance(x, float) or isinstance(y, float):
        if not O.any_sym(x, y):
            import math
            if math.isinf(x) or math.isinf(y) or math.isnan(x) or math.isnan(y):
                return x == y
            return abs(x - y) <= 1e-9 * (1.0 + abs(x) + abs(y))
    if O.is_sym(x) and O.is_sym(y):
        return O.smart_eq(x, y)
    return O.eq(x, y)


def same(a, b, label='result'):
    """structural equality of a computed value and its specification: list of (label, formula)"""
    out = []
    if isinstance(b, KeyedLists):
        if isinstance(a, list):
            a = keyed_from_list(a, b.nkey)
            if a is None:
                return [(label + ':concrete-list-shape', False)]
        if not isinstance(a, KeyedLists) or a.nkey != b.nkey:
            return [(label + ':keyed-list', False)]
        out.append((label + ':count', O.eq(a.count, b.count)))
        box = getattr(b, 'box', None)
        if box is not None and not O.any_sym(b.count, *box):
            import itertools as _it
            okm, okp = True, True
            for ks in _it.product(range(int(b.count)), *[range(int(d)) for d in box]):
                ma, mb = bool(a.member(*ks)), bool(b.member(*ks))
                if ma != mb:
                    okm = False
                elif mb:
                    pa, pb = a.payload(*ks), b.payload(*ks)
                    if len(pa) != len(pb) or not all(bool(num_eq(x, y)) for x, y in zip(pa, pb)):
                        okp = False
            return out + [(label + ':membership', okm), (label + ':payload', okp)]
        ks = [O.fresh_int('key') for _ in range(b.nkey + 1)]
        inr = And(0 <= ks[0], ks[0] < b.count)
        out.append((label + ':membership', Implies(inr, O.Iff(a.member(*ks), b.member(*ks)))))
        pa, pb = a.payload(*ks), b.payload(*ks)
        if len(pa) == 0:
            pa = pb
        if len(pa) != len(pb):
            return out + [(label + ':payload-arity', False)]
        out.append((label + ':payload', Implies(And(inr, b.member(*ks)), And(*[num_eq(x, y) for x, y in zip(pa, pb)]))))
        return out
    if isinstance(b, (CatList, StackList)):
        if isinstance(a, list):
            if len(a) != 0:
                return [(label + ':concrete-nonempty-list', False)]
            return [(label + ':count', O.eq(b.count, 0))] + [('%s:view%d-empty' % (label, o), O.eq(v.shape[0], 0)) for o, v in enumerate(b.views)]
        if type(a) is not type(b):
            return [(label + ':list-kind', False)]
        out.append((label + ':count', O.eq(a.count, b.count)))
        out.append((label + ':item-kind', a.tuple_kind == b.tuple_kind and len(a.views) == len(b.views)))
        for o, (x, y) in enumerate(zip(a.views, b.views)):
            out.extend(same(x, y, '%s:view%d' % (label, o)))
        return out
    if isinstance(b, Tn):
        if not isinstance(a, Tn):
            return [(label + ':is-tensor', False)]
        if a.rank != b.rank:
            return [(label + ':rank', False)]
        out.append((label + ':shape', And(*[O.eq(x, y) for x, y in zip(a.shape, b.shape)]) if a.rank else True))
        out.append((label + ':elements', O.forall(b.shape, lambda *i: num_eq(a.elem(*i), b.elem(*i)))))
        return out
    if isinstance(b, (tuple, list)):
        if not isinstance(a, (tuple, list)) or len(a) != len(b):
            return [(label + ':arity', False)]
        if isinstance(a, tuple) != isinstance(b, tuple):
            out.append((label + ':container-type', False))
        for i, (x, y) in enumerate(zip(a, b)):
            out.extend(same(x, y, '%s[%d]' % (label, i)))
        return out
    if b is None:
        return [(label + ':is-none', a is None)]
    if isinstance(a, Tn) and a.rank == 0:
        a = a.elem()
    if isinstance(a, Tn):
        return [(label + ':is-scalar', False)]
    return [(label, O.eq(a, b))]


class Contract:
    qualname = None
    props = ()
    use_at_calls = True
    modifies = ()
    numba = False

    def configs(self):
        return [{}]

    def scopes(self, cfg):
        """small scopes for refutation (DESIGN 2.7): concrete tensor dimensions"""
        return [{'default': 2}, {'default': 3}, {'default': 2, 'X.d2': 4, 'X.d0': 3}, {'default': 1, 'X.d2': 3, 'X.d1': 2}]

    def cfg_name(self, cfg):
        return ','.join('%s=%s' % (k, cfg[k]) for k in sorted(cfg)) or '-'

    def make_args(self, cfg, A):
        """-> (args, kwargs) symbolic; A is an ArgFactory"""
        raise NotImplementedError

    def pre(self, a, cfg):
        return []

    def rejects(self, a, cfg):
        """condition (over entry values) under which the function must raise"""
        return False

    def accepts(self, a, cfg):
        """condition under which the function must return normally (None: exactly not rejects)"""
        return None

    def result(self, a, cfg):
        return NotImplemented

    def post(self, a, r, cfg):
        return []

    def exc_post(self, a, cfg, ctx):
        """exceptional postcondition over ghost state: list of (label, formula)"""
        return []

    def loops(self):
        return {}

    def param_names(self, world):
        fn = world.bind.resolve(self.qualname)
        fd = world.bind.function_ast(fn)
        return [x.arg for x in fd.args.posonlyargs + fd.args.args] + [x.arg for x in fd.args.kwonlyargs]

    # -- use at call sites (modular verification: callers see only this)
    def call_cfg(self, a, fr):
        return {}

    def apply_at_call(self, interp, rf, args, kwargs):
        ctx = interp.ctx
        fd = interp.get_ast(rf.pyobj)
        env = interp.bind_args(fd, rf.pyobj, args, kwargs)
        a = NS(**{k: v for k, v in env.items()})
        fr = types.SimpleNamespace(ctx=ctx, I=interp)
        cfg = self.call_cfg(a, fr)
        ctx.trusted.add('contract:' + self.qualname)
        for i, p in enumerate(self.pre(a, cfg)):
            ctx.oblige('pre@call:%s#%d' % (self.qualname.split('.')[-1], i), p, 'pre')
        rej = self.rejects(a, cfg)
        acc = self.accepts(a, cfg)
        if acc is None:
            acc = True
        if ctx.branch(rej):
            raise SymRaise('ValueError', 'contract:' + self.qualname)
        if not ctx.branch(acc):
            # neither required to raise nor required to return: both are allowed
            ctx.approx = True
            if ctx.choose(2) == 0:
                raise SymRaise('ValueError', 'contract:' + self.qualname)
        for nme in self.modifies:
            raise Unsupported("call-site use of a contract with modifies")
        r = self.result(a, cfg)
        if r is NotImplemented:
            ctx.approx = True
            r = self.fresh_result(a, cfg, fr)
            for label, f in self.post(a, r, cfg):
                ctx.assume(f)
        return r

    def fresh_result(self, a, cfg, fr):
        raise Unsupported("contract %s has no functional result" % self.qualname)


class ArgFactory:
    def __init__(self, ctx, scope=None):
        self.ctx = ctx
        self.entry = {}
        self.scope = scope   # small-scope refutation: dict dim-name -> int, 'default' -> int

    def dim(self, name, lo=0):
        """a tensor dimension: symbolic, or a concrete int under a small scope"""
        if self.scope is not None:
            return int(self.scope.get(name, self.scope.get('default', 2)))
        d = z3.Int(name)
        self.ctx.assume(d >= lo)
        return d

    def shape(self, name, rank, lo=0):
        return [self.dim('%s.d%d' % (name, i), lo) for i in range(rank)]

    def assume(self, *cs):
        for c in cs:
            self.ctx.assume(c)

    def tensor(self, name, rank, kind='int', lib='torch', shape=None, min_dims=0):
        if shape is None:
            shape = self.shape(name, rank, min_dims)
        t = Tn.param(name, rank, kind, lib, shape=shape)
        for d in t.shape:
            if O.is_sym(d):
                self.ctx.assume(d >= min_dims)
        return t

    def onehot(self, name, rank=3, ohe_dim=1, shape=None, allow_zero=False):
        """one-hot tensor by the representation theorem: X[.., c, ..] = [c == idx(..)] with
        0 <= idx < A (allow_zero: idx may be -1 = all-zero column)."""
        if shape is None:
            shape = self.shape(name, rank, 1)
        for d in shape:
            if O.is_sym(d):
                self.ctx.assume(d >= 1)
        f = z3.Function(name + '.idx', *([z3.IntSort()] * (rank - 1)), z3.IntSort())
        A = shape[ohe_dim]

        def idxfn(*rest):
            return f(*[O.to_z3(i) for i in rest])

        def elem(*idx):
            rest = [i for q, i in enumerate(idx) if q != ohe_dim]
            return ite(O.eq(idx[ohe_dim], idxfn(*rest)), 1, 0)
        t = Tn.fresh(shape, elem, 'int', origin='param:' + name)
        t.idxfn = idxfn
        # range axiom on the index function
        qs = [z3.Int('oh%d' % i) for i in range(rank - 1)]
        lo = -1 if allow_zero else 0
        self.ctx.assume(z3.ForAll(qs, z3.And(f(*qs) >= lo, f(*qs) < O.to_z3(A)), patterns=[f(*qs)]))
        return t

    def int(self, name, lo=None, hi=None):
        if self.scope is not None and name in self.scope:
            return int(self.scope[name])     # small scope: an integer that controls a loop is pinned
        v = z3.Int(name)
        if lo is not None:
            self.ctx.assume(v >= lo)
        if hi is not None:
            self.ctx.assume(v <= hi)
        return v

    def real(self, name):
        return z3.Real(name)

    def bool(self, name):
        return z3.Bool(name)


class FunctionReport:
    def __init__(self, qualname):
        self.qualname = qualname
        self.obligations = []
        self.paths = 0
        self.returns = 0
        self.raises = 0
        self.unsupported = []
        self.configs = []
        self.seconds = 0.0
        self.trusted = set()
        self.notes = []
        self.events = []


MAX_PATHS = 4000


def verify_function(world, contract, report=None, only_cfg=None, scope=None, deadline=None):
    """generate all obligations of one function under contract (all structural configs, all paths)"""
    t0 = time.time()
    rep = report or FunctionReport(contract.qualname)
    short = contract.qualname.replace('tangermeme.', '')
    try:
        pyfn = world.bind.resolve(contract.qualname)
        world.bind.function_ast(pyfn)
    except (BindError, ImportError, AttributeError) as e:
        rep.unsupported.append(('bind', str(e)))
        return rep
    for cfg in contract.configs():
        cname = contract.cfg_name(cfg)
        if only_cfg is not None and cname != only_cfg:
            continue
        rep.configs.append(cname)
        work = [[]]
        npaths = 0
        while work:
            if deadline is not None and time.time() > deadline:
                rep.unsupported.append((cname, 'path exploration stopped at its time budget (%d paths pending)' % len(work)))
                break
            prefix = work.pop()
            npaths += 1
            if npaths > MAX_PATHS:
                rep.unsupported.append((cname, 'path limit exceeded'))
                break
            ctx = Ctx(prefix, fname='%s[%s]' % (short, cname), opts={'small_scope': scope is not None, 'stop_before': getattr(contract, 'stop_before', None),
                                                                         'no_index': not getattr(contract, 'check_index', True)})
            ctx.modifies = set(contract.modifies)
            interp = Interp(ctx, world)
            outcome = None
            try:
                A = ArgFactory(ctx, scope)
                args, kwargs = contract.make_args(cfg, A)
                fd = world.bind.function_ast(pyfn)
                env = interp.bind_args(fd, pyfn, list(args), dict(kwargs))
                a = NS(**{k: freeze(v) for k, v in env.items()})
                a._live = env
                for p in contract.pre(a, cfg):
                    ctx.assume(p)
                # a contradictory precondition must not verify anything (vacuity guard)
                try:
                    r = interp.run_function(pyfn, contract.qualname, list(args), dict(kwargs))
                    outcome = ('ret', r)
                except SymRaise as e:
                    outcome = ('raise', e.kind, e.site)
                except PrefixStop as ps:
                    outcome = ('prefix', ps.env)
            except PathEnd:
                outcome = None
            except Unsupported as e:
                rep.unsupported.append((cname, str(e)))
                work.extend(ctx.pending)
                rep.obligations.extend(ctx.obls)
                continue
            except RecursionError as e:
                rep.unsupported.append((cname, 'recursion limit'))
                continue
            except Exception as e:
                # a contract / invariant written against names or shapes the code no longer has (e.g. after a
                # harmless refactoring), or an engine limitation: this path is undecided, never a verdict
                rep.unsupported.append((cname, 'contract not applicable to the current code (%s: %s)' % (type(e).__name__, str(e)[:160])))
                work.extend(ctx.pending)
                rep.obligations.extend(ctx.obls)
                continue
            work.extend(ctx.pending)
            rep.trusted |= ctx.trusted
            rep.notes.extend(ctx.notes)
            if outcome is not None:
                rep.paths += 1
                pid = ''.join('1' if d else '0' for d in ctx.taken) or 'e'
                try:
                    if outcome[0] == 'prefix':
                        rep.returns += 1
                        ctx.oblige('p%s/raises_iff:not-rejected-when-reaching-anchor' % pid, Not(contract.rejects(a, cfg)), 'raises')
                        for label, f in contract.post_prefix(a, NS(**outcome[1]), cfg):
                            ctx.oblige('p%s/ensures:%s' % (pid, label), f, 'ensures')
                    elif outcome[0] == 'ret':
                        rep.returns += 1
                        ctx.oblige('p%s/raises_iff:not-rejected-when-returning' % pid, Not(contract.rejects(a, cfg)), 'raises')
                        spec = contract.result(a, cfg)
                        if spec is not NotImplemented:
                            for label, f in same(outcome[1], spec):
                                ctx.oblige('p%s/ensures:%s' % (pid, label), f, 'ensures')
                        for label, f in contract.post(a, outcome[1], cfg):
                            ctx.oblige('p%s/ensures:%s' % (pid, label), f, 'ensures')
                        if hasattr(contract, 'path_post'):
                            for label, f in contract.path_post(a, cfg, ctx):
                                ctx.oblige('p%s/ensures:%s' % (pid, label), f, 'ensures')
                    else:
                        rep.raises += 1
                        acc = contract.accepts(a, cfg)
                        if acc is None:
                            acc = Not(contract.rejects(a, cfg))
                        if outcome[2] not in getattr(contract, 'environment_failures', ()):
                            # (a raise injected by an assumed callable is not a rejection by the function)
                            ctx.oblige('p%s/accepts:no-raise-on-accepted-domain(%s@%s)' % (pid, outcome[1], outcome[2]),
                                       Not(acc), 'accepts')
                        for label, f in contract.exc_post(a, cfg, ctx):
                            ctx.oblige('p%s/signals:%s' % (pid, label), f, 'exc-post', meta={'raised': outcome[1], 'site': str(outcome[2])})
                except Unsupported as e:
                    rep.unsupported.append((cname, 'contract evaluation: ' + str(e)))
                except Exception as e:
                    rep.unsupported.append((cname, 'contract evaluation not applicable (%s: %s)' % (type(e).__name__, str(e)[:160])))
                rep.events.append((cname, pid, outcome[0], list(ctx.events)))
            rep.obligations.extend(ctx.obls)
    rep.seconds = time.time() - t0
    return rep


def find_stmt_block(fd, spec):
    """the statements of a block fragment in a function AST.  spec = (start anchor, count) or
    (start anchor, ('until', end anchor)): consecutive statements of one (nested) statement list, from the
    statement whose source text starts with the start anchor up to and including the first later statement
    of the same list whose text starts with the end anchor.  Returns the list, or None when the anchors do
    not identify exactly one block (the fragment contract is then not applicable: undecided)."""
    import ast as _ast
    anchor, extent = spec
    norm = lambda st: _ast.unparse(st).replace('\n', ' ')
    found = []
    if isinstance(anchor, tuple) and anchor[0] == 'after':
        # (('after', A), ('before', B)): the statements strictly between the statement that starts with A and the
        # first later statement of the same list that starts with B - an anchor on the surroundings of a block, which
        # keeps the fragment applicable when the block itself is rewritten
        for n in _ast.walk(fd):
            for fld in ('body', 'orelse', 'finalbody'):
                blk = getattr(n, fld, None)
                if isinstance(blk, list):
                    for i, st in enumerate(blk):
                        if isinstance(st, _ast.stmt) and norm(st).startswith(anchor[1]):
                            ends = [j for j in range(i + 1, len(blk)) if norm(blk[j]).startswith(extent[1])]
                            if ends and ends[0] > i + 1:
                                found.append(blk[i + 1:ends[0]])
        return found[0] if len(found) == 1 else None
    for n in _ast.walk(fd):
        for fld in ('body', 'orelse', 'finalbody'):
            blk = getattr(n, fld, None)
            if isinstance(blk, list):
                for i, st in enumerate(blk):
                    if isinstance(st, _ast.stmt) and norm(st).startswith(anchor):
                        if isinstance(extent, int):
                            if len(blk[i:i + extent]) == extent:
                                found.append(blk[i:i + extent])
                        else:
                            ends = [j for j in range(i, len(blk)) if norm(blk[j]).startswith(extent[1])]
                            if ends:
                                found.append(blk[i:ends[0] + 1])
    if len(found) != 1:
        return None
    return found[0]



class FragmentContract(Contract):
    """contract on a fragment of a function: the body of the loop with the given ordinal, executed once
    from an arbitrary state described by make_env (sound for "every iteration does exactly this";
    how often and for which values the loop runs is outside the fragment's contract)."""
    loop_ordinal = None
    is_fragment = True

    def make_env(self, cfg, A):
        raise NotImplementedError

    def post_env(self, before, after, outcome, cfg):
        return []


def verify_fragment(world, contract, report=None, only_cfg=None, scope=None, deadline=None):
    from .interp import Frame, loop_ordinals, _Continue, _Break, _Return
    import ast as _ast
    t0 = time.time()
    rep = report or FunctionReport(contract.qualname)
    short = contract.qualname.replace('tangermeme.', '') + '#loop%s-body' % contract.loop_ordinal
    try:
        pyfn = world.bind.resolve(contract.qualname)
        fd = world.bind.function_ast(pyfn)
    except (BindError, ImportError, AttributeError) as e:
        rep.unsupported.append(('bind', str(e)))
        return rep
    ids = loop_ordinals(fd)
    node = None
    rng = getattr(contract, 'stmt_range', None)
    if rng is not None:
        # a run of top-level statements [start anchor, stop anchor)
        norm = lambda st: _ast.unparse(st).replace('\n', ' ')
        i0 = [i for i, st in enumerate(fd.body) if norm(st).startswith(rng[0])]
        i1 = [i for i, st in enumerate(fd.body) if norm(st).startswith(rng[1])]
        if len(i0) != 1 or len(i1) != 1 or i1[0] <= i0[0]:
            rep.unsupported.append(('bind', 'statement range %r not found uniquely' % (rng,)))
            return rep
        node = types.SimpleNamespace(body=fd.body[i0[0]:i1[0]])
        short = contract.qualname.replace('tangermeme.', '') + '#stmts'
    elif getattr(contract, 'stmt_block', None) is not None:
        # `count` consecutive statements of some (nested) block, starting at the statement whose text
        # starts with the anchor
        blk_ = find_stmt_block(fd, contract.stmt_block)
        if blk_ is None:
            rep.unsupported.append(('bind', 'statement block %r not found uniquely' % (contract.stmt_block,)))
            return rep
        found = [blk_]
        node = types.SimpleNamespace(body=found[0])
        short = contract.qualname.replace('tangermeme.', '') + '#block'
    else:
        for n in _ast.walk(fd):
            if isinstance(n, (_ast.For, _ast.While)) and ids.get(id(n)) == contract.loop_ordinal:
                node = n
        if node is None:
            rep.unsupported.append(('bind', 'loop %d not found' % contract.loop_ordinal))
            return rep
    for cfg in contract.configs():
        cname = contract.cfg_name(cfg)
        if only_cfg is not None and cname != only_cfg:
            continue
        rep.configs.append(cname)
        work = [[]]
        while work:
            if deadline is not None and time.time() > deadline:
                rep.unsupported.append((cname, 'path exploration stopped at its time budget (%d paths pending)' % len(work)))
                break
            prefix = work.pop()
            ctx = Ctx(prefix, fname='%s[%s]' % (short, cname), opts={'small_scope': scope is not None})
            ctx.modifies = set(contract.modifies)
            ctx.frame_checked = False
            # a fragment starts from an assumed context: a refuted obligation is a violation only when
            # the contract's replay confirms it on the whole real function
            ctx.approx = True
            interp = Interp(ctx, world)
            outcome = None
            try:
                A = ArgFactory(ctx, scope)
                env = contract.make_env(cfg, A)
                before = NS(**{k: freeze(v) for k, v in env.items()})
                fr = Frame(interp, dict(env), pyfn, contract.qualname)
                fr.is_fragment = True
                fr.loop_ids = ids
                if world.is_numba(pyfn, fd):
                    ctx.safety = True
                    ctx.opts['numba_error_model'] = world.numba_error_model(fd)
                try:
                    fr.block(node.body)
                    outcome = 'completed'
                except _Continue:
                    outcome = 'continue'
                except _Break:
                    outcome = 'break'
                except SymRaise as e:
                    outcome = 'raise:' + e.kind
            except PathEnd:
                outcome = None
            except Unsupported as e:
                rep.unsupported.append((cname, str(e)))
                work.extend(ctx.pending)
                rep.obligations.extend(ctx.obls)
                continue
            except Exception as e:
                rep.unsupported.append((cname, 'contract not applicable to the current code (%s: %s)' % (type(e).__name__, str(e)[:160])))
                work.extend(ctx.pending)
                rep.obligations.extend(ctx.obls)
                continue
            work.extend(ctx.pending)
            rep.trusted |= ctx.trusted
            if outcome is not None:
                rep.paths += 1
                if outcome.startswith('raise'):
                    rep.raises += 1
                else:
                    rep.returns += 1
                pid = ''.join('1' if d else '0' for d in ctx.taken) or 'e'
                try:
                    after = NS(**fr.env)
                    contract._ctx = ctx      # ghost state of the path (axiom instances a clause may want to name)
                    for label, f in contract.post_env(before, after, outcome, cfg):
                        ctx.oblige('p%s/ensures:%s' % (pid, label), f, 'ensures')
                except Unsupported as e:
                    rep.unsupported.append((cname, 'contract evaluation: ' + str(e)))
                except Exception as e:
                    rep.unsupported.append((cname, 'contract evaluation not applicable (%s: %s)' % (type(e).__name__, str(e)[:160])))
            rep.obligations.extend(ctx.obls)
    rep.seconds = time.time() - t0
    return rep


def fragment_statements(world, contract):
    """the AST statements of a fragment contract in the current source"""
    import ast as _ast
    from .interp import loop_ordinals
    pyfn = world.bind.resolve(contract.qualname)
    fd = world.bind.function_ast(pyfn)
    norm = lambda st: _ast.unparse(st).replace('\n', ' ')
    rng = getattr(contract, 'stmt_range', None)
    if rng is not None:
        i0 = [i for i, st in enumerate(fd.body) if norm(st).startswith(rng[0])][0]
        i1 = [i for i, st in enumerate(fd.body) if norm(st).startswith(rng[1])][0]
        return pyfn, fd.body[i0:i1]
    blk = getattr(contract, 'stmt_block', None)
    if blk is not None:
        found = find_stmt_block(fd, blk)
        if found is None:
            raise BindError("fragment block not found uniquely")
        return pyfn, found
    ids = loop_ordinals(fd)
    for n in _ast.walk(fd):
        if isinstance(n, (_ast.For, _ast.While)) and ids.get(id(n)) == contract.loop_ordinal:
            return pyfn, n.body
    raise BindError("fragment not found")


def exec_fragment(world, contract, env):
    """run the REAL statements of the fragment (compiled from the current source, module globals of
    the function) on a concrete environment; returns (outcome, locals after)"""
    import ast as _ast
    import copy as _copy
    pyfn, stmts = fragment_statements(world, contract)
    names = [k for k in env if k.isidentifier() and not k.startswith('_')]
    # the statements run as the body of a one-iteration loop; how they leave it (fall through / continue / break)
    # is the fragment's outcome
    src = ("def __frag(__env):\n" + ''.join("    %s = __env[%r]\n" % (k, k) for k in names) +
           "    __outcome = 'break'\n    for __once in (0,):\n        pass\n        __outcome = 'completed'\n    else:\n"
           "        if __outcome != 'completed':\n            __outcome = 'continue'\n    return locals()\n")
    mod = _ast.parse(src)
    fn = mod.body[0]
    loop = [s_ for s_ in fn.body if isinstance(s_, _ast.For)][0]
    loop.body = [_copy.deepcopy(s_) for s_ in stmts] + loop.body[1:]
    _ast.fix_missing_locations(mod)
    g = dict(getattr(pyfn, '__globals__', {}))
    exec(compile(mod, '<fragment:%s>' % getattr(contract, 'key', contract.qualname), 'exec'), g)
    try:
        loc = g['__frag'](dict(env))
        return loc.get('__outcome', 'completed'), loc
    except Exception as e:
        return 'raise:' + type(e).__name__, {'__exc__': repr(e)}


def replay_fragment_generic(world, contract, cfg, concrete_env):
    """concrete interpretation of a fragment contract: real statements + post_env on real values"""
    from .concrete import wrap
    import copy as _copy
    before = NS(**{k: wrap(_copy.deepcopy(v), k) for k, v in concrete_env.items()})
    outcome, loc = exec_fragment(world, contract, _copy.deepcopy(concrete_env))
    if outcome.startswith('raise:NameError') or outcome.startswith('raise:UnboundLocalError'):
        # the real statements read a name that the contract's pre-state does not provide: the code around the
        # fragment changed, the contract does not apply - no verdict from this replay
        return []
    if outcome.startswith('raise'):
        after = NS(**{k: wrap(v, k) for k, v in concrete_env.items()})
    else:
        after = NS(**{k: wrap(v, k) for k, v in loc.items() if not k.startswith('__')})
    viol = []
    try:
        for label, f in contract.post_env(before, after, outcome, cfg):
            if not bool(f):
                viol.append('%s false after running the real statements on %s' % (label, {k: (v.tolist() if hasattr(v, 'tolist') else v) for k, v in concrete_env.items() if not k.startswith('_')}))
    except Exception as e:
        viol.append('contract evaluation failed: %r' % (e,))
    return viol
