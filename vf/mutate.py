"""In-memory mutants of repository functions (DESIGN §2.9): source text -> exec, nothing is written
to /repo.  Used by the self-test of the engine: each mutant must turn at least one named obligation
from unsat to not-unsat, the unchanged source must keep every obligation unsat."""
import ast
import importlib
import inspect
import sys
import textwrap
import types


def mutated_world_function(world, qualname, old, new, count=1):
    """returns (pyfn, node) for the function with `old` replaced by `new` in its module source"""
    modname, _, fname = qualname.rpartition('.')
    mod = importlib.import_module(modname)
    path = inspect.getsourcefile(mod)
    src = open(path).read()
    pyfn = getattr(mod, fname)
    pyfn = getattr(pyfn, 'py_func', pyfn)
    lines, first = inspect.getsourcelines(pyfn)
    text = ''.join(lines)
    if text.count(old) < 1:
        raise ValueError("mutation anchor %r not found in %s" % (old, qualname))
    newtext = text.replace(old, new, count)
    tree = ast.parse(textwrap.dedent(newtext))
    node = tree.body[0]
    # strip numba decorators for the in-memory function object (the AST keeps them)
    tree2 = ast.parse(textwrap.dedent(newtext))
    tree2.body[0].decorator_list = []
    code = compile(tree2, '<mutant:%s>' % qualname, 'exec')
    g = dict(pyfn.__globals__)
    exec(code, g)
    f = g[fname]
    f.__module__ = modname
    return f, node


class MutantBinder:
    """wraps a Binder so that one qualname resolves to the mutant"""

    def __init__(self, base, qualname, pyfn, node):
        self.base = base
        self.qualname = qualname
        self.pyfn = pyfn
        self.node = node
        self.records = base.records

    def resolve(self, qualname):
        if qualname == self.qualname:
            return self.pyfn
        return self.base.resolve(qualname)

    def unwrap(self, obj):
        return self.base.unwrap(obj)

    def function_ast(self, pyfn):
        f = getattr(pyfn, 'py_func', pyfn)
        if f is self.pyfn or (getattr(f, '__name__', None) == self.pyfn.__name__ and getattr(f, '__module__', None) == self.pyfn.__module__):
            return self.node
        return self.base.function_ast(pyfn)
