"""Bounded driver in its own process (python -m vf.bworker <driver module> <pid> <tier> <seed> <budget> <out> <progress>).

The drivers call the REAL functions, including numba-compiled kernels: a change to /repo can make such a
call crash the interpreter or never return.  The parent (vf.run) watches the progress file; the worker
writes a heartbeat at every counted case and registers faulthandler so that the parent can obtain the
Python stack of a stalled worker before killing it."""
import faulthandler
import importlib
import json
import os
import signal
import sys
import time
import traceback


def main():
    modname, pid, tier, seed, budget, out, progress = sys.argv[1:8]
    import warnings
    warnings.filterwarnings('ignore')
    tb = open(progress + '.stack', 'w')
    faulthandler.enable(file=tb)                       # SIGSEGV / SIGFPE / SIGABRT: stack of the crashing call
    faulthandler.register(signal.SIGUSR1, file=tb, all_threads=False)
    from vf.bounded import BoundedReport
    rep = BoundedReport(pid, tier, int(seed), float(budget))
    last = [0.0]
    orig_case = rep.case

    def beat(force=False):
        now = time.time()
        if force or now - last[0] > 0.5:
            last[0] = now
            try:
                with open(progress, 'w') as f:
                    json.dump({'t': now, 'evaluations': rep.evaluations, 'sections': rep.sections,
                               'last_sample': (rep.samples[-1] if rep.samples else None)}, f, default=str)
            except Exception:
                pass

    def case(*a, **k):
        r = orig_case(*a, **k)
        beat()
        return r
    rep.case = case
    beat(True)
    mod = importlib.import_module(modname)
    crash = None
    try:
        mod.run(rep)
    except Exception:
        crash = traceback.format_exc()[-1200:]
    res = {'summary': rep.summary(mod.SCOPE[tier]), 'violations': rep.violations, 'crash': crash, 'evaluations': rep.evaluations}
    with open(out, 'w') as f:
        json.dump(res, f, default=str)
    beat(True)


if __name__ == '__main__':
    main()
