"""Bounded stand-in layer (DESIGN §2.8): drivers that call the REAL functions on enumerated / seeded
random inputs and compare with an independent oracle.  Everything established here is reported
under `bounded` with its scope and is never added to `discharged`.

A driver module bounded/Cxx.py exposes

    SCOPE = {'quick': '...', 'thorough': '...'}      # human-readable statement of the bound
    def run(rep):      # rep: BoundedReport; rep.tier, rep.seed, rep.rng (random.Random), rep.left()
    def replay(case):  # case: the JSON dict stored by rep.violation(...); returns a list of
                       # violation strings (empty = the stored case no longer violates)
"""
import hashlib
import json
import random
import time


class BoundedReport:
    def __init__(self, pid, tier, seed, budget_s):
        self.pid = pid
        self.tier = tier
        self.seed = seed
        self.rng = random.Random(seed)
        self.t0 = time.time()
        self.budget_s = budget_s
        self.evaluations = 0
        self.distinct = set()
        self.nontrivial = set()
        self.samples = []
        self.violations = []
        self.sections = {}
        self.notes = []
        self.exhaustive = []

    def left(self):
        return self.budget_s - (time.time() - self.t0)

    def out_of_time(self):
        return self.left() <= 0

    def case(self, key, nontrivial=True, sample=None, section=None):
        """count one evaluated case. key: hashable/JSON-able identity of the case"""
        self.evaluations += 1
        h = hashlib.sha1(repr(key).encode()).hexdigest()[:16]
        self.distinct.add(h)
        if nontrivial:
            self.nontrivial.add(h)
        if section:
            self.sections[section] = self.sections.get(section, 0) + 1
        if sample is not None and len(self.samples) < 6 and (section is None or self.sections.get(section, 0) <= 2):
            self.samples.append(sample)

    def violation(self, what, case, finding=None):
        """what: short description of the failed clause; case: JSON-able dict sufficient for
        replay(case); finding: stable key of the input class (matched against known_findings.json)"""
        self.violations.append({'what': what, 'case': case, 'finding': finding})

    def note(self, s):
        self.notes.append(s)

    def mark_exhaustive(self, what):
        self.exhaustive.append(what)

    def summary(self, scope):
        return {'scope': scope, 'evaluations': self.evaluations, 'distinct': len(self.distinct),
                'distinct_nontrivial': len(self.nontrivial), 'sections': self.sections,
                'exhaustive_parts': self.exhaustive, 'samples': self.samples, 'notes': self.notes,
                'seconds': round(time.time() - self.t0, 2), 'violations': len(self.violations)}
