"""World: name resolution, library dispatch, opaque callables (assumed contracts), loop specs."""
import ast
import types
import z3

from . import ops as O
from .ops import And, Or, Not, ite
from .tensor import Tn, Unsupported, basic_index
from .values import (SymRaise, PathEnd, SStr, DType, Opaque, LibFn, BoundMethod, RepoFn, PyType,
                     Iter, CatList, StackList, UNDEF, ModuleRef)
from . import lib as L
from .bind import Binder

DTYPES = {'int8', 'int16', 'int32', 'int64', 'uint8', 'uint64', 'float16', 'float32', 'float64', 'bool', 'long',
          'float', 'double', 'half', 'int', 'uint16', 'uint32', 'bfloat16'}

MODULE_ALIASES = {'np': 'numpy', 'F': 'torch.nn.functional', 'pd': 'pandas'}


class LoopSpec:
    def __init__(self, inv, abstract=None, lists=None, on_break=None, after=None, extra_mutated=None):
        self.inv = inv
        self.abstract = abstract
        self.lists = lists
        self.on_break = on_break
        self.after = after
        self.extra_mutated = extra_mutated
        self.old_env = None


def defined_loop(defs, extra=None, shapes=None, **kw):
    """loop whose mutated / grown variables are *defined* at every iteration count `it` by a
    specification (data structure against an abstract view): defs[name](fr, it) -> value.
    The invariant is "variable == its definition at it"; the havoc installs the definition."""
    from .contract import same

    def mk(name):
        return lambda fr, v, it: defs[name](fr, it)

    def inv(E, fr):
        out = []
        for name in sorted(defs):
            if name not in E:
                continue
            out.extend(same(getattr(E, name), defs[name](fr, E.it), name))
        if extra is not None:
            out.extend(extra(E, fr))
        return out
    abstract = {n: mk(n) for n in defs}
    # variables of which only the shape matters after the loop: fresh content, specified shape
    for n, f in (shapes or {}).items():
        abstract[n] = (lambda f: (lambda fr, v, it: f(fr, it)))(f)
    return LoopSpec(inv, abstract=abstract, **kw)


class World:
    def __init__(self):
        from . import lib_text  # noqa: registers text-line handlers
        self.bind = Binder()
        self.lib = dict(L.LIB)
        self.methods = dict(L.METHODS)
        self.contracts = {}      # qualname -> Contract
        self.loops = {}          # (qualname, ordinal) -> LoopSpec
        self.call_contracts_enabled = True
        self.inline_only = set()

    # ---- registry
    def register(self, c):
        self.contracts[c.qualname] = c
        for k, v in (c.loops() or {}).items():
            self.loops[(c.qualname, k)] = v

    def register_fragment(self, c):
        """fragment / prefix contracts are addressed by their key and never used at call sites"""
        self.contracts[c.key] = c
        c._world = self
        for k, v in (c.loops() or {}).items():
            self.loops[(c.qualname, k)] = v

    def loop_spec(self, qualname, ordinal):
        ls = self.loops.get((qualname, ordinal))
        if ls is None:
            return None
        # a fresh copy per use (old_env is per-path state)
        return LoopSpec(ls.inv, ls.abstract, ls.lists, ls.on_break, ls.after, ls.extra_mutated)

    def contract_for_call(self, qualname, ctx):
        if not self.call_contracts_enabled:
            return None
        c = self.contracts.get(qualname)
        if c is None or not c.use_at_calls or qualname in self.inline_only:
            return None
        return c

    def is_numba(self, pyfn, fd):
        for d in fd.decorator_list:
            s = ast.unparse(d)
            if 'njit' in s or 'numba.jit' in s or s.startswith('jit'):
                return True
        return False

    def numba_error_model(self, fd):
        for d in fd.decorator_list:
            s = ast.unparse(d).replace('"', "'")
            if "error_model='numpy'" in s:
                return 'numpy'
        return 'python'

    # ---- names
    def convert_global(self, name, v):
        if isinstance(v, types.ModuleType):
            return ModuleRef(v.__name__)
        if hasattr(v, 'py_func'):
            f = v.py_func
            return RepoFn(f, f.__module__ + '.' + f.__qualname__)
        if isinstance(v, types.FunctionType):
            mod = getattr(v, '__module__', '') or ''
            if mod.startswith('tangermeme'):
                return RepoFn(v, mod + '.' + v.__qualname__)
            return LibFn(mod + '.' + v.__name__)
        if isinstance(v, type):
            mod = getattr(v, '__module__', '')
            nm = mod + '.' + v.__name__
            if v.__name__ in ('tqdm', 'trange'):
                return LibFn(v.__name__)
            return LibFn(nm)
        if isinstance(v, (int, float, str, bool)) or v is None:
            return v
        if isinstance(v, dict) and len(v) <= 64:
            from .values import GlobalDict
            d = GlobalDict()
            d.gname = name
            for k, x in v.items():
                kk = self.convert_global('%s.key' % name, k)
                if isinstance(kk, (LibFn, DType)):
                    kk = ('libref', kk.name)
                d[kk] = self.convert_global('%s[%r]' % (name, k), x)
            return d
        if isinstance(v, (list, tuple)) and len(v) <= 64 and all(isinstance(x, (int, float, str, bool, type(None))) for x in v):
            from .values import GlobalList
            if isinstance(v, tuple):
                return tuple(v)
            l = GlobalList(v)
            l.gname = name
            return l
        if callable(v):
            nm = getattr(v, '__name__', None)
            mod = getattr(v, '__module__', '') or ''
            if nm in ('trange', 'tqdm'):
                return LibFn(nm)
            return LibFn(mod + '.' + (nm or name))
        raise Unsupported("global %s of type %s" % (name, type(v).__name__))

    def resolve_dotted(self, dotted):
        parts = dotted.split('.')
        root = MODULE_ALIASES.get(parts[0], parts[0])
        dotted = '.'.join([root] + parts[1:])
        last = parts[-1]
        if root in ('torch', 'numpy') and last in DTYPES and len(parts) == 2:
            return DType(last)
        if dotted in ('numpy.inf', 'math.inf'):
            return O.PINF
        if dotted in ('torch.Tensor', 'numpy.ndarray', 'pandas.DataFrame', 'pandas.Series',
                      'numpy.random.RandomState', 'torch.nn.Parameter', 'torch.masked.MaskedTensor'):
            return LibFn(dotted)
        return LibFn(dotted)

    # ---- calls
    def lib_call(self, fr, name, args, kwargs, site=None):
        f = self.lib.get(name)
        if f is None and name.startswith('builtins.'):
            f = self.lib.get(name)
        if f is None:
            # tangermeme functions reached through module attributes
            if name.startswith('tangermeme.'):
                try:
                    obj = self.bind.resolve(name)
                    return fr.I.call_repo(RepoFn(obj, obj.__module__ + '.' + obj.__qualname__), args, kwargs)
                except (ImportError, AttributeError):
                    pass
            raise Unsupported("library function %s has no semantics in vf/lib" % name)
        if name in ('getitem', 'setitem'):
            return f(fr, *args, **kwargs)
        return f(fr, *args, **kwargs)

    def method_call(self, fr, obj, name, args, kwargs, site=None):
        if isinstance(obj, Tn):
            f = self.methods.get('Tn.' + name)
            if f is None:
                raise Unsupported("tensor method %s" % name)
            return f(fr, obj, *args, **kwargs)
        if isinstance(obj, Opaque):
            f = self.methods.get(obj.cls + '.' + name)
            if f is None:
                raise Unsupported("method %s.%s" % (obj.cls, name))
            return f(fr, obj, *args, **kwargs)
        tn = type(obj).__name__
        from .values import GlobalDict, GlobalList
        if isinstance(obj, (GlobalDict, GlobalList)):
            tn = 'dict' if isinstance(obj, dict) else 'list'
            if name in ('update', 'pop', 'setdefault', 'clear', 'popitem', 'append', 'extend', 'insert', 'remove', 'sort', 'reverse'):
                fr.ctx.oblige('frame:no-write-to-module-state:%s' % obj.gname, False, 'frame')
        if O.is_sym(obj) or isinstance(obj, (int, float)):
            tn = 'scalar'
        f = self.methods.get(tn + '.' + name)
        if f is None:
            raise Unsupported("method %s.%s" % (tn, name))
        return f(fr, obj, *args, **kwargs)

    def opaque_call(self, fr, f, args, kwargs, site=None):
        h = self.lib.get('call:' + f.cls)
        if h is None:
            raise Unsupported("call of opaque %r" % (f,))
        return h(fr, f, *args, **kwargs)


# ---------------------------------------------------------------------------------------------
# Assumed contract of row-wise callables (model, func): DESIGN §2.2.8.
# out_o[r, t...] = M_o(row r of X, row r of each extra argument, t...)   — an uninterpreted function
# of the row *contents* (z3 lambda arrays, clamped to the row's shape) and the row shapes.

_MFUNS = {}


def row_lambda(t, r):
    """(array term, dims) describing row r of tensor t, content clamped to the row's box"""
    rank = t.rank - 1
    if rank == 0:
        v = O.to_z3(t.elem(r))
        return v, []
    idx = [z3.Int('rw%d' % i) for i in range(rank)]
    body = O.to_z3(t.elem(r, *idx))
    zero = z3.RealVal(0) if z3.is_real(body) else (z3.BoolVal(False) if z3.is_bool(body) else z3.IntVal(0))
    inb = And(*[And(0 <= i, i < d) for i, d in zip(idx, t.shape[1:])])
    body = z3.If(O.to_z3(inb), body, zero) if inb is not True else body
    return z3.Lambda(idx, body), [O.to_z3(d) for d in t.shape[1:]]


def mfun(name, o, arg_sorts, ntrail, out_sort=None):
    key = (name, o, tuple(str(s) for s in arg_sorts), ntrail)
    if key not in _MFUNS:
        _MFUNS[key] = z3.Function('%s.out%d' % (name, o), *arg_sorts, *([z3.IntSort()] * ntrail), out_sort or z3.RealSort())
        O.CONGRUENT_DECLS.add('%s.out%d' % (name, o))
    return _MFUNS[key]


class RowWise:
    """description of an assumed row-wise callable.
    k: None (returns one tensor) or number of outputs; tuple_kind: 'tuple' | 'list';
    trailing: per-output list of trailing dims (terms)"""

    def __init__(self, name, k=None, tuple_kind='tuple', trailing=None, kinds=None, recording=False):
        self.name = name
        self.k = k
        self.tuple_kind = tuple_kind
        self.trailing = trailing or [[]]
        self.kinds = kinds
        self.recording = recording   # small-scope / concrete mode: exact-integer recording semantics

    def apply_rows(self, tensors):
        """tensors: list of Tn with equal leading dim (X then extra args).  Returns list over
        outputs of Tn with leading dim = that of X."""
        X = tensors[0]
        outs = []
        n = 1 if self.k is None else self.k
        rec = self.recording and all(O.is_conc(d) for tt in tensors for d in tt.shape[1:])
        if self.recording and not rec:
            raise Unsupported("recording semantics need concrete row shapes")
        for o in range(n):
            tr = self.trailing[o]
            name = self.name
            if rec:
                from .models import wgt, bias, P0, P1
                import itertools as _it

                def content(r, *t, _o=o):
                    total = bias(_o)
                    for k, tt in enumerate(tensors):
                        dims = [O.conc_int(d) for d in tt.shape[1:]]
                        for pos, idx in enumerate(_it.product(*[range(d) for d in dims])):
                            v = tt.elem(r, *idx)
                            if isinstance(v, bool) or (O.is_sym(v) and z3.is_bool(v)):
                                v = ite(v, 1, 0)
                            total = total + wgt(_o, k, pos) * v
                    if len(t) >= 1:
                        total = total + P0 * t[0]
                    if len(t) >= 2:
                        total = total + P1 * t[1]
                    return total
                outs.append(Tn.fresh([X.shape[0]] + list(tr), content, 'real', origin='fresh:' + self.name))
                continue

            def content(r, *t, _o=o, _tr=tr):
                zs, sorts = [], []
                for tt in tensors:
                    arr, dims = row_lambda(tt, r)
                    zs.append(arr)
                    sorts.append(arr.sort())
                    for d in dims:
                        zs.append(d)
                        sorts.append(z3.IntSort())
                f = mfun(name, _o, sorts, len(_tr))
                return f(*zs, *[O.to_z3(x) for x in t])
            outs.append(Tn.fresh([X.shape[0]] + list(tr), content, 'real', origin='fresh:' + self.name))
        return outs

    def at(self, o, rows, t=()):
        """M_o applied to explicit rows (Tn without the leading example dimension)"""
        ts = [r.unsqueeze(0) for r in rows]
        return self.apply_rows(ts)[o].elem(0, *t)

    def package(self, outs):
        if self.k is None:
            return outs[0]
        return tuple(outs) if self.tuple_kind == 'tuple' else list(outs)


@L.lib('call:model')
def _call_model(fr, m, X, *args):
    ctx = fr.ctx
    rw = m.attrs['rowwise']
    ctx.events.append(('model_call', m.attrs.get('training'), ctx.ghost['grad_enabled']))
    # the model is assumed row-wise IN EVALUATION MODE (a BatchNorm / Dropout layer in training mode mixes or
    # randomises the rows): every module of the model must have been put into eval mode before the call.  Ghost
    # state: `training` = the flag of the top module (what model.training reads), `sub_training` = some
    # descendant is in training mode; model.eval() clears both.
    if m.attrs.get('require_eval_nograd') or m.attrs.get('require_eval'):
        isf = lambda x: True if x is False else (False if (x is True or x is None) else Not(x))
        # predict (C03) promises evaluation mode: a genuine obligation.  Elsewhere it is the validity condition of the
        # row-wise assumption: if it fails the proof does not apply (undecided), it is not a verdict on the property
        ctx.oblige('model-call:eval-mode', And(isf(m.attrs.get('training')), isf(m.attrs.get('sub_training', False))),
                   'ghost' if m.attrs.get('require_eval_nograd') else 'assumed-pattern')
    if m.attrs.get('require_eval_nograd'):
        ctx.oblige('model-call:grad-disabled', ctx.ghost['grad_enabled'] is False, 'ghost')
    ts = [X] + list(args)
    for t in ts:
        if not isinstance(t, Tn):
            raise Unsupported("model called with non-tensor")
    if len(args) != m.attrs.get('n_args', len(args)):
        raise SymRaise('TypeError')
    for t in ts[1:]:
        # the assumed contract only speaks about equal leading dimensions
        L.require_eq(ctx, X.shape[0], t.shape[0], 'RuntimeError')
    if m.attrs.get('may_raise'):
        # the forward pass of a user model may fail at any call (C07: any crash point) - with an ordinary
        # exception or with a BaseException (an interrupt) that `except Exception` does not catch
        k = ctx.choose(3)
        if k < 2:
            ctx.events.append(('model_forward_raises',))
            raise SymRaise('RuntimeError' if k == 0 else 'KeyboardInterrupt', site='model-forward')
    outs = rw.apply_rows(ts)
    ctx.ghost['last_model_call'] = {'model': m, 'inputs': ts, 'outs': outs, 'hooks': ctx.ghost.get('dls_hooks', False)}
    return rw.package(outs)


@L.method('model.to')
def _model_to(fr, m, *a, **k):
    return m


@L.method('model.eval')
def _model_eval(fr, m):
    m.attrs['training'] = False
    m.attrs['sub_training'] = False
    return m


@L.method('model.modules')
def _model_modules(fr, m):
    """the sub-modules of a model: an unknown number (>= 1) of objects carrying scratch attributes"""
    n = m.attrs.get('n_modules')
    if n is None:
        n = O.fresh_int('n_modules')
        fr.ctx.assume(n >= 1)
        m.attrs['n_modules'] = n
    return Iter(n, lambda i: Opaque('module', 'nn_module', {}))


@L.method('model.apply')
def _model_apply(fr, m, fn):
    """model.apply(_register_hooks) / model.apply(_clear_hooks) of tangermeme.deep_lift_shap: ghost
    state `dls_hooks` = the DeepLIFT forward/backward hooks may be registered on the model.  Registration
    may fail half-way (C07); clearing is assumed total (handle.remove() does not raise)."""
    ctx = fr.ctx
    q = getattr(fn, 'qualname', None)
    if q == 'tangermeme.deep_lift_shap._register_hooks':
        ctx.ghost['dls_hooks'] = True
        ctx.events.append(('hooks_registered',))
        if m.attrs.get('may_raise'):
            # registration may fail half-way with an ordinary exception or be interrupted (a BaseException
            # that `except Exception` does not catch)
            k = ctx.choose(3)
            if k == 0:
                raise SymRaise('RuntimeError', site='register-hooks')
            if k == 1:
                raise SymRaise('KeyboardInterrupt', site='register-hooks')
        return m
    if q == 'tangermeme.deep_lift_shap._clear_hooks':
        ctx.ghost['dls_hooks'] = False
        ctx.events.append(('hooks_cleared',))
        return m
    raise Unsupported("model.apply(%r)" % (fn,))


@L.lib('torch.autograd.grad')
def _autograd_grad(fr, out, inp, *a, **k):
    """ASSUMED contract of autograd + the DeepLIFT hooks for a row-wise model (DESIGN 10, C04-C06):
    if `out` is sum_r model(X_, *args_)[r, target] of the last forward pass, X_ = [inp; R] (h rows
    each), the args doubled likewise, and the hooks are registered, then the gradient with respect to
    row r of `inp` is a function DLGRAD of (inp[r], R[r], args[r], target) only."""
    ctx = fr.ctx
    last = ctx.ghost.get('last_model_call')
    if last is None or not isinstance(inp, Tn) or inp.rank < 2:
        raise Unsupported("autograd.grad outside the modelled DeepLIFT pattern")
    if not ctx.ghost.get('grad_enabled'):
        raise SymRaise('RuntimeError', site='autograd.grad')
    m = last['model']
    rw = m.attrs['rowwise']
    if rw.k is not None or len(rw.trailing[0]) != 1:
        raise Unsupported("autograd.grad: model output is not (batch, n_targets)")
    Xc, outs = last['inputs'][0], last['outs'][0]
    h = inp.shape[0]
    if Xc.rank != inp.rank:
        raise Unsupported("autograd.grad: rank mismatch")
    # the scalar must be the sum over the whole batch of one output column: find the column
    o = L.unwrap_scalar(out)
    T = rw.trailing[0][0]
    tcol = ctx.ghost.get('dls_target')
    if tcol is None:
        raise Unsupported("autograd.grad: target column not declared by the contract")
    expect = L.Sum(0, Xc.shape[0], lambda r: outs.elem(r, tcol), 'real')
    ctx.oblige('autograd:scalar-is-batch-sum-of-target-column', O.smart_eq(O.to_z3(o), O.to_z3(expect)), 'assumed-pattern')
    ctx.oblige('autograd:batch-is-[examples;references]',
               And(O.eq(Xc.shape[0], 2 * h), O.forall(list(inp.shape), lambda *i: O.eq(Xc.elem(*i), inp.elem(*i)))), 'assumed-pattern')
    ctx.oblige('autograd:hooks-registered', ctx.ghost.get('dls_hooks', False) is True, 'ghost')
    if m.attrs.get('may_raise') and ctx.choose(2) == 0:
        ctx.events.append(('backward_raises',))
        raise SymRaise('RuntimeError', site='backward')
    halves = []
    for t in last['inputs']:
        parts = getattr(t, 'cat_parts', None)
        if parts is not None and len(parts) == 2 and ctx.entails(O.eq(parts[0][1], h)) and ctx.entails(O.eq(parts[1][1], h)):
            # the batch was built as cat([a, b]) with h rows each: its halves are a and b themselves
            halves.append(parts[0][0])
            halves.append(parts[1][0])
            continue
        snap = t.snapshot()
        halves.append(Tn.fresh([h] + list(t.shape[1:]), snap, t.kind, lib=t.lib))
        halves.append(Tn.fresh([h] + list(t.shape[1:]), (lambda *i, _s=snap: _s(i[0] + h, *i[1:])), t.kind, lib=t.lib))
    ctx.trusted.add('assumed: torch.autograd.grad of the batch-summed target column with the DeepLIFT hooks registered is, per example '
                    'row, a function of that row, its paired reference row (row + h), their extra arguments and the target')
    return (dl_grad(m, halves, tcol, list(inp.shape)),)


def dl_grad(m, ins, tcol, shape):
    """the assumed per-pair DeepLIFT multiplier function: rows of `ins` = (example row, reference row,
    then every extra argument's row for the example half and for the reference half), target column"""
    rw = m.attrs['rowwise']
    h = shape[0]
    if rw.recording:
        # the recording model is linear in its inputs: its multipliers are its weights
        from .models import wgt
        import itertools as _it
        dims = [O.conc_int(d) for d in shape[1:]]

        def content(r, *idx):
            out_ = 0
            for q, jj in enumerate(_it.product(*[range(d) for d in dims])):
                hit = And(*[O.eq(a_, b_) for a_, b_ in zip(idx, jj)])
                if hit is True:
                    return wgt(0, 0, q)
                if hit is not False:
                    out_ = ite(hit, wgt(0, 0, q), out_)
            return out_
        return Tn.fresh(list(shape), content, 'real')
    tgt = Tn.fresh([h], lambda r: tcol, 'int')
    g = RowWise('DLGRAD.' + rw.name, None, 'tuple', [list(shape[1:])])
    return g.apply_rows(list(ins) + [tgt])[0]


# ---- ghost model of one torch module's hook dictionaries (C07): sizes of the three dictionaries and, of
# those, how many were put there by deep_lift_shap (the *_hook functions of tangermeme.deep_lift_shap)
_HOOK_DICTS = {'register_forward_hook': ('nf', 'dls_f', '_f_hook'), 'register_forward_pre_hook': ('np', 'dls_p', '_fp_hook'),
               'register_full_backward_hook': ('nb', 'dls_b', '_b_hook')}


def _register_hook_method(which):
    size, dls, hookname = _HOOK_DICTS[which]

    def reg(fr, mod, fn):
        g = mod.attrs['ghost']
        is_dls = getattr(fn, 'qualname', '') == 'tangermeme.deep_lift_shap.' + hookname
        g[size] = g[size] + 1
        if is_dls:
            g[dls] = g[dls] + 1
        fr.ctx.events.append(('hook_registered', which, is_dls))
        return Opaque('handle', 'hook_handle', {'module': mod, 'size': size, 'dls': dls if is_dls else None, 'live': True})
    return reg


for _w in _HOOK_DICTS:
    L.method('nn_module.' + _w)(_register_hook_method(_w))


@L.method('hook_handle.remove')
def _handle_remove(fr, hd):
    if hd.attrs['live']:
        g = hd.attrs['module'].attrs['ghost']
        g[hd.attrs['size']] = g[hd.attrs['size']] - 1
        if hd.attrs['dls']:
            g[hd.attrs['dls']] = g[hd.attrs['dls']] - 1
        hd.attrs['live'] = False
    return None


@L.lib('getattr:nn_module')
def _nn_module_getattr(fr, mod, a):
    g = mod.attrs.get('ghost')
    if g is not None and a in ('_backward_hooks', '_forward_hooks', '_forward_pre_hooks'):
        key = {'_backward_hooks': 'nb', '_forward_hooks': 'nf', '_forward_pre_hooks': 'np'}[a]
        return Opaque(a, 'hookdict', {'module': mod, 'key': key})
    return NotImplemented


@L.lib('len:hookdict')
def _len_hookdict(fr, d):
    return d.attrs['module'].attrs['ghost'][d.attrs['key']]


@L.lib('getattr:model')
def _model_getattr(fr, m, a):
    if a == 'training':
        return m.attrs.get('training')
    return NotImplemented


@L.method('model.train')
def _model_train(fr, m, mode=True):
    md = O.simp(mode)
    if md is True or md is False:
        m.attrs['training'] = md
        m.attrs['sub_training'] = md
        return m
    raise Unsupported("model.train with a symbolic mode")


@L.method('model.parameters')
def _model_parameters(fr, m):
    return Opaque('params', 'param_iter', {'model': m})


@L.lib('next:param_iter')
def _next_param(fr, it, *default):
    # a model may or may not have parameters
    if fr.ctx.choose(2) == 0:
        return Opaque('param', 'parameter', {'dtype': DType('model_dtype')})
    if default:
        return default[0]
    raise SymRaise('StopIteration')


@L.lib('call:func')
def _call_func(fr, f, model, X, *pos, args=None, **kw):
    """assumed contract of a user-supplied `func(model, X, args=..., **kwargs)`: row-wise in X and in
    every extra argument, rejects extra arguments whose leading dimension differs from X."""
    ctx = fr.ctx
    if pos:
        raise Unsupported("func called with extra positional arguments")
    rw = f.attrs['rowwise']
    ts = [X] + list(args or ())
    for t in ts:
        if not isinstance(t, Tn):
            raise Unsupported("func called with non-tensor")
    for t in ts[1:]:
        L.require_eq(ctx, X.shape[0], t.shape[0], 'ValueError')
    ctx.events.append(('func_call', sorted(kw.keys())))
    for k in f.attrs.get('forbid_kwargs', ()):
        if k in kw:
            raise SymRaise('TypeError')
    return rw.package(rw.apply_rows(ts))


@L.lib('inspect.signature')
def _signature(fr, f):
    import inspect
    if isinstance(f, RepoFn):
        names = list(inspect.signature(f.pyobj).parameters.keys())
    elif isinstance(f, Opaque):
        names = list(f.attrs.get('params', ['model', 'X', 'args', 'batch_size', 'device', 'verbose']))
    else:
        raise Unsupported("inspect.signature of %r" % (f,))
    return Opaque('signature', 'signature', {'parameters': {n: None for n in names}})


def shuffle_fn_result(f, X, n, start=None, end=None, seed=None):
    """assumed contract of a user-supplied shuffle function: some tensor of shape (batch, n,
    alphabet, length) that is a function of its arguments (X, start, end, n, random_state).
    Recording mode (small scope / concrete): shuffle j of example b = X[b] rolled right by j+1
    positions, as vf.models.RecordingShuffle."""
    start, end, n, seed = [L.unwrap_scalar(x) if isinstance(x, Tn) else x for x in (start, end, n, seed)]
    if f.attrs.get('recording'):
        Lc = O.conc_int(X.shape[2])
        snap = X.snapshot()
        sd = seed if seed is not None else 0
        return Tn.fresh([X.shape[0], n, X.shape[1], X.shape[2]],
                        lambda b, j, c, p: snap(b, c, O.mod(p - (j + 1 + sd), Lc)) if Lc > 0 else 0, X.kind, origin='fresh:shuffle_fn')
    idx = [z3.Int('sf%d' % i) for i in range(3)]
    body = O.to_z3(X.elem(*idx))
    inb = And(*[And(0 <= i, i < d) for i, d in zip(idx, X.shape)])
    arr = z3.Lambda(idx, z3.If(O.to_z3(inb), body, z3.IntVal(0)))
    scal = [O.to_z3(d) for d in X.shape] + [O.to_z3(x) if x is not None else z3.IntVal(-7777) for x in (start, end, n, seed)]
    g = z3.Function(f.name + '.val', arr.sort(), *([z3.IntSort()] * (len(scal) + 4)), z3.IntSort())
    O.CONGRUENT_DECLS.add(f.name + '.val')
    return Tn.fresh([X.shape[0], n, X.shape[1], X.shape[2]], lambda b, j, c, p: g(arr, *scal, *[O.to_z3(x) for x in (b, j, c, p)]),
                    'int', origin='fresh:shuffle_fn')


@L.lib('call:shuffle_fn')
def _call_shuffle_fn(fr, f, X, start=None, end=None, n=None, random_state=None, **kw):
    if not isinstance(X, Tn) or X.rank != 3:
        raise Unsupported("shuffle_fn on a non rank-3 tensor")
    fr.ctx.events.append(('shuffle_fn_call',))
    if random_state is None:
        fr.ctx.events.append(('unseeded_random_source', 'shuffle_fn(random_state=None)'))
        random_state = O.fresh_int('unseeded_tape')
    if f.attrs.get('may_raise') and fr.ctx.choose(2) == 0:
        raise SymRaise('ValueError', site='reference-generator')
    return shuffle_fn_result(f, X, n, start, end, random_state)


# ---------------------------------------------------------------------------------------------
# Random number generators as a fixed random tape (DESIGN 5 C02): every draw is a term
# DRAW(tape, position, ...) of a generator constructed from `random_state`; an integer seed IS the
# tape, so a result that only mentions (inputs, seed) is a deterministic function of them.

PERM = z3.Function('PERM', z3.IntSort(), z3.IntSort(), z3.IntSort(), z3.IntSort(), z3.IntSort())   # tape, pos, n, i
_perm_axioms_added = {}


def perm_axioms(tape, pos, n):
    """assumed contract of RandomState.shuffle: some permutation of [0, n) determined by the state"""
    i, j = z3.Ints('pi pj')
    t, p, nn = O.to_z3(tape), O.to_z3(pos), O.to_z3(n)
    return [z3.ForAll([i], z3.Implies(z3.And(0 <= i, i < nn), z3.And(PERM(t, p, nn, i) >= 0, PERM(t, p, nn, i) < nn))),
            z3.ForAll([i, j], z3.Implies(z3.And(0 <= i, i < nn, 0 <= j, j < nn, PERM(t, p, nn, i) == PERM(t, p, nn, j)), i == j))]


def make_rng(seed, fr=None):
    if seed is None:
        tape = O.fresh_int('unseeded_tape')
        if fr is not None:
            fr.ctx.events.append(('unseeded_random_source', 'RandomState(None)'))
    elif isinstance(seed, Opaque) and seed.cls == 'rng':
        return seed
    else:
        tape = seed
    return Opaque('rng', 'rng', {'tape': tape, 'pos': 0, 'types': ['numpy.random.RandomState', 'numpy.random.mtrand.RandomState']})


@L.lib('numpy.random.RandomState', 'numpy.random.mtrand.RandomState')
def _RandomState(fr, seed=None):
    if seed is not None and not (isinstance(seed, int) or (O.is_sym(seed) and z3.is_int(seed))):
        raise Unsupported("RandomState(%r)" % (seed,))
    return make_rng(seed, fr)


CHOICE = z3.Function('CHOICE', z3.IntSort(), z3.IntSort(), z3.IntSort(), z3.IntSort())   # tape, pos, i


@L.method('rng.choice')
def _rng_choice(fr, rng, a, size=None, replace=True, p=None):
    """assumed contract of RandomState.choice(a, size, p=p) for an integer population a and an integer size: a
    vector of `size` values in [0, a) determined by the generator state (draw number `pos` of the tape), the
    generator advances by one draw; probabilities that are not a distribution over [0, a) are rejected
    (uninterpreted predicate probs.valid; a length other than a is a ValueError)."""
    ctx = fr.ctx
    if not (isinstance(a, int) or (O.is_sym(a) and z3.is_int(a))) or size is None or isinstance(size, (tuple, list, Tn)) or replace is not True:
        raise Unsupported("RandomState.choice outside the modelled form choice(int, size=int, p=...)")
    ctx.may_raise(a <= 0, 'ValueError')
    ctx.may_raise(size < 0, 'ValueError')
    if p is not None:
        if not isinstance(p, Tn) or p.rank != 1:
            raise Unsupported("choice with probabilities that are not a vector")
        ctx.may_raise(O.ne(p.shape[0], a), 'ValueError')
        if ctx.branch(Not(z3.Bool('probs.valid'))):
            raise SymRaise('ValueError', 'contract:RandomState.choice')
    tape, pos = rng.attrs['tape'], rng.attrs['pos']
    tt, pp = O.to_z3(tape), O.to_z3(pos)
    q = z3.Int('cq')
    ctx.assume(z3.ForAll([q], z3.And(CHOICE(tt, pp, q) >= 0, CHOICE(tt, pp, q) < O.to_z3(a)), patterns=[CHOICE(tt, pp, q)]))
    ctx.trusted.add('assumed: RandomState.choice(n, size, p) returns `size` values in [0, n) determined by the generator state; invalid probabilities raise')
    rng.attrs['pos'] = pos + 1
    return Tn.fresh([size], lambda i: CHOICE(tt, pp, O.to_z3(i)), 'int', lib='np')


@L.method('rng.shuffle')
def _rng_shuffle(fr, rng, t):
    if not isinstance(t, Tn) or t.rank != 1:
        raise Unsupported("shuffle of a non rank-1 array")
    n = t.shape[0]
    tape, pos = rng.attrs['tape'], rng.attrs['pos']
    for ax in perm_axioms(tape, pos, n):
        fr.ctx.assume(ax)
    fr.ctx.trusted.add('assumed: RandomState.shuffle applies some permutation determined by the generator state')
    old = t.snapshot()
    tt, pp, nn = O.to_z3(tape), O.to_z3(pos), O.to_z3(n)
    new = Tn.fresh([n], lambda i: old(PERM(tt, pp, nn, O.to_z3(i))), t.kind, lib=t.lib)
    t.write([('all',)], new, fr.ctx)
    rng.attrs['pos'] = pos + 1
    return None
