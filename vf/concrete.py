"""Concrete interpretation of contracts: run-time check of the real function, replay of solver
counter-models, JSON (de)serialisation of concrete inputs (DESIGN §2.7)."""
import copy
import inspect
import itertools
import json

import numpy
import torch
import z3

from . import ops as O
from .tensor import Tn, Unsupported
from .values import SStr, Opaque, SymRaise
from .contract import NS, same

LETTERS = 'ACGTBDEFHIJK'


class ConcreteStr(SStr):
    """a real string seen as codes relative to alphabet / ignore"""

    def __init__(self, s, alphabet, ignore=('N',)):
        self.s = s
        self.name = 'str'
        self.length = len(s)
        alphabet = list(alphabet)
        self.alphabet = alphabet
        self.ignore = list(ignore)

        def code(i):
            i = int(i)
            if i < 0 or i >= len(s):
                return -2
            ch = s[i]
            if ch in alphabet:
                return alphabet.index(ch)
            if ch in self.ignore:
                return -1
            return -2
        self.code = code


def wrap(v, name='arg', alphabet=None):
    from .models import RecordingModel, RecordingFunc
    from .world import RowWise
    if isinstance(v, RecordingModel):
        return Opaque(v.name, 'model', {'rowwise': RowWise(v.name, v.k, v.tuple_kind, v.trailing, recording=True), 'real': v,
                                        'n_args': None, 'types': ['model']})
    from .models import RecordingShuffle
    if isinstance(v, RecordingShuffle):
        return Opaque('SHUF', 'shuffle_fn', {'types': ['function'], 'recording': True, 'real': v})
    if isinstance(v, RecordingFunc):
        m = v.m
        return Opaque(m.name, 'func', {'rowwise': RowWise(m.name, m.k, m.tuple_kind, m.trailing, recording=True), 'real': v,
                                       'types': ['function']})
    from .models import AttrObject, HookModuleSpec, hook_ghost
    if isinstance(v, HookModuleSpec):
        raise TypeError("HookModuleSpec must be built before the call")
    if isinstance(v, torch.nn.MaxPool1d) and hasattr(v, 'input') and hasattr(v, 'output'):
        # a pooling module with its captured activations (C04: _maxpool)
        one = lambda x: int(x[0]) if isinstance(x, (tuple, list)) else int(x)
        return Opaque(name, 'nn_module', {'input': Tn.of_real(v.input.detach().clone(), 'input'), 'output': Tn.of_real(v.output.detach().clone(), 'output'),
                                          'kernel_size': one(v.kernel_size), 'stride': one(v.stride), 'padding': one(v.padding), 'dilation': one(v.dilation),
                                          'ceil_mode': bool(v.ceil_mode), 'types': ['torch.nn.MaxPool1d']})
    if isinstance(v, torch.nn.Module) and not isinstance(v, RecordingModel) and hasattr(v, '_NON_LINEAR_OPS'):
        # a real module seen through its ghost hook state (C07)
        g = hook_ghost(v)
        attrs = {'ghost': g, 'ghost0': dict(g), '_NON_LINEAR_OPS': {},
                 'isinstance_of_supported_ops': isinstance(v, tuple(v._NON_LINEAR_OPS.keys()))}
        mod = Opaque(name, 'nn_module', attrs)
        if hasattr(v, 'handles'):
            dicts = {'nf': v._forward_hooks, 'np': v._forward_pre_hooks, 'nb': v._backward_hooks}
            hs = []
            for h in v.handles:
                size = [k for k, d in dicts.items() if h.id in d]
                fn = None
                if size:
                    fn = dicts[size[0]][h.id]
                    fn = getattr(fn, 'hook', fn)
                nm = getattr(fn, '__name__', '')
                dls = {'_f_hook': 'dls_f', '_fp_hook': 'dls_p', '_b_hook': 'dls_b'}.get(nm) if getattr(fn, '__module__', '') == 'tangermeme.deep_lift_shap' else None
                hs.append(Opaque('handle', 'hook_handle', {'module': mod, 'size': size[0] if size else None, 'dls': dls, 'live': bool(size)}))
            attrs['handles'] = hs
        return mod
    if isinstance(v, AttrObject):
        return Opaque(name, v._cls, {k: wrap(x, k, alphabet) for k, x in v.attrs().items()})
    if isinstance(v, torch.Tensor):
        return Tn.of_real(v.detach().clone(), name)
    if isinstance(v, numpy.ndarray):
        return Tn.of_real(v.copy(), name)
    if isinstance(v, str) and alphabet is not None and name in ('motif', 'sequence', 'seq'):
        return ConcreteStr(v, alphabet)
    if isinstance(v, (list, tuple)):
        return type(v)(wrap(x, '%s[%d]' % (name, i), alphabet) for i, x in enumerate(v))
    if isinstance(v, dict):
        return {k: wrap(x, str(k), alphabet) for k, x in v.items()}
    if isinstance(v, (numpy.integer,)):
        return int(v)
    if isinstance(v, (numpy.floating,)):
        return float(v)
    if isinstance(v, torch.dtype):
        from .values import DType
        return DType(str(v).replace('torch.', ''))
    return v


def bind_real(pyfn, args, kwargs):
    f = getattr(pyfn, 'py_func', pyfn)
    sig = inspect.signature(f)
    ba = sig.bind(*args, **kwargs)
    ba.apply_defaults()
    return dict(ba.arguments)


def tensors_in(v, path=''):
    if isinstance(v, (torch.Tensor, numpy.ndarray)):
        yield path, v
    elif isinstance(v, (list, tuple)):
        for i, x in enumerate(v):
            for y in tensors_in(x, '%s[%d]' % (path, i)):
                yield y
    elif isinstance(v, dict):
        for k, x in v.items():
            for y in tensors_in(x, '%s.%s' % (path, k)):
                yield y


def check_concrete(contract, cfg, pyfn, args, kwargs, wrap_hook=None):
    """calls the REAL function and evaluates the contract in the concrete interpretation.
    Returns (outcome, violations) — violations: list of dict(label, detail)."""
    viol = []
    env = bind_real(pyfn, args, kwargs)
    alphabet = env.get('alphabet')
    a = NS(**{k: (wrap_hook(k, v) if wrap_hook and wrap_hook(k, v) is not NotImplemented else wrap(v, k, alphabet)) for k, v in env.items()})
    before = {p: (t.clone() if isinstance(t, torch.Tensor) else t.copy()) for p, t in tensors_in(dict(env))}
    try:
        pre_ok = all(bool(p) for p in contract.pre(a, cfg))
    except Unsupported:
        pre_ok = True
    if not pre_ok:
        return ('skipped', None), []
    # module-level mutable state of the function's module (it outlives the call)
    fglob = getattr(getattr(pyfn, 'py_func', pyfn), '__globals__', {})
    gstate = {k: repr(v) for k, v in fglob.items() if isinstance(v, (dict, list, set)) and not k.startswith('__') and len(v) <= 256}
    try:
        r = pyfn(*args, **kwargs)
        outcome = ('ret', r)
    except Exception as e:  # any Python exception is a rejection
        outcome = ('raise', type(e).__name__ + ': ' + str(e)[:120])
    rej = bool(contract.rejects(a, cfg))
    acc = contract.accepts(a, cfg)
    acc = (not rej) if acc is None else bool(acc)
    if outcome[0] == 'ret':
        if rej:
            viol.append({'label': 'raises_iff:not-rejected-when-returning', 'detail': 'returned normally on an input the contract requires to be rejected'})
        else:
            rw = contract.wrap_result(outcome[1]) if hasattr(contract, 'wrap_result') else wrap(outcome[1], 'result')
            if getattr(contract, 'needs_after_state', False):
                # objects mutated by the call (ghost state of real modules) as they are after it
                a._after = NS(**{k: wrap(v, k, alphabet) for k, v in env.items()})
            spec = contract.result(a, cfg)
            clauses = []
            if spec is not NotImplemented:
                clauses += same(rw, spec)
            clauses += contract.post(a, rw, cfg)
            for label, f in clauses:
                if not bool(f):
                    viol.append({'label': 'ensures:' + label, 'detail': 'postcondition false on the real result'})
    else:
        if acc:
            viol.append({'label': 'accepts:no-raise-on-accepted-domain', 'detail': 'raised %s on an accepted input' % outcome[1]})
    for k, before_repr in gstate.items():
        if k in fglob and repr(fglob[k]) != before_repr:
            viol.append({'label': 'frame:no-write-to-module-state:' + k, 'detail': 'module-level %s was modified by the call' % k})
    # frame
    for p, t in tensors_in(dict(env)):
        if p not in before:
            continue
        nm = p.lstrip('.').split('[')[0].split('.')[0]
        if nm in contract.modifies:
            continue
        b = before[p]
        eq = torch.equal(t, b) if isinstance(t, torch.Tensor) else numpy.array_equal(t, b, equal_nan=True)
        if not eq:
            viol.append({'label': 'frame:no-write-to-' + nm, 'detail': 'input tensor %s was modified' % p})
    return outcome, viol


# ------------------------------------------------------------------ JSON
def to_json(v):
    if isinstance(v, torch.Tensor):
        return {'__tensor__': v.tolist(), 'dtype': str(v.dtype).replace('torch.', ''), 'shape': list(v.shape)}
    if isinstance(v, numpy.ndarray):
        return {'__ndarray__': v.tolist(), 'dtype': str(v.dtype), 'shape': list(v.shape)}
    if hasattr(v, 'to_json') and not isinstance(v, (torch.Tensor, numpy.ndarray)):
        return v.to_json()
    if isinstance(v, (list, tuple)):
        return {'__seq__': [to_json(x) for x in v], 'tuple': isinstance(v, tuple)}
    if isinstance(v, dict):
        return {'__dict__': {str(k): to_json(x) for k, x in v.items()}}
    if isinstance(v, (numpy.integer,)):
        return int(v)
    if isinstance(v, (numpy.floating,)):
        return float(v)
    if isinstance(v, (int, float, str, bool)) or v is None:
        return v
    if isinstance(v, torch.dtype):
        return {'__dtype__': str(v).replace('torch.', '')}
    if hasattr(v, 'to_json'):
        return v.to_json()
    return {'__repr__': repr(v)}


def from_json(v, factories=None):
    if isinstance(v, dict):
        if '__factory__' in v:
            from .models import FACTORIES
            if v['__factory__'] in FACTORIES:
                return FACTORIES[v['__factory__']](v)
        if '__dtype__' in v:
            return getattr(torch, v['__dtype__'])
        if '__tensor__' in v:
            t = torch.tensor(v['__tensor__'], dtype=getattr(torch, v['dtype']))
            return t.reshape(v['shape'])
        if '__ndarray__' in v:
            return numpy.array(v['__ndarray__'], dtype=v['dtype']).reshape(v['shape'])
        if '__seq__' in v:
            xs = [from_json(x, factories) for x in v['__seq__']]
            return tuple(xs) if v.get('tuple') else xs
        if '__dict__' in v:
            return {k: from_json(x, factories) for k, x in v['__dict__'].items()}
        if '__factory__' in v and factories and v['__factory__'] in factories:
            return factories[v['__factory__']](v)
        return v
    return v


# ------------------------------------------------------------------ model -> concrete inputs
def eval_int(model, t, default=0):
    if not isinstance(t, z3.ExprRef):
        return int(t)
    v = model.eval(t, model_completion=True)
    try:
        return v.as_long()
    except Exception:
        try:
            return int(v.as_fraction())
        except Exception:
            return default


def concretize_tensor(model, t, dtype=None, max_numel=4096):
    if dtype is None:
        dtype = {'real': torch.float64, 'bool': torch.bool}.get(t.kind, torch.int64)
    shape = [eval_int(model, d) for d in t.shape]
    n = 1
    for d in shape:
        n *= max(d, 0)
    if any(d < 0 for d in shape) or n > max_numel:
        return None
    out = torch.zeros(shape, dtype=dtype)
    for idx in itertools.product(*[range(d) for d in shape]):
        v = t.elem(*idx)
        if isinstance(v, z3.ExprRef):
            v = model.eval(v, model_completion=True)
            if z3.is_bool(v):
                v = 1 if z3.is_true(v) else 0
            elif z3.is_int_value(v):
                v = v.as_long()
            else:
                try:
                    fr = v.as_fraction()
                    v = float(fr)
                except Exception:
                    v = 0
        out[idx] = v
    if t.kind == 'int' and out.numel() and int(out.abs().max()) <= 127:
        out = out.to(torch.int8)
    return out


def concretize_str(model, s, n_alpha):
    n = eval_int(model, s.length)
    if n < 0 or n > 64:
        return None
    chars = []
    for i in range(n):
        c = eval_int(model, s.code(i))
        if 0 <= c < n_alpha:
            chars.append(LETTERS[c])
        elif c == -1:
            chars.append('N')
        else:
            chars.append('Z')
    return ''.join(chars)
