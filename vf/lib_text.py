"""Abstract text lines for parser contracts (DESIGN 5 C16): a line is an opaque object identified by
its index k in the file; what the parser can observe of it is given by uninterpreted classifiers
(assumed meaning of str slicing / split / int / float on a well-formed MEME line):
  isMotif(k), isLetter(k) : Bool;  NAME(k): Int (identity of the motif name);  WIDTH(k): Int;
  ROWV(k, c): Real (c-th number on the line)."""
import z3
from . import ops as O
from .tensor import Tn, Unsupported
from .values import Opaque, SymRaise
from . import lib as L

isMotif = z3.Function('isMotif', z3.IntSort(), z3.BoolSort())
isLetter = z3.Function('isLetter', z3.IntSort(), z3.BoolSort())
NAME = z3.Function('NAME', z3.IntSort(), z3.IntSort())
WIDTH = z3.Function('WIDTH', z3.IntSort(), z3.IntSort())
ROWV = z3.Function('ROWV', z3.IntSort(), z3.IntSort(), z3.RealSort())


def line(k):
    return Opaque('line', 'line', {'k': k, 'types': ['builtins.str']})


@L.lib('getitem:line')
def _line_getitem(fr, ln, key):
    if isinstance(key, slice) and key.start is None and key.step is None and O.is_conc(key.stop):
        return Opaque('prefix', 'lineprefix', {'k': ln.attrs['k'], 'n': O.conc_int(key.stop)})
    raise Unsupported("line subscript %r" % (key,))


@L.lib('cmp:lineprefix')
def _prefix_cmp(fr, n, l, r):
    if isinstance(r, Opaque):
        l, r = r, l
    if n not in ('Eq', 'NotEq') or not isinstance(r, str):
        raise Unsupported("line prefix comparison")
    k = O.to_z3(l.attrs['k'])
    if r == 'MOTIF' and l.attrs['n'] == 5:
        res = isMotif(k)
    elif r == 'letter' and l.attrs['n'] == 6:
        res = isLetter(k)
    else:
        raise Unsupported("line prefix compared with %r" % (r,))
    return res if n == 'Eq' else z3.Not(res)


@L.method('line.replace')
def _line_replace(fr, ln, old, new):
    if old == 'MOTIF ' and new == '':
        return Opaque('name', 'linename', {'k': ln.attrs['k'], 'types': ['builtins.str']})
    raise Unsupported("line.replace(%r, %r)" % (old, new))


@L.method('linename.strip')
def _name_strip(fr, nm, *a):
    return nm


@L.method('line.strip')
def _line_strip(fr, ln, *a):
    return ln


@L.method('line.split')
def _line_split(fr, ln, *a):
    return Opaque('tokens', 'tokens', {'k': ln.attrs['k']})


@L.lib('getitem:tokens')
def _tokens_getitem(fr, t, key):
    return Opaque('token', 'token', {'k': t.attrs['k'], 'pos': O.simp(key)})


@L.lib('cmp:linename')
def _name_cmp(fr, n, l, r):
    if isinstance(l, Opaque) and isinstance(r, Opaque) and l.cls == r.cls == 'linename':
        e = O.eq(NAME(O.to_z3(l.attrs['k'])), NAME(O.to_z3(r.attrs['k'])))
        return e if n == 'Eq' else O.Not(e)
    raise Unsupported("motif name comparison")


def name_id(v):
    if isinstance(v, Opaque) and v.cls == 'linename':
        return NAME(O.to_z3(v.attrs['k']))
    if isinstance(v, Opaque) and v.cls == 'nameid':
        return v.attrs['id']
    raise Unsupported("not a motif name: %r" % (v,))


_old_int = L.LIB['builtins.int']


def _int(fr, x=0):
    if isinstance(x, Opaque) and x.cls == 'token':
        if x.attrs['pos'] == 5:
            return WIDTH(O.to_z3(x.attrs['k']))
        raise Unsupported("int() of token %r" % (x.attrs['pos'],))
    return _old_int(fr, x)


L.LIB['builtins.int'] = _int
_old_map = L.LIB['builtins.map']


def _map(fr, f, xs):
    if isinstance(xs, Opaque) and xs.cls == 'tokens' and getattr(f, 'name', None) == 'builtins.float':
        return Opaque('floatrow', 'floatrow', {'k': xs.attrs['k']})
    return _old_map(fr, f, xs)


L.LIB['builtins.map'] = _map
_old_list = L.LIB['builtins.list']


def _list(fr, x=None):
    if isinstance(x, Opaque) and x.cls == 'floatrow':
        return x
    return _old_list(fr, x)


L.LIB['builtins.list'] = _list
_old_setitem = L.LIB['setitem']


def _setitem(fr, base, key, v, site=None):
    if isinstance(v, Opaque) and v.cls == 'floatrow':
        k = O.to_z3(v.attrs['k'])
        ncol = base.shape[-1]
        # a well-formed matrix row carries exactly as many numbers as the matrix has columns
        v = Tn.fresh([ncol], lambda c: ROWV(k, O.to_z3(c)), 'real', lib=base.lib)
    return _old_setitem(fr, base, key, v, site=site)


L.LIB['setitem'] = _setitem


# the dictionary of parsed motifs as a commit log (ghost): order of commits = file order
@L.lib('setitem:motifmap')
def _motifmap_set(fr, mm, key, v):
    mm.attrs['commits'].append((name_id(key), v))


@L.lib('len:motifmap')
def _motifmap_len(fr, mm):
    return mm.attrs['count0'] + len(mm.attrs['commits'])
