"""Bounds-checked execution of the real statements of a numba kernel (replay for index-safety obligations).

numba compiles array accesses without bounds checks: an index outside the array reads or corrupts foreign memory
silently, a negative one in [-n, 0) is wrapped to the other end.  The index-safety obligations of the verifier
demand 0 <= i < n for every access.  When such an obligation (or one it supports) is not discharged, the checker
looks for a concrete failing input: the function's own source (current tree) is re-compiled as plain Python with
every subscript `a[i]` rewritten - mechanically, nothing else changes - to `a[__bc(a, i, line)]`, where __bc
raises IndexOutOfArray when `a` is a numpy array and an integer component of `i` lies outside [0, dim).  Inputs
come from the contract (`random_inputs(cfg, rng)`).  A hit is a genuine failing input of the obligation."""
import ast
import copy
import inspect
import textwrap

import numpy


class IndexOutOfArray(Exception):
    pass


def _bc(a, idx, line, literal_negative=()):
    if isinstance(a, numpy.ndarray):
        comps = idx if isinstance(idx, tuple) else (idx,)
        if any(c is Ellipsis or c is None for c in comps):
            return idx
        d = 0
        for q, c in enumerate(comps):
            if isinstance(c, (int, numpy.integer)) and not isinstance(c, (bool, numpy.bool_)):
                if q in literal_negative and -a.shape[d] <= int(c) < 0:
                    d += 1
                    continue       # a literal negative subscript: the deliberate "from the end" idiom
                if d < a.ndim and not (0 <= int(c) < a.shape[d]):
                    raise IndexOutOfArray("line %d: index %d on axis %d of an array of shape %s%s" % (
                        line, int(c), d, tuple(a.shape), ' (numba wraps it to the other end)' if -a.shape[d] <= int(c) < 0 else ' (outside the array: numba reads / writes foreign memory)'))
            d += 1
    return idx


class _Rewrite(ast.NodeTransformer):
    offset = 0

    def visit_Subscript(self, node):
        self.generic_visit(node)
        if isinstance(node.value, (ast.Name, ast.Attribute, ast.Subscript)):
            val = copy.deepcopy(node.value)
            for n in ast.walk(val):
                if hasattr(n, 'ctx'):
                    n.ctx = ast.Load()
            comps = node.slice.elts if isinstance(node.slice, ast.Tuple) else [node.slice]
            lits = [q for q, c in enumerate(comps) if isinstance(c, ast.UnaryOp) and isinstance(c.op, ast.USub) and isinstance(c.operand, ast.Constant)
                    and isinstance(c.operand.value, int)]
            node.slice = ast.Call(func=ast.Name(id='__bc', ctx=ast.Load()),
                                  args=[val, node.slice, ast.Constant(getattr(node, 'lineno', 0) + _Rewrite.offset), ast.Tuple(elts=[ast.Constant(q) for q in lits], ctx=ast.Load())], keywords=[])
        return node


def checked_function(pyfn):
    """the function re-compiled from its current source with checked subscripts (decorators dropped: plain Python)"""
    f = getattr(pyfn, 'py_func', pyfn)
    src = textwrap.dedent(inspect.getsource(f))
    tree = ast.parse(src)
    fd = tree.body[0]
    fd.decorator_list = []
    first = inspect.getsourcelines(f)[1]
    _Rewrite.offset = first - 1
    _Rewrite().visit(fd)
    ast.fix_missing_locations(tree)
    ast.increment_lineno(tree, first - 1)
    g = dict(f.__globals__)
    # callees that are numba kernels run as plain Python too
    for k, v in list(g.items()):
        if hasattr(v, 'py_func'):
            g[k] = v.py_func
    g['__bc'] = _bc
    # numba.prange / get_thread_id inside plain Python
    try:
        import numba
        class _NB:
            prange = range
            def __getattr__(self, name):
                return getattr(numba, name)
        nb = _NB()
        nb.get_thread_id = lambda: 0
        nb.get_num_threads = lambda: 1
        for k, v in list(g.items()):
            if v is numba:
                g[k] = nb
        if g.get('prange') is getattr(numba, 'prange', None):
            g['prange'] = range
    except Exception:
        pass
    exec(compile(tree, inspect.getsourcefile(f) or '<kernel>', 'exec'), g)
    return g[fd.name]


def fuzz(pyfn, contract, cfg, tries=300, seed=0, budget_s=60):
    """-> (args_repr, message) of the first input on which an access leaves its array, or None"""
    import random
    import time
    rng = random.Random(seed)
    fn = checked_function(pyfn)
    t0 = time.time()
    for k in range(tries):
        if time.time() - t0 > budget_s:
            break
        try:
            args, kwargs = contract.random_inputs(cfg, rng)
        except Exception:
            return None
        shown = contract.show_inputs(args, kwargs) if hasattr(contract, 'show_inputs') else repr((args, kwargs))[:600]
        try:
            fn(*copy.deepcopy(args), **copy.deepcopy(kwargs))
        except IndexOutOfArray as e:
            return shown, str(e)
        except IndexError as e:
            return shown, 'IndexError in plain Python (an access outside its array; numba would not have raised): %s' % (e,)
        except Exception:
            continue
    return None
