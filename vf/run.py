"""Property runner: deductive obligations + bounded stand-in + verdicts + evidence (DESIGN §2.7, §2.10)."""
import importlib
import json
import os
import sys
import time
import traceback
from collections import Counter

import z3

from . import ops as O
from . import smt
from .bounded import BoundedReport
from .contract import verify_function, ArgFactory, FunctionReport
from .interp import Ctx
from .world import World

VERIF = os.path.dirname(os.path.dirname(os.path.abspath(__file__)))

BASE_ASSUMPTIONS = [
    "floating point treated as real arithmetic (machine arithmetic treated as mathematical)",
    "Python ints unbounded; int64 overflow inside numba kernels out of scope",
    "library primitives mean what vf/lib.py says (bounded conformance against real torch/numpy)",
    "z3 5.1 / cvc5 1.0.3 are sound; the VC generator vf/ (pyvc) is part of the trusted base",
    "device placement, dtype casts between float types, tqdm/print/verbose are dropped by extraction (DESIGN 2.1)",
]


class BoundedResult:
    """what the bounded worker process reported (vf/bworker.py)"""

    def __init__(self, res, tier):
        res = res or {}
        self._summary = res.get('summary') or {'scope': 'worker produced no result', 'evaluations': 0, 'distinct': 0, 'distinct_nontrivial': 0,
                                               'sections': {}, 'exhaustive_parts': [], 'samples': [], 'notes': [], 'seconds': 0, 'violations': 0}
        self.violations = list(res.get('violations') or [])
        self.evaluations = res.get('evaluations', 0)
        self.notes = []
        self.scope = self._summary.get('scope')

    def summary(self, scope=None):
        s = dict(self._summary)
        s['notes'] = list(s.get('notes', [])) + self.notes
        s['violations'] = len(self.violations)
        return s


def load_known_findings():
    p = os.path.join(VERIF, 'known_findings.json')
    if not os.path.exists(p):
        return {'open': [], 'fixed': []}
    return json.load(open(p))


def build_world(plan):
    w = World()
    for m in plan.CONTRACT_MODULES:
        importlib.import_module(m).register(w)
    return w


def concretize_args(args, kwargs, model):
    from .concrete import concretize_tensor, concretize_str, eval_int, LETTERS
    from .tensor import Tn
    from .values import SStr, Opaque
    n_alpha = [4]

    def conv(v):
        if isinstance(v, Tn):
            t = concretize_tensor(model, v)
            if t is None:
                raise ValueError("model too large to concretise")
            return t
        if isinstance(v, SStr):
            return ('__str__', v)
        if isinstance(v, Opaque) and v.cls == 'alphabet':
            n = eval_int(model, v.attrs['n'])
            n_alpha[0] = n
            return list(LETTERS[:max(n, 0)])
        if isinstance(v, z3.ExprRef):
            if z3.is_bool(v):
                return z3.is_true(model.eval(v, model_completion=True))
            return eval_int(model, v)
        if isinstance(v, (list, tuple)):
            return type(v)(conv(x) for x in v)
        if isinstance(v, Opaque) and v.cls in ('model', 'func') and 'rowwise' in v.attrs:
            from .models import RecordingModel, RecordingFunc
            rw = v.attrs['rowwise']
            tr = [[eval_int(model, d) for d in t] for t in rw.trailing]
            cls = RecordingModel if v.cls == 'model' else RecordingFunc
            obj = cls(rw.name, rw.k, rw.tuple_kind, tr)
            if v.cls == 'model':
                # the entry mode of the module tree as the solver chose it (top flag, some child in training mode)
                tv = lambda x, d: (z3.is_true(model.eval(x, model_completion=True)) if isinstance(x, z3.ExprRef) else (d if x is None else bool(x)))
                top, sub = tv(v.attrs.get('training'), True), tv(v.attrs.get('sub_training'), False)
                obj.train(top)
                obj.probe.train(sub or top)
            return obj
        if isinstance(v, Opaque) and v.cls == 'shuffle_fn':
            from .models import RecordingShuffle
            return RecordingShuffle()
        if isinstance(v, dict):
            return {k: conv(x) for k, x in v.items()}
        from .values import DType
        if isinstance(v, DType):
            import torch
            return getattr(torch, v.name, torch.float32)
        if isinstance(v, Opaque) and 'concretize' in v.attrs:
            return v.attrs['concretize'](model)
        return v
    a2 = [conv(x) for x in args]
    k2 = {k: conv(x) for k, x in kwargs.items()}

    def fix(v):
        if isinstance(v, tuple) and len(v) == 2 and v[0] == '__str__':
            return concretize_str(model, v[1], n_alpha[0])
        if isinstance(v, list):
            return [fix(x) for x in v]
        return v
    return [fix(x) for x in a2], {k: fix(x) for k, x in k2.items()}


class PropertyRun:
    def __init__(self, plan, tier, seed):
        self.plan = plan
        self.pid = plan.ID
        self.tier = tier
        self.seed = seed
        self.t0 = time.time()
        self.lines = []
        self.violations = []       # dict(what, replay)
        self.known = []
        self.undecided = []
        self.kf = load_known_findings()

    def log(self, *a):
        print(*a, flush=True)

    # ------------------------------------------------------------------ deductive part
    def deductive(self):
        plan = self.plan
        world = build_world(plan)
        self.world = world
        reports = []
        allobs = []
        for q in plan.FUNCTIONS:
            c = world.contracts[q]
            c._key = q
            t = time.time()
            from .contract import verify_fragment
            rep = self.vc_cache_load(q)
            if rep is None:
                rep = verify_fragment(world, c) if getattr(c, 'is_fragment', False) else verify_function(world, c)
                rep._fresh = True
            rep.contract = c
            reports.append(rep)
            allobs.extend(rep.obligations)
            self.log("  [vcgen%s] %-45s configs=%d paths=%d (ret %d / raise %d) obligations=%d  %.1fs%s" % (
                ' reused' if getattr(rep, 'from_cache', False) else '',
                q.replace('tangermeme.', ''), len(rep.configs), rep.paths, rep.returns, rep.raises, len(rep.obligations),
                time.time() - t, ('  UNSUPPORTED: %s' % rep.unsupported[:2]) if rep.unsupported else ''))
        t = time.time()
        smt.discharge([o for o in allobs if not getattr(o, 'cached', False)], tier=self.tier, seed=self.seed)
        self.solver_wall = time.time() - t
        self.reports = reports
        self.allobs = allobs
        for q, rep in zip(plan.FUNCTIONS, reports):
            if getattr(rep, '_fresh', False):
                self.vc_cache_store(q, rep)
        return reports

    # ---- obligations of a function that were all discharged are remembered inside this checkout, keyed by the
    # hash of the repository sources, of the verifier's own code, the tier and the seed: several properties
    # put the same function under contract (deep_lift_shap: C04-C07, _p_values: C13/C14) and need not
    # regenerate and re-discharge identical obligations.  Any change to /repo or to /verif changes the key.
    def vc_cache_key(self, q):
        import hashlib
        from .bind import tree_hash
        h = hashlib.sha256()
        h.update(tree_hash().encode())
        for d in ('vf', 'contracts'):
            for f in sorted(os.listdir(os.path.join(VERIF, d))):
                if f.endswith('.py'):
                    h.update(open(os.path.join(VERIF, d, f), 'rb').read())
        h.update(('%s|%s|%s|%s' % (q, self.tier, self.seed, os.environ.get('PYTHONHASHSEED', ''))).encode())
        return h.hexdigest()[:24]

    def vc_cache_load(self, q):
        if os.environ.get('VERIF_NO_VC_CACHE'):
            return None
        try:
            path = os.path.join(VERIF, '.cache', 'vc', self.vc_cache_key(q) + '.json')
            d = json.load(open(path))
        except Exception:
            return None
        from .interp import Obligation
        rep = FunctionReport(d['qualname'])
        rep.configs, rep.paths, rep.returns, rep.raises, rep.seconds = d['configs'], d['paths'], d['returns'], d['raises'], d['seconds']
        rep.trusted = set(d['trusted'])
        for name, kind, seconds, backend in d['obligations']:
            ob = Obligation(name, [], True, kind, [])
            ob.result, ob.seconds, ob.backend, ob.cached = 'unsat', seconds, backend, True
            rep.obligations.append(ob)
        rep.from_cache = True
        try:
            # the binder still reads and records the current source of the function (file, line, sha256)
            pyfn = self.world.bind.resolve(d['qualname'])
            self.world.bind.function_ast(pyfn)
        except Exception:
            return None
        self.vc_cached = getattr(self, 'vc_cached', 0) + 1
        return rep

    def vc_cache_store(self, q, rep):
        if os.environ.get('VERIF_NO_VC_CACHE') or rep.unsupported or not rep.obligations or any(o.result != 'unsat' for o in rep.obligations):
            return
        try:
            d = os.path.join(VERIF, '.cache', 'vc')
            os.makedirs(d, exist_ok=True)
            rec = {'qualname': rep.qualname, 'configs': rep.configs, 'paths': rep.paths, 'returns': rep.returns, 'raises': rep.raises,
                   'seconds': rep.seconds, 'trusted': sorted(rep.trusted),
                   'obligations': [(o.name, o.kind, round(o.seconds, 3), o.backend) for o in rep.obligations]}
            with open(os.path.join(d, self.vc_cache_key(q) + '.json'), 'w') as f:
                json.dump(rec, f)
        except Exception:
            pass

    def frame_scan(self):
        """frame fact over the files the property is anchored in: no function writes module-level state (vf/frame_scan.py,
        decided on the AST, no solver).  It holds on the pinned tree.  A write found later is not by itself a
        violation (a correctly keyed cache preserves every property): it is listed as undecided - results may
        now depend on the call history, which the bounded layer (many calls in one process) decides."""
        from .frame_scan import scan_source
        from .bind import REPO
        files = []
        try:
            for l in open(os.path.join(VERIF, 'properties.jsonl')):
                p = json.loads(l)
                if p['id'] == self.pid:
                    files = p.get('anchors', {}).get('files', [])
        except Exception:
            return
        res = {'files': [], 'functions_scanned': 0, 'writes': []}
        import ast as _ast
        for f in files:
            path = os.path.join(REPO, f)
            try:
                src = open(path).read()
                finds, mod = scan_source(src, f)
            except Exception:
                continue
            res['files'].append(f)
            res['functions_scanned'] += sum(1 for n in _ast.walk(_ast.parse(src)) if isinstance(n, _ast.FunctionDef))
            for x in finds:
                res['writes'].append('%s:%d %s: %s' % (f, x['line'], x['function'], x['what']))
                self.undecided.append({'obligation': 'frame:no-write-to-module-state(%s:%s)' % (f, x['function']),
                                       'reason': '%s at line %d: later calls may depend on earlier ones; left to the bounded layer' % (x['what'], x['line'])})
        self.frame = res

    def triage(self):
        """sat -> replay on the real code; unknown/error/unsupported -> small-scope refutation, else undecided"""
        world = self.world
        for rep in self.reports:
            c = self.contract_of(rep)
            for cfgname, why in rep.unsupported:
                self.undecided.append({'obligation': '%s[%s]' % (rep.qualname, cfgname), 'reason': 'unsupported: ' + why})
            if getattr(c, 'expect_returns', True) and rep.returns == 0 and not rep.unsupported:
                self.undecided.append({'obligation': rep.qualname, 'reason': 'vacuity guard: no normal-return path reachable'})
            bad = [o for o in rep.obligations if o.result != 'unsat']
            groups = {}
            for ob in bad:
                groups.setdefault(self.cfg_name_of(ob), []).append(ob)
            for cname in sorted({c.cfg_name(cfg) for cfg in c.configs()} & ({u[0] for u in rep.unsupported} | set(groups))):
                obs = groups.get(cname, [])
                cfg = [cfg for cfg in c.configs() if c.cfg_name(cfg) == cname][0]
                confirmed = False
                seen = set()
                definite = []
                for ob in obs:
                    if ob.result == 'sat' and ob.kind == 'exc-post' and not confirmed and hasattr(c, 'replay_injected') and isinstance(ob.meta, dict):
                        confirmed = self.replay_injected(rep.qualname, c, cfg, ob, seen)
                for ob in obs:
                    if ob.result == 'sat' and ob.kind not in ('loop-pres', 'assumed-pattern') and not confirmed:
                        confirmed = self.replay_counter_model(rep.qualname, c, cfg, ob, seen, scope=None)
                if not confirmed:
                    confirmed = self.small_scope_refute(rep.qualname, c, cfg, cname, seen)
                if not confirmed and obs and hasattr(c, 'random_inputs'):
                    confirmed = self.boundscheck_refute(rep.qualname, c, cfg, obs)
                if confirmed:
                    continue
                for ob in obs:
                    if ob.result == 'sat' and ob.kind == 'assumed-pattern':
                        self.undecided.append({'obligation': ob.name, 'reason': 'a validity condition of an assumed contract does not hold on this path '
                                                                                '(the proof does not apply here; no verdict)'})
                    elif ob.result == 'sat' and not getattr(ob, 'approx', True) and ob.kind not in ('loop-pres',) and not self.in_baseline(ob.name):
                        self.undecided.append({'obligation': ob.name, 'reason': 'refuted by the solver, no concrete failing input found, and not an obligation that was '
                                                                                'discharged on the unchanged tree (baseline/obligations.json): no verdict'})
                    elif ob.result == 'sat' and not getattr(ob, 'approx', True) and ob.kind not in ('loop-pres', 'assumed-pattern'):
                        info = {'property': self.pid, 'obligation': ob.name, 'function': rep.qualname, 'cfg': cfg,
                                'solver': {'result': 'sat', 'backend': ob.backend, 'seconds': round(ob.seconds, 3),
                                           'goal': str(ob.goal)[:2000]}, 'no_failing_input_found': True}
                        path = self.write_replay(info)
                        self.violations.append({'what': ob.name + ' refuted by the solver on an entry path; no concrete failing input was found',
                                                'replay': path, 'nofail': True, 'obligation': ob.name})
                    else:
                        why = 'invariant not inductive / obligation downstream of a havoc refuted (sat)' if ob.result == 'sat' else '%s (%s)' % (ob.result, ob.detail)
                        self.undecided.append({'obligation': ob.name, 'reason': why})

    def in_baseline(self, name):
        """was this obligation discharged on the unchanged tree?  (no baseline file: every obligation counts)"""
        b = getattr(self, '_baseline', None)
        if b is None:
            try:
                b = set(json.load(open(os.path.join(VERIF, 'baseline', 'obligations.json'))).get(self.pid, []))
            except Exception:
                b = False
            self._baseline = b
        return True if b is False else name in b

    def contract_of(self, rep):
        return getattr(rep, 'contract', None) or self.world.contracts[rep.qualname]

    def cfg_name_of(self, ob):
        nm = ob.name
        i = nm.index('[')
        j = nm.index(']', i)
        return nm[i + 1:j]

    def small_scope_refute(self, qualname, c, cfg, cname, seen):
        """re-generate the obligations of this structural instance with all tensor dimensions
        concrete and small and recording semantics for assumed callables (complete for that scope);
        a sat obligation there yields a genuine input, replayed on the real function"""
        from .contract import verify_function
        # refutation is an extra: it runs inside a time budget per check (a concrete scope of a deep loop nest can
        # unroll into very many paths); what it does not reach stays undecided
        if not hasattr(self, 'small_scope_deadline'):
            self.small_scope_deadline = time.time() + {'quick': 150, 'thorough': 900}.get(self.tier, 150)
        for scope in c.scopes(cfg):
            if time.time() > self.small_scope_deadline:
                self.small_scope_cut = getattr(self, 'small_scope_cut', 0) + 1
                break
            dl = min(self.small_scope_deadline, time.time() + {'quick': 60, 'thorough': 300}.get(self.tier, 60))
            try:
                if getattr(c, 'is_fragment', False):
                    from .contract import verify_fragment
                    r2 = verify_fragment(self.world, c, only_cfg=cname, scope=scope, deadline=dl)
                else:
                    r2 = verify_function(self.world, c, only_cfg=cname, scope=scope, deadline=dl)
            except Exception:
                continue
            smt.discharge(r2.obligations, tier='refute', seed=self.seed)
            self.small_scope_runs = getattr(self, 'small_scope_runs', 0) + 1
            for ob in r2.obligations:
                if ob.result == 'sat' and ob.kind not in ('loop-pres', 'assumed-pattern'):
                    if self.replay_counter_model(qualname, c, cfg, ob, seen, scope=scope):
                        return True
        return False

    def replay_fragment(self, qualname, c, cfg, ob, seen, scope=None):
        """counter-model of a fragment obligation -> concrete fragment state -> the contract's own
        replay on the real (whole) function"""
        from .concrete import to_json, eval_int
        info = {'property': self.pid, 'obligation': ob.name, 'function': qualname, 'fragment': getattr(c, 'key', qualname), 'cfg': cfg,
                'scope': scope, 'solver': {'result': 'sat', 'backend': ob.backend, 'seconds': round(ob.seconds, 3)}}
        try:
            ctx = Ctx((), fname='concretize')
            A = ArgFactory(ctx, scope)
            env = c.make_env(cfg, A)
            syms = [v for v in env.values() if isinstance(v, z3.ExprRef) and z3.is_int(v)]
            from .tensor import Tn
            for v in env.values():
                if isinstance(v, Tn):
                    syms.extend([d for d in v.shape if O.is_sym(d)])
            model = None
            for bound in (4, 8, None):
                extra = [z3.And(x <= bound, x >= -bound) for x in syms] if bound else []
                model = smt.model_for(ob, extra=extra)
                if model is not None:
                    break
            if model is None:
                return False
            state = {}
            for k, v in env.items():
                if isinstance(v, z3.ExprRef):
                    state[k] = z3.is_true(model.eval(v, model_completion=True)) if z3.is_bool(v) else eval_int(model, v)
                elif isinstance(v, Tn):
                    shp = [eval_int(model, d) for d in v.shape]
                    state[k + '.shape'] = shp
                    n = 1
                    for d in shp:
                        n *= max(d, 0)
                    if 0 < n <= 256:
                        from .concrete import concretize_tensor
                        t = concretize_tensor(model, v)
                        if t is not None:
                            state[k] = t.tolist()
                elif isinstance(v, (int, bool, str)) or v is None:
                    state[k] = v
            key = json.dumps(state, sort_keys=True, default=str)
            if key in seen:
                return False
            seen.add(key)
            info['fragment_state'] = state
            viol = c.replay_fragment(cfg, state)
            info['contract_violations'] = viol
            if viol:
                path = self.write_replay(info)
                self.violations.append({'what': '%s: %s' % (ob.name, viol[0]), 'replay': path, 'finding': None, 'obligation': ob.name})
                return True
        except Exception:
            self.replay_errors = getattr(self, 'replay_errors', [])
            if len(self.replay_errors) < 3:
                self.replay_errors.append(traceback.format_exc()[-800:])
        return False

    def boundscheck_refute(self, qualname, c, cfg, obs):
        """undischarged obligations of a numba kernel: look for an input on which an array access leaves its array,
        running the kernel's own statements as plain Python with every subscript checked (vf/boundscheck.py)"""
        from . import boundscheck
        try:
            pyfn = self.world.bind.resolve(qualname)
            hit = boundscheck.fuzz(pyfn, c, cfg, seed=self.seed, budget_s={'quick': 45, 'thorough': 300}.get(self.tier, 45),
                                   tries={'quick': 300, 'thorough': 3000}.get(self.tier, 300))
        except Exception:
            self.replay_errors = getattr(self, 'replay_errors', [])
            if len(self.replay_errors) < 3:
                self.replay_errors.append(traceback.format_exc()[-800:])
            return False
        if not hit:
            return False
        shown, msg = hit
        idx_obs = [o for o in obs if o.kind == 'index'] or obs
        ob = idx_obs[0]
        info = {'property': self.pid, 'obligation': ob.name, 'function': qualname, 'cfg': cfg,
                'boundscheck': {'seed': self.seed, 'inputs': shown, 'observed': msg},
                'solver': {'result': ob.result, 'backend': ob.backend, 'seconds': round(ob.seconds or 0, 3), 'detail': str(ob.detail)[:200]}}
        path = self.write_replay(info)
        self.violations.append({'what': '%s: %s on %s' % (ob.name, msg, shown[:300]), 'replay': path, 'finding': None, 'obligation': ob.name})
        return True

    def replay_injected(self, qualname, c, cfg, ob, seen):
        """refuted exceptional postcondition on a path on which an assumed callable raised (an injected environment
        failure): the contract re-creates that failure around the REAL function (a model / generator that raises
        that exception class at that point) and reports what it observes"""
        key = json.dumps(['injected', cfg, ob.meta], sort_keys=True, default=str)
        if key in seen:
            return False
        seen.add(key)
        info = {'property': self.pid, 'obligation': ob.name, 'function': qualname, 'cfg': cfg, 'injected': ob.meta,
                'solver': {'result': 'sat', 'backend': ob.backend, 'seconds': round(ob.seconds, 3)}}
        try:
            viol = c.replay_injected(cfg, ob.meta.get('raised'), ob.meta.get('site'))
        except Exception:
            self.replay_errors = getattr(self, 'replay_errors', [])
            if len(self.replay_errors) < 3:
                self.replay_errors.append(traceback.format_exc()[-800:])
            return False
        info['contract_violations'] = viol
        if viol:
            path = self.write_replay(info)
            self.violations.append({'what': '%s: %s' % (ob.name, viol[0]), 'replay': path, 'finding': None, 'obligation': ob.name})
            return True
        return False

    def replay_counter_model(self, qualname, c, cfg, ob, seen, scope=None):
        if getattr(c, 'is_fragment', False):
            return self.replay_fragment(qualname, c, cfg, ob, seen, scope)
        from .concrete import check_concrete, to_json
        info = {'property': self.pid, 'obligation': ob.name, 'function': qualname, 'cfg': cfg, 'scope': scope,
                'solver': {'result': 'sat', 'backend': ob.backend, 'seconds': round(ob.seconds, 3)}}
        try:
            ctx = Ctx((), fname='concretize')
            A = ArgFactory(ctx, scope)
            args, kwargs = c.make_args(cfg, A)
            dims = []
            from .tensor import Tn

            def collect(v):
                if isinstance(v, Tn):
                    dims.extend([d for d in v.shape if O.is_sym(d)])
                elif isinstance(v, (list, tuple)):
                    for x in v:
                        collect(x)
                elif isinstance(v, dict):
                    for x in v.values():
                        collect(x)
                elif hasattr(v, 'length') and O.is_sym(getattr(v, 'length')):
                    dims.append(v.length)
                elif hasattr(v, 'attrs') and 'rowwise' in getattr(v, 'attrs', {}):
                    for tr in v.attrs['rowwise'].trailing:
                        dims.extend([d for d in tr if O.is_sym(d)])
            for v in list(args) + list(kwargs.values()):
                collect(v)
            model = None
            for bound in (3, 6, None):
                extra = [d <= bound for d in dims] if bound else []
                model = smt.model_for(ob, extra=extra)
                if model is not None:
                    break
            if model is None:
                return False
            rargs, rkwargs = concretize_args(args, kwargs, model)
            if hasattr(c, 'repair_concrete'):
                rargs, rkwargs = c.repair_concrete(cfg, rargs, rkwargs)
            info['args'] = to_json(rargs)
            info['kwargs'] = to_json(rkwargs)
            key = json.dumps([info['args'], info['kwargs']], sort_keys=True, default=str)
            if key in seen:
                return False
            seen.add(key)
            pyfn = self.real_function(qualname)
            outcome, viol = check_concrete(c, cfg, pyfn, rargs, rkwargs)
            if not viol and '/frame:' in ob.name:
                # a store that happens to write the values already there is not observable: the same
                # call with the contents of the input tensors rotated along the channel axis
                import copy
                import torch as _t

                def rot(v, k):
                    if isinstance(v, _t.Tensor) and v.ndim >= 2 and v.shape[1] > 1:
                        return _t.roll(v, k, dims=1)
                    if isinstance(v, (list, tuple)):
                        return type(v)(rot(x, k) for x in v)
                    return v
                for k in (1, 2, 3):
                    a2 = [rot(x, k) if i == 0 else copy.deepcopy(x) for i, x in enumerate(rargs)]
                    k2 = copy.deepcopy(rkwargs)
                    o2, v2 = check_concrete(c, cfg, pyfn, a2, k2)
                    if v2:
                        rargs, rkwargs, outcome, viol = a2, k2, o2, v2
                        info['args'] = to_json(rargs)
                        info['kwargs'] = to_json(rkwargs)
                        break
            if not viol and hasattr(c, 'replay_variants'):
                # the solver's model fixes only what the refuted obligation mentions; the contract may offer further
                # inputs of the same precondition class (e.g. other sizes) to look for a concrete failure
                for a2, k2 in c.replay_variants(cfg, rargs, rkwargs):
                    try:
                        o2, v2 = check_concrete(c, cfg, pyfn, a2, k2)
                    except Exception:
                        continue
                    if v2:
                        rargs, rkwargs, outcome, viol = a2, k2, o2, v2
                        info['args'] = to_json(rargs)
                        info['kwargs'] = to_json(rkwargs)
                        break
            info['observed'] = outcome[0] if outcome[0] != 'ret' else 'returned'
            info['contract_violations'] = viol
            if viol:
                path = self.write_replay(info)
                self.violations.append({'what': '%s: %s' % (ob.name, viol[0]['label'] + ' - ' + viol[0]['detail']), 'replay': path,
                                        'finding': None, 'obligation': ob.name})
                return True
        except Exception:
            self.replay_errors = getattr(self, 'replay_errors', [])
            if len(self.replay_errors) < 3:
                self.replay_errors.append(traceback.format_exc()[-800:])
        return False

    def real_function(self, qualname):
        mod, _, name = qualname.rpartition('.')
        return getattr(importlib.import_module(mod), name)

    def write_replay(self, info):
        d = os.environ.get('VERIF_REPLAY_DIR') or os.path.join(VERIF, 'replays')
        os.makedirs(d, exist_ok=True)
        n = len(os.listdir(d))
        safe = ''.join(ch if ch.isalnum() else '_' for ch in info.get('obligation', 'bounded'))[:60]
        path = os.path.join(d, '%s_%s_%03d.json' % (self.pid, safe, n))
        with open(path, 'w') as f:
            json.dump(info, f, indent=1, default=str)
        return path

    # ------------------------------------------------------------------ bounded part
    def bounded(self):
        plan = self.plan
        if not getattr(plan, 'BOUNDED', None):
            self.brep = None
            return None
        budget = plan.BOUNDED_BUDGET[self.tier] if hasattr(plan, 'BOUNDED_BUDGET') else (60 if self.tier == 'quick' else 600)
        brep = self.run_bounded_worker(plan.BOUNDED, budget)
        self.brep = brep
        self.bscope = brep.scope
        per_finding = {}
        for v in brep.violations:
            info = {'property': self.pid, 'bounded': plan.BOUNDED, 'what': v['what'], 'case': v['case'], 'finding': v.get('finding')}
            kf = self.match_known(v)
            if kf is not None:
                if not any(k is kf for k, _ in self.known):
                    self.known.append((kf, v))
                continue
            fk = v.get('finding') or v['what'][:60]
            per_finding[fk] = per_finding.get(fk, 0) + 1
            if per_finding[fk] > 2 or len(self.violations) >= 24:
                self.suppressed = getattr(self, 'suppressed', 0) + 1
                continue
            path = self.write_replay(dict(info, obligation='bounded_' + (v.get('finding') or 'case')))
            self.violations.append({'what': v['what'], 'replay': path, 'finding': v.get('finding')})
        return brep

    STALL_S = {'quick': 420, 'thorough': 1200}

    # ------------------------------------------------------------------ thorough tier: self-tests of the machinery
    def mutant_selftest(self, budget_s=900):
        """seeded in-memory mutants (mutants/*.json; nothing is written to /repo) of the functions under contract:
        each must turn at least one named obligation from discharged to not-discharged.  A guard against
        vacuous contracts and an unsound engine; survivors are reported, they are not violations of the
        property.  A mutant whose anchor text is no longer in the source is skipped."""
        import glob
        from .mutate import mutated_world_function, MutantBinder
        from .contract import verify_fragment
        plan = self.plan
        t0 = time.time()
        out = {'killed': 0, 'survived': [], 'skipped_anchor_missing': 0, 'not_run_budget': 0, 'undecided_unsupported_only': []}
        work = []
        for path in sorted(glob.glob(os.path.join(VERIF, 'mutants', '*.json'))):
            try:
                spec = json.load(open(path))
            except Exception:
                continue
            for m in spec.get('mutants', []):
                if len(m) == 3:
                    q, old, new = m
                    key = spec.get('verify', q)
                else:
                    q, key, old, new = m
                if key in plan.FUNCTIONS:
                    work.append((spec['modules'], q, key, old, new, os.path.basename(path)))
        # interleave the files so that a budget cut does not starve one function
        byfile = {}
        for w in work:
            byfile.setdefault(w[5], []).append(w)
        order = []
        while any(byfile.values()):
            for k in list(byfile):
                if byfile[k]:
                    order.append(byfile[k].pop(0))
        for mods, q, key, old, new, fname in order:
            if time.time() - t0 > budget_s:
                out['not_run_budget'] += 1
                continue
            try:
                w = World()
                for mod in mods:
                    importlib.import_module(mod).register(w)
                f, node = mutated_world_function(w, q, old, new)
            except ValueError:
                out['skipped_anchor_missing'] += 1
                continue
            except Exception as e:
                out['skipped_anchor_missing'] += 1
                continue
            w.bind = MutantBinder(w.bind, q, f, node)
            c = w.contracts[key]
            try:
                rep = verify_fragment(w, c) if getattr(c, 'is_fragment', False) else verify_function(w, c)
                smt.discharge(rep.obligations, tier='quick', seed=self.seed)
            except Exception as e:
                out['undecided_unsupported_only'].append('%s: %r (%s)' % (key, new[:60], type(e).__name__))
                continue
            bad = [o for o in rep.obligations if o.result != 'unsat']
            label = '%s: %r -> %r' % (key.replace('tangermeme.', ''), old[:50], new[:50])
            if bad:
                out['killed'] += 1
            elif rep.unsupported:
                out['undecided_unsupported_only'].append(label)
            else:
                out['survived'].append(label)
        out['seconds'] = round(time.time() - t0, 1)
        self.mutants = out
        self.log("  [self-test] mutants: %d killed, %d survived, %d only-unsupported, %d anchor-missing, %d not run (budget)  %.0fs" % (
            out['killed'], len(out['survived']), len(out['undecided_unsupported_only']), out['skipped_anchor_missing'], out['not_run_budget'], out['seconds']))
        for s_ in out['survived'][:6]:
            self.log("     SURVIVED " + s_)
        return out

    def second_solver_crosscheck(self, max_obligations=48, budget_s=240):
        """thorough tier: a sample of the obligations z3 discharged is given to cvc5 as well (independent solver).
        cvc5 answering `sat` where z3 answered `unsat` would point at a solver or encoding problem: it is reported as
        undecided for that obligation, never as a violation; `unknown` from cvc5 (quantifiers, lambdas) says nothing."""
        import random
        import subprocess
        import tempfile
        rng = random.Random(self.seed)
        cands = [o for o in getattr(self, 'allobs', []) if o.result == 'unsat' and o.backend == 'z3' and o.hyps and o.goal is not True]
        rng.shuffle(cands)
        out = {'sampled': 0, 'agree_unsat': 0, 'cvc5_unknown': 0, 'cvc5_sat': []}
        t0 = time.time()
        for ob in cands[:max_obligations]:
            if time.time() - t0 > budget_s:
                break
            try:
                text = smt.to_smt2(ob, light=True) or smt.to_smt2(ob)
            except Exception:
                continue
            if text is None:
                continue
            out['sampled'] += 1
            with tempfile.NamedTemporaryFile('w', suffix='.smt2', delete=False, dir=os.path.join(VERIF, '.cache')) as f:
                f.write('(set-logic ALL)\n' + text)
                path = f.name
            try:
                pr_ = subprocess.run(['/usr/bin/cvc5', '--tlimit=10000', path], capture_output=True, text=True, timeout=20)
                ans = (pr_.stdout.strip().split('\n') or [''])[0]
            except Exception:
                ans = 'unknown'
            finally:
                os.unlink(path)
            if ans == 'unsat':
                out['agree_unsat'] += 1
            elif ans == 'sat':
                # the light query drops hypotheses: sat there is expected when they were needed; repeat with all of them
                try:
                    full = smt.to_smt2(ob)
                    with tempfile.NamedTemporaryFile('w', suffix='.smt2', delete=False, dir=os.path.join(VERIF, '.cache')) as f:
                        f.write('(set-logic ALL)\n' + full)
                        path = f.name
                    pr_ = subprocess.run(['/usr/bin/cvc5', '--tlimit=10000', path], capture_output=True, text=True, timeout=20)
                    ans2 = (pr_.stdout.strip().split('\n') or [''])[0]
                    os.unlink(path)
                except Exception:
                    ans2 = 'unknown'
                if ans2 == 'sat':
                    out['cvc5_sat'].append(ob.name)
                    self.undecided.append({'obligation': ob.name, 'reason': 'z3: unsat, cvc5: sat on the same query (solver disagreement; no verdict)'})
                elif ans2 == 'unsat':
                    out['agree_unsat'] += 1
                else:
                    out['cvc5_unknown'] += 1
            else:
                out['cvc5_unknown'] += 1
        out['seconds'] = round(time.time() - t0, 1)
        self.crosscheck = out
        self.log("  [self-test] cvc5 cross-check of %d discharged obligations: %d agree, %d unknown, %d disagree  %.0fs" % (
            out['sampled'], out['agree_unsat'], out['cvc5_unknown'], len(out['cvc5_sat']), out['seconds']))
        return out

    def lean_recheck(self):
        """re-compile lean/Lemmas.lean (the lemma schemas whose instances the SMT side uses) with the installed
        Lean 4 / Mathlib; cached per content hash inside .cache"""
        import hashlib
        import subprocess
        src = os.path.join(VERIF, 'lean', 'Lemmas.lean')
        if not os.path.exists(src):
            return None
        h = hashlib.sha256(open(src, 'rb').read()).hexdigest()[:16]
        stamp = os.path.join(VERIF, '.cache', 'lean-ok-' + h)
        if os.path.exists(stamp):
            self.lean = {'file': 'lean/Lemmas.lean', 'sha256_16': h, 'result': 'ok (cached in this checkout)'}
            return self.lean
        t0 = time.time()
        try:
            p = subprocess.run(['lean', src], cwd='/opt/veriftools/mathlib4' if os.path.isdir('/opt/veriftools/mathlib4') else VERIF,
                               capture_output=True, text=True, timeout=1500)
            ok = p.returncode == 0 and 'error' not in (p.stdout + p.stderr).lower()
            res = 'ok' if ok else 'FAILED: ' + (p.stdout + p.stderr)[-400:]
        except Exception as e:
            ok, res = False, 'not run: %r' % (e,)
        if ok:
            os.makedirs(os.path.dirname(stamp), exist_ok=True)
            open(stamp, 'w').write('ok')
        self.lean = {'file': 'lean/Lemmas.lean', 'sha256_16': h, 'result': res, 'seconds': round(time.time() - t0, 1)}
        self.log("  [self-test] lean lean/Lemmas.lean: %s (%.0fs)" % (res[:80], time.time() - t0))
        return self.lean

    def library_conformance(self, rounds=10):
        """tools/conformance.py: the library theory (vf/lib.py) evaluated concretely against the real torch / numpy,
        and the assumed relations of the axiomatised operations restated over the real library's output"""
        import subprocess
        t0 = time.time()
        try:
            p = subprocess.run([sys.executable, os.path.join(VERIF, 'tools', 'conformance.py'), str(rounds)], cwd=VERIF,
                               capture_output=True, text=True, timeout=900,
                               env=dict(os.environ, PYTHONPATH=VERIF, PYTHONHASHSEED='0', VERIF_SEED=str(self.seed)))
            lines = [l for l in p.stdout.splitlines() if l.startswith('conformance:') or 'DISAGREE' in l]
            res = {'result': 'agree' if p.returncode == 0 else 'DISAGREEMENT (an axiom of the engine misstates the library; verdicts depending on it are unreliable)',
                   'report': lines[:12], 'seconds': round(time.time() - t0, 1)}
        except Exception as e:
            res = {'result': 'not run: %r' % (e,)}
        self.conformance = res
        self.log("  [self-test] library theory vs real torch/numpy: %s (%s)" % (res['result'][:60], (res.get('report') or [''])[0][:160]))
        return res

    def run_bounded_worker(self, modname, budget, replay_only=False):
        """the driver runs in a child process: a crash (signal) or a call into the real code that never
        returns is observed by the parent instead of taking the checker down or hanging it"""
        import subprocess
        import signal
        d = os.path.join(VERIF, '.cache', 'bounded')
        os.makedirs(d, exist_ok=True)
        tag = '%s_%d_%d' % (self.pid, os.getpid(), int(time.time() * 1000) % 1000000)
        out, prog = os.path.join(d, tag + '.json'), os.path.join(d, tag + '.progress')
        for f in (out, prog, prog + '.stack'):
            if os.path.exists(f):
                os.unlink(f)
        cmd = [sys.executable, '-m', 'vf.bworker', modname, self.pid, self.tier, str(self.seed), str(budget), out, prog]
        p = subprocess.Popen(cmd, cwd=VERIF, stdout=subprocess.DEVNULL, stderr=subprocess.DEVNULL)
        stall = self.STALL_S.get(self.tier, 420)
        t_start = time.time()
        status = 'ok'
        while True:
            try:
                p.wait(timeout=2.0)
                break
            except subprocess.TimeoutExpired:
                pass
            lastbeat = t_start
            try:
                lastbeat = max(lastbeat, os.path.getmtime(prog))
            except OSError:
                pass
            if time.time() - lastbeat > stall:
                status = 'stalled'
                try:
                    p.send_signal(signal.SIGUSR1)
                    time.sleep(2.0)
                except Exception:
                    pass
                p.kill()
                p.wait()
                break
        res = None
        if os.path.exists(out):
            try:
                res = json.load(open(out))
            except Exception:
                res = None
        progress, stack = None, ''
        try:
            progress = json.load(open(prog))
        except Exception:
            pass
        try:
            stack = open(prog + '.stack').read()[-3000:]
        except Exception:
            pass
        for f in (out, prog, prog + '.stack'):
            if os.path.exists(f):
                os.unlink(f)
        brep = BoundedResult(res, self.tier)
        if res is None:
            # no result file: the worker died (signal) or was killed after a stall
            rc = p.returncode
            # the drivers are plain Python over torch / numpy: a fatal signal raised inside the process (SIGSEGV,
            # SIGABRT from a corrupted heap, SIGFPE, SIGBUS, SIGILL) or a call that never returns comes from the
            # natively compiled code under test (numba kernels).  A kill from outside (SIGKILL, SIGTERM: e.g.
            # the OOM killer) is a checker error, not a verdict.
            fatal = rc is not None and rc < 0 and -rc in (signal.SIGSEGV, signal.SIGABRT, signal.SIGFPE, signal.SIGBUS, signal.SIGILL)
            died = status == 'stalled' or fatal
            in_repo = True
            what = ('bounded driver %s: a call into the code under test %s (last heartbeat after %s evaluations, sections %s)'
                    % (modname, 'did not return within %d s' % stall if status == 'stalled' else 'killed the interpreter (signal %s)' % (-rc if rc else '?'),
                       (progress or {}).get('evaluations'), (progress or {}).get('sections')))
            brep.notes.append(what)
            brep.notes.append('python stack of the worker: ' + stack[-1500:])
            if died and in_repo and not replay_only:
                brep.violations.append({'what': what + '; stack: ' + ' | '.join(l.strip() for l in stack.splitlines() if 'File' in l)[-600:],
                                        'case': {'kind': 'worker-died', 'driver': modname, 'tier': self.tier, 'seed': self.seed, 'budget': budget,
                                                 'status': status, 'progress': progress, 'stack': stack[-2000:]},
                                        'finding': 'real-code-crash-or-hang'})
            elif not died or not in_repo:
                self.bounded_crash = True
            brep.died = died and in_repo
        elif res.get('crash'):
            brep.notes.append('driver crashed: ' + res['crash'])
            self.bounded_crash = True
        return brep

    def match_known(self, v):
        for kf in self.kf.get('open', []):
            if kf.get('property') == self.pid and v.get('finding') and kf.get('finding') == v.get('finding'):
                return kf
        return None

    # ------------------------------------------------------------------ evidence
    def finish(self):
        plan = self.plan
        obs = getattr(self, 'allobs', [])
        n_ob = len(obs)
        n_dis = sum(1 for o in obs if o.result == 'unsat')
        # obligations refuted by the solver whose model did not replay: still a violation of the named
        # obligation when it sits on an entry path (no havoc upstream), reported without input
        by_backend = Counter(o.backend for o in obs if o.result == 'unsat')
        solver_s = sum(o.seconds for o in obs)
        funcs = []
        for rep in getattr(self, 'reports', []):
            rec = dict(self.world.bind.records.get(rep.qualname, {'name': rep.qualname}))
            rec.update({'obligations': len(rep.obligations), 'discharged': sum(1 for o in rep.obligations if o.result == 'unsat'),
                        'configs': rep.configs, 'paths': rep.paths, 'return_paths': rep.returns, 'raise_paths': rep.raises,
                        'vcgen_s': round(rep.seconds, 2)})
            c_ = getattr(rep, 'contract', None)
            if c_ is not None and getattr(c_, 'is_fragment', False):
                # a fragment contract: which statements of the function are under contract, and what the contract says
                rec['fragment'] = getattr(c_, 'key', rep.qualname).split('#')[-1]
                blk = getattr(c_, 'stmt_block', None) or getattr(c_, 'stmt_range', None)
                rec['fragment_of'] = ('statements from %r %s' % (blk[0], ('to %r' % (blk[1],)) if not isinstance(blk[1], int) else '(%d statement(s))' % blk[1])) if blk else ('body of loop #%s' % getattr(c_, 'loop_ordinal', '?'))
            if c_ is not None and (c_.__doc__ or '').strip():
                rec['contract'] = ' '.join((c_.__doc__ or '').split())[:600]
            funcs.append(rec)
        trusted = set()
        for rep in getattr(self, 'reports', []):
            trusted |= rep.trusted
        assumed_contracts = sorted(t for t in trusted)
        level = plan.LEVEL
        proof_ok = n_ob > 0 and n_dis == n_ob and not self.undecided
        if level == 'proof' and not proof_ok:
            level = 'other'
        samples = []
        for o in obs[:200]:
            if o.backend != 'trivial' and len(samples) < 6:
                samples.append('%s %s %.2fs [%s]' % (o.name, o.result, o.seconds, o.backend))
        cov = {
            'obligations': n_ob, 'discharged': n_dis,
            'checker_cmd': './check %s --tier %s' % (self.pid, self.tier),
            'by_backend': dict(by_backend), 'solver_s': round(solver_s, 2), 'solver_wall_s': round(getattr(self, 'solver_wall', 0.0), 2),
            'functions': funcs,
            'undecided': self.undecided[:50],
            'trusted_base': ['z3 5.1.0 (Python API) / cvc5 1.0.3', 'pyvc VC generator (vf/)', 'vf/lib.py axioms of torch/numpy primitives'] +
                            ['assumed ' + t for t in assumed_contracts] + list(getattr(plan, 'TRUSTED', [])),
            'samples': samples or ['(no deductive obligations for this property in this run)'],
            'explanation': plan.EXPLANATION,
        }
        if getattr(self, 'frame', None) is not None:
            cov['frame_no_module_state'] = dict(self.frame, result=('holds: no function of the anchored files writes module-level state'
                                                                    if not self.frame['writes'] else 'writes found (undecided, see bounded layer)'))
        if getattr(self, 'vc_cached', 0):
            cov['vc_results_reused'] = ('%d function(s): obligations generated and discharged earlier in this checkout for the same repository '
                                        'sources, verifier code, tier and seed (by the check of another property) were reused' % self.vc_cached)
        if getattr(self, 'small_scope_cut', 0):
            cov['small_scope_refutation_cut_by_budget'] = self.small_scope_cut
        if getattr(self, 'replay_errors', None):
            cov['replay_errors'] = self.replay_errors
            for e_ in self.replay_errors[:2]:
                self.log("  [replay] internal error while replaying a counter-model (no verdict from it): " + e_.strip().splitlines()[-1][:200])
        if getattr(self, 'mutants', None) is not None:
            cov['mutant_selftest'] = self.mutants
        if getattr(self, 'lean', None) is not None:
            cov['lean_lemma_file'] = self.lean
        if getattr(self, 'crosscheck', None) is not None:
            cov['second_solver_crosscheck'] = self.crosscheck
        if getattr(self, 'conformance', None) is not None:
            cov['library_conformance'] = self.conformance
        if self.brep is not None:
            b = self.brep.summary(self.bscope)
            cov['bounded'] = b
            cov['evaluations'] = max(b['evaluations'], 1)
            cov['distinct_nontrivial'] = max(b['distinct_nontrivial'], 0)
            cov['rule'] = getattr(plan, 'BOUNDED_RULE', 'bounded stand-in cases are enumerated / drawn as described in bounded.scope; a case is non-trivial when it exercises the property clause (not rejected at validation) and distinct by the hash of its inputs')
            if len(cov['samples']) < 8:
                cov['samples'] = cov['samples'] + [{'bounded_case': s} for s in b['samples'][:3]]
        if level == 'proof' and (n_ob == 0):
            level = 'other'
        if level != 'proof' and self.brep is None and 'evaluations' not in cov:
            cov['evaluations'] = max(n_ob, 1)
            cov['distinct_nontrivial'] = max(n_dis, 2)
        ev = {
            'property_id': self.pid, 'tier': self.tier, 'seed': self.seed, 'level': level,
            'coverage': cov,
            'assumptions': BASE_ASSUMPTIONS + list(getattr(plan, 'ASSUMPTIONS', [])),
            'wall_s': round(time.time() - self.t0, 2),
            'violations': len(self.violations),
        }
        # development runs against a scratch copy of the repository (VERIF_REPO) never touch the committed
        # evidence: that is written only by runs against /repo itself
        evdir = os.path.join(VERIF, '.cache', 'scratch-evidence') if os.environ.get('VERIF_REPO') else os.path.join(VERIF, 'evidence')
        os.makedirs(evdir, exist_ok=True)
        try:
            import jsonschema
            schema = json.load(open(os.path.join(VERIF, 'schemas', 'EVIDENCE.schema.json')))
            jsonschema.validate(ev, schema)
        except FileNotFoundError:
            pass
        with open(os.path.join(evdir, self.pid + '.json'), 'w') as f:
            json.dump(ev, f, indent=1, default=str)
        self.log("  obligations=%d discharged=%d undecided=%d  bounded=%s  level=%s  wall=%.1fs" % (
            n_ob, n_dis, len(self.undecided), (self.brep.evaluations if self.brep else 0), level, time.time() - self.t0))
        for u in self.undecided[:10]:
            self.log("  UNDECIDED %s: %s" % (u['obligation'], u['reason']))
        for kf, v in self.known:
            self.log("KNOWN-FINDING: property=%s %s" % (self.pid, kf.get('what', v['what'])))
        if getattr(self, 'suppressed', 0):
            self.log("  (%d further bounded-layer violations of the same kinds not listed individually)" % self.suppressed)
        for v in self.violations:
            suffix = ' no-failing-input-found' if v.get('nofail') else ''
            self.log("VIOLATION property=%s replay=%s%s" % (self.pid, v['replay'], suffix))
            self.log("   " + v['what'][:300])
        return 1 if self.violations else 0


def run_property(pid, tier, seed):
    plan = importlib.import_module('props.' + pid)
    pr = PropertyRun(plan, tier, seed)
    pr.log("== %s (%s) tier=%s seed=%d" % (pid, plan.TITLE, tier, seed))
    try:
        pr.frame_scan()
    except Exception:
        pass
    if plan.FUNCTIONS:
        pr.deductive()
        pr.triage()
        if tier == 'thorough':
            try:
                pr.mutant_selftest()
            except Exception:
                pr.log("  [self-test] mutant self-test failed to run: " + traceback.format_exc()[-300:])
            try:
                pr.second_solver_crosscheck()
            except Exception:
                pr.log("  [self-test] cvc5 cross-check failed to run: " + traceback.format_exc()[-300:])
            try:
                pr.lean_recheck()
            except Exception:
                pass
            try:
                pr.library_conformance()
            except Exception:
                pass
    pr.bounded()
    if getattr(pr, 'bounded_crash', False) and not pr.violations:
        pr.finish()
        pr.log("checker error: bounded driver crashed (see evidence notes)")
        return 3
    return pr.finish()


def replay_file(pid, path):
    info = json.load(open(path))
    plan = importlib.import_module('props.' + pid)
    if 'bounded' in info and isinstance(info.get('case'), dict) and info['case'].get('kind') == 'worker-died':
        # the stored event is "the driver's run with this seed crashed / hung inside the code under test":
        # the same run is repeated (in a watched child process)
        c = info['case']
        pr = PropertyRun(plan, c.get('tier', 'quick'), int(c.get('seed', 0)))
        brep = pr.run_bounded_worker(c['driver'], c.get('budget', 60))
        if getattr(brep, 'died', False):
            print("  still violates:", brep.violations[0]['what'][:400] if brep.violations else 'worker died again')
            print("VIOLATION property=%s replay=%s" % (pid, path))
            return 1
        print("replay: the driver run completes on the current tree")
        return 0
    if 'bounded' in info:
        mod = importlib.import_module(info['bounded'])
        out = mod.replay(info['case'])
        for o in out:
            print("  still violates:", o)
        if out:
            print("VIOLATION property=%s replay=%s" % (pid, path))
            return 1
        print("replay: the stored case satisfies the property on the current tree")
        return 0
    from .concrete import check_concrete, from_json
    from .models import FACTORIES
    world = build_world(plan)
    if 'boundscheck' in info:
        from . import boundscheck
        c = world.contracts[info['function']]
        hit = boundscheck.fuzz(world.bind.resolve(info['function']), c, info['cfg'], seed=info['boundscheck'].get('seed', 0), tries=3000, budget_s=300)
        if hit:
            print("  still violates: %s on %s" % (hit[1], hit[0][:300]))
            print("VIOLATION property=%s replay=%s" % (pid, path))
            return 1
        print("replay: every array access of the kernel stays inside its array on the stored input family (current tree)")
        return 0
    if 'injected' in info:
        c = world.contracts[info['function']]
        viol = c.replay_injected(info['cfg'], info['injected'].get('raised'), info['injected'].get('site'))
        for v in viol:
            print("  still violates:", v)
        if viol:
            print("VIOLATION property=%s replay=%s" % (pid, path))
            return 1
        print("replay: the stored injected failure leaves the property intact on the current tree")
        return 0
    if 'fragment' in info:
        c = world.contracts[info['fragment']]
        viol = c.replay_fragment(info['cfg'], info['fragment_state'])
        for v in viol:
            print("  still violates:", v)
        if viol:
            print("VIOLATION property=%s replay=%s" % (pid, path))
            return 1
        print("replay: the stored fragment state satisfies the contract on the current tree")
        return 0
    c = world.contracts[info['function']]
    mod, _, name = info['function'].rpartition('.')
    pyfn = getattr(importlib.import_module(mod), name)
    if 'args' not in info:
        print("replay file carries no concrete input (no-failing-input-found); obligation:", info.get('obligation'))
        return 0
    outcome, viol = check_concrete(c, info['cfg'], pyfn, from_json(info['args']), from_json(info['kwargs']))
    for v in viol:
        print("  still violates:", v['label'], '-', v['detail'])
    if viol:
        print("VIOLATION property=%s replay=%s" % (pid, path))
        return 1
    print("replay: contract holds on the stored input on the current tree")
    return 0
