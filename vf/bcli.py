"""development runner for one bounded driver: ./bcheck Cxx [--tier quick|thorough] [--budget S]"""
import argparse, importlib, json, os, sys, traceback


def main():
    ap = argparse.ArgumentParser()
    ap.add_argument('pid')
    ap.add_argument('--tier', default='quick')
    ap.add_argument('--budget', type=float, default=None)
    ap.add_argument('--replay', default=None)
    a = ap.parse_args()
    import warnings
    warnings.filterwarnings('ignore')
    import torch
    torch.set_num_threads(1)
    from vf.bounded import BoundedReport
    mod = importlib.import_module('bounded.' + a.pid)
    if a.replay:
        case = json.load(open(a.replay))
        case = case.get('case', case)
        print(mod.replay(case))
        return
    rep = BoundedReport(a.pid, a.tier, int(os.environ.get('VERIF_SEED', '0')), a.budget or (60 if a.tier == 'quick' else 600))
    try:
        mod.run(rep)
    except Exception:
        traceback.print_exc()
    s = rep.summary(mod.SCOPE[a.tier])
    print(json.dumps({k: v for k, v in s.items() if k != 'samples'}, indent=1))
    print('samples:', json.dumps(s['samples'][:3], default=str)[:1500])
    seen = {}
    for v in rep.violations:
        k = (v.get('finding'), v['what'][:80])
        seen.setdefault(k, []).append(v)
    for k, vs in seen.items():
        print('VIOLATION x%d finding=%s: %s' % (len(vs), k[0], vs[0]['what'][:300]))
        print('   first case:', json.dumps(vs[0]['case'], default=str)[:600])
        out = mod.replay(json.loads(json.dumps(vs[0]['case'], default=str)))
        print('   replay of first case ->', out[:2])


if __name__ == '__main__':
    main()
