"""pyvc — forward symbolic executor with contracts over the real Python AST (DESIGN §2.2).

One `Ctx` = one path.  Paths are enumerated by re-execution with a decision prefix.  Loops with a
symbolic trip count are cut by sidecar invariants (assert on entry / havoc / assume / body /
assert).  Calls to repository functions use the callee's contract when one is registered for the
call (modular), otherwise the callee body is inlined.
"""
import ast
import inspect
import itertools
import textwrap
import types

import z3

from . import ops as O
from .ops import And, Or, Not, ite, Implies
from .tensor import Tn, Cell, Unsupported, basic_index, norm_slice
from .values import (SymRaise, PathEnd, SStr, DType, Opaque, LibFn, BoundMethod, RepoFn, PyType,
                     Iter, CatList, StackList, UNDEF, ModuleRef, StarAbstract, KeyedLists, KeyedListRef)


_SK = itertools.count()


def skolemize_hyp(c):
    """a hypothesis of the form  not (forall x. B)  or  exists x. B  becomes  not B[sk]  /  B[sk]  with fresh
    constants (skolemisation of a top-level existential: equisatisfiable, and the fact is then quantifier-free - it
    reaches the in-path solver and the light queries)"""
    try:
        if not isinstance(c, z3.ExprRef):
            return c
        neg = False
        q = c
        if z3.is_not(c) and z3.is_quantifier(c.arg(0)) and c.arg(0).is_forall():
            q, neg = c.arg(0), True
        elif z3.is_quantifier(c) and c.is_exists():
            q = c
        else:
            return c
        n = q.num_vars()
        consts = [z3.Const('sk!%d!%s' % (next(_SK), q.var_name(i)), q.var_sort(i)) for i in range(n)]
        body = z3.substitute_vars(q.body(), *reversed(consts))
        out = z3.Not(body) if neg else body
        return skolemize_hyp(z3.simplify(out)) if (z3.is_quantifier(out) or z3.is_not(out)) and False else out
    except Exception:
        return c


class Obligation:
    def __init__(self, name, hyps, goal, kind, path, meta=None):
        self.name = name
        self.hyps = hyps
        self.goal = goal
        self.kind = kind
        self.path = path
        self.meta = meta or {}
        self.result = None
        self.seconds = 0.0
        self.backend = None
        self.detail = None


class PrefixStop(Exception):
    """the verified prefix of the function ends here (prefix contracts)"""

    def __init__(self, env):
        self.env = env


class _Break(Exception):
    pass


class _Continue(Exception):
    pass


class _Return(Exception):
    def __init__(self, v):
        self.v = v


MAX_UNROLL = 40


_HQ_CACHE = {}


def has_quantifier(e):
    if not isinstance(e, z3.ExprRef):
        return False
    k = e.get_id()
    ent = _HQ_CACHE.get(k)
    if ent is not None and ent[0].eq(e):
        return ent[1]
    if z3.is_quantifier(e):
        r = True
    else:
        r = any(has_quantifier(ch) for ch in e.children())
    if len(_HQ_CACHE) < 200000:
        # the term is kept with the verdict: AST ids are reused once a term is collected
        _HQ_CACHE[k] = (e, r)
    return r


class Ctx:
    """state of one path"""

    def __init__(self, prefix=(), fname='?', opts=None):
        self.prefix = list(prefix)
        self.taken = []
        self.pending = []
        self.pc = []
        self.obls = []
        self.fname = fname
        self.opts = opts or {}
        self.ghost = {'grad_enabled': True, 'hooks_live': 0}
        self.events = []
        self.trusted = set()
        self.solver = z3.Solver()
        self.solver.set('rlimit', 600000)
        self.solver.set('timeout', 30000)   # safety net only: the deterministic rlimit is the effective bound
        self.full_solver = z3.Solver()
        self.full_solver.set('rlimit', 400000)
        self.nquant = 0
        self.safety = False
        self.modifies = set()
        self.frame_checked = True
        self.depth = 0
        self.nobl = 0
        self.loop_stack = []
        self.lemmas = []
        self.sitectr = itertools.count()
        self.notes = []
        self.approx = False   # True once the path went through a havoc / an under-determined callee contract
        self.prange = []      # stack of dicts(var=iteration index term, tid=thread id term, cell0=first cell id of the iteration)

    # -- path condition
    def assume(self, c):
        c = O.simp(c)
        if c is True:
            return
        if c is False:
            raise PathEnd()
        c = skolemize_hyp(c)
        self.pc.append(c)
        # the in-path feasibility solver only sees quantifier-free facts (fewer facts = more
        # paths explored, never fewer: sound); obligations always carry the full path condition
        if not has_quantifier(c):
            self.solver.add(c)
        else:
            self.nquant += 1
        self.full_solver.add(c)

    def feasible(self, c):
        r = self.solver.check(O.to_z3(c))
        if r == z3.unsat:
            return False
        if self.nquant:
            # quantified facts (axioms, invariants) may make the branch infeasible: short second look
            r = self.full_solver.check(O.to_z3(c))
            return r != z3.unsat
        return True

    def entails(self, c):
        """quick in-path proof attempt (used for shape reasoning); False means 'not proved'"""
        c = O.simp(c)
        if c is True:
            return True
        if c is False:
            return False
        r = self.solver.check(z3.Not(c))
        return r == z3.unsat

    def branch(self, cond):
        cond = O.simp(cond)
        if cond is True or cond is False:
            return cond
        if not O.is_sym(cond):
            return bool(cond)
        k = len(self.taken)
        if k < len(self.prefix):
            d = self.prefix[k]
        else:
            ft = self.feasible(cond)
            ff = self.feasible(z3.Not(cond))
            if ft and ff:
                d = True
                self.pending.append(self.taken + [False])
            elif ft:
                d = True
            elif ff:
                d = False
            else:
                raise PathEnd()
        self.taken.append(d)
        self.assume(cond if d else z3.Not(cond))
        return d

    def choose(self, n):
        """non-deterministic structural choice among n alternatives (all explored)"""
        for i in range(n - 1):
            k = len(self.taken)
            if k < len(self.prefix):
                d = self.prefix[k]
            else:
                d = True
                self.pending.append(self.taken + [False])
            self.taken.append(d)
            if d:
                return i
        return n - 1

    # -- obligations
    def oblige(self, label, goal, kind, meta=None):
        goal = O.simp(goal)
        self.nobl += 1
        name = "%s/%s" % (self.fname, label)
        ob = Obligation(name, list(self.pc), goal, kind, list(self.taken), meta)
        ob.lemmas = list(self.lemmas)
        ob.approx = self.approx
        self.obls.append(ob)
        # subsequent code may rely on it (it is checked separately)
        if goal is not True and goal is not False and O.is_sym(goal) and kind not in ('ensures', 'raises', 'accepts', 'exc-post'):
            self.assume(goal)
        return ob

    def may_raise(self, cond, kind, site=None):
        if self.branch(cond):
            raise SymRaise(kind, site)

    def raise_now(self, kind, site=None):
        raise SymRaise(kind, site)

    def index_check(self, bad, good, t, dim, site):
        """integer subscript: in numba code -> safety obligation; otherwise an IndexError path"""
        if self.safety:
            if self.opts.get('no_index'):
                return      # this contract does not cover index safety (stated in its docstring / plan)
            self.oblige("index-safety@%s" % (site or next(self.sitectr)), good, 'index')
        else:
            self.may_raise(bad, 'IndexError', site)

    def on_write(self, t):
        self.nwrites = getattr(self, 'nwrites', 0) + 1
        if self.prange:
            pr = self.prange[-1]
            if t.cell.id < pr['cell0']:
                # a store to an array shared between prange iterations: its leading index must be the
                # iteration index (or this thread's id) -- iterations then write disjoint locations
                m0 = t.imap[0] if t.imap else None
                ok = False
                if m0 is not None and m0[0] == 'fix':
                    ok = Or(O.eq(m0[1], pr['var']), O.eq(m0[1], pr['tid'])) if pr.get('tid') is not None else O.eq(m0[1], pr['var'])
                self.oblige("prange-frame:iteration-writes-own-slice@%s" % next(self.sitectr), ok, 'frame')
        org = t.cell.origin
        if org.startswith('param:') and self.frame_checked:
            nm = org[len('param:'):]
            if nm not in self.modifies:
                self.oblige("frame:no-write-to-%s" % nm, False, 'frame')


# ---------------------------------------------------------------------------------------------

def assigned_names(nodes):
    """names (re)bound, and names whose object is mutated in place, inside a list of statements"""
    bound, mutated = set(), set()

    def tgt(t):
        if isinstance(t, ast.Name):
            bound.add(t.id)
        elif isinstance(t, (ast.Tuple, ast.List)):
            for e in t.elts:
                tgt(e)
        elif isinstance(t, ast.Starred):
            tgt(t.value)
        elif isinstance(t, (ast.Subscript, ast.Attribute)):
            b = t
            while isinstance(b, (ast.Subscript, ast.Attribute)):
                b = b.value
            if isinstance(b, ast.Name):
                mutated.add(b.id)
    for n in nodes:
        for x in ast.walk(n):
            if isinstance(x, ast.Assign):
                for t in x.targets:
                    tgt(t)
            elif isinstance(x, (ast.AugAssign, ast.AnnAssign)):
                tgt(x.target)
                if isinstance(x, ast.AugAssign) and isinstance(x.target, ast.Name):
                    mutated.add(x.target.id)
            elif isinstance(x, (ast.For, ast.comprehension)):
                tgt(x.target)
            elif isinstance(x, ast.With):
                for it in x.items:
                    if it.optional_vars is not None:
                        tgt(it.optional_vars)
            elif isinstance(x, ast.Call) and isinstance(x.func, ast.Attribute):
                if x.func.attr in ('append', 'extend', 'scatter_add_', 'shuffle', 'add_', 'fill_', 'insert', 'pop', 'update', 'requires_grad_'):
                    b = x.func.value
                    while isinstance(b, (ast.Subscript, ast.Attribute)):
                        b = b.value
                    if isinstance(b, ast.Name):
                        mutated.add(b.id)
            elif isinstance(x, ast.Delete):
                for t in x.targets:
                    if isinstance(t, ast.Name):
                        bound.add(t.id)
    return bound, mutated


class Env(dict):
    pass


def loop_ordinals(fd):
    """static numbering of the for/while statements of a function in source order (1-based);
    comprehensions do not count, nested function definitions are skipped"""
    out = {}
    n = [0]

    def visit(stmts):
        for st in stmts:
            if isinstance(st, (ast.For, ast.While)):
                n[0] += 1
                out[id(st)] = n[0]
            if isinstance(st, (ast.FunctionDef, ast.ClassDef)):
                continue
            for fld in ('body', 'orelse', 'finalbody'):
                sub = getattr(st, fld, None)
                if isinstance(sub, list):
                    visit(sub)
            if isinstance(st, ast.Try):
                for h in st.handlers:
                    visit(h.body)
    visit(fd.body)
    return out


class EnvView:
    """attribute access to the variables of a frame (what invariants are written against)"""

    def __init__(self, env, extra=None):
        object.__setattr__(self, '_env', env)
        object.__setattr__(self, '_extra', extra or {})

    def __getattr__(self, k):
        if k in self._extra:
            return self._extra[k]
        if k in self._env:
            return self._env[k]
        raise InvariantNotApplicable("invariant mentions unknown variable %r" % k)

    def __contains__(self, k):
        return k in self._env or k in self._extra


class InvariantNotApplicable(Exception):
    pass


class Interp:
    def __init__(self, ctx, world):
        self.ctx = ctx
        self.world = world      # World: contracts registry, lib table, loop specs

    # ------------------------------------------------------------------ function entry
    def get_ast(self, pyfn):
        return self.world.bind.function_ast(pyfn)

    def call_repo(self, rf, args, kwargs, use_contract=True):
        w = self.world
        c = w.contract_for_call(rf.qualname, self.ctx) if use_contract else None
        if c is not None:
            return c.apply_at_call(self, rf, args, kwargs)
        if self.ctx.depth >= 4:
            raise Unsupported("inlining depth exceeded at %s" % rf.qualname)
        return self.run_function(rf.pyobj, rf.qualname, args, kwargs)

    def bind_args(self, fd, pyfn, args, kwargs):
        a = fd.args
        names = [x.arg for x in a.posonlyargs + a.args]
        env = Env()
        defaults = a.defaults
        ndef = len(defaults)
        kwargs = dict(kwargs)
        for i, nme in enumerate(names):
            if i < len(args):
                env[nme] = args[i]
            elif nme in kwargs:
                env[nme] = kwargs.pop(nme)
            else:
                j = i - (len(names) - ndef)
                if j < 0:
                    raise SymRaise('TypeError')
                env[nme] = self.default_value(pyfn, nme, defaults[j])
        if len(args) > len(names):
            if a.vararg is None:
                raise SymRaise('TypeError')
            env[a.vararg.arg] = tuple(args[len(names):])
        elif a.vararg is not None:
            env[a.vararg.arg] = ()
        for k, dflt in zip(a.kwonlyargs, a.kw_defaults):
            if k.arg in kwargs:
                env[k.arg] = kwargs.pop(k.arg)
            else:
                env[k.arg] = self.default_value(pyfn, k.arg, dflt)
        if a.kwarg is not None:
            env[a.kwarg.arg] = kwargs
        elif kwargs:
            raise SymRaise('TypeError')
        return env

    def default_value(self, pyfn, name, node):
        fenv = Env()
        fr = Frame(self, fenv, pyfn, None)
        return fr.ev(node)

    def run_function(self, pyfn, qualname, args, kwargs):
        fd = self.get_ast(pyfn)
        env = self.bind_args(fd, pyfn, args, kwargs)
        fr = Frame(self, env, pyfn, qualname)
        fr.loop_ids = loop_ordinals(fd)
        old_safety = self.ctx.safety
        if self.world.is_numba(pyfn, fd):
            self.ctx.safety = True
            self.ctx.opts['numba_error_model'] = self.world.numba_error_model(fd)
        self.ctx.depth += 1
        stop = self.ctx.opts.get('stop_before') if self.ctx.depth == 1 else None
        try:
            for st in fd.body:
                if stop is not None and ast.unparse(st).replace('\n', ' ').startswith(stop):
                    raise PrefixStop(fr.env)
                fr.stmt(st)
            if stop is not None:
                raise Unsupported("prefix anchor %r not found in %s" % (stop, qualname))
            return None
        except _Return as r:
            return r.v
        finally:
            self.ctx.depth -= 1
            self.ctx.safety = old_safety


class Frame:
    def __init__(self, interp, env, pyfn, qualname):
        self.I = interp
        self.ctx = interp.ctx
        self.env = env
        self.pyfn = pyfn
        self.qualname = qualname
        self.loop_ord = 0
        self.loop_ids = {}
        self.globals = getattr(pyfn, '__globals__', {}) if pyfn is not None else {}

    # ------------------------------------------------------------------ statements
    def block(self, body):
        for st in body:
            self.stmt(st)

    def stmt(self, st):
        m = getattr(self, 'st_' + type(st).__name__, None)
        if m is None:
            raise Unsupported("statement %s" % type(st).__name__)
        return m(st)

    def st_Expr(self, st):
        if isinstance(st.value, ast.Constant):
            return
        self.ev(st.value)

    def st_Pass(self, st):
        pass

    def st_Import(self, st):
        raise Unsupported("import inside function")

    st_ImportFrom = st_Import

    def st_Assert(self, st):
        v = self.truth(self.ev(st.test))
        self.ctx.may_raise(Not(v), 'AssertionError')

    def st_Return(self, st):
        raise _Return(self.ev(st.value) if st.value is not None else None)

    def st_Raise(self, st):
        kind = 'Exception'
        e = st.exc
        if e is None:
            kind = getattr(self, '_active_exc', None) or 'Exception'
            if getattr(self, '_active_site', None) is not None:
                # bare `raise` inside a handler: the exception being handled propagates (same failure, same origin)
                raise SymRaise(kind, self._active_site)
        elif isinstance(e, ast.Call):
            kind = ast.unparse(e.func)
        elif isinstance(e, ast.Name):
            v = self.env.get(e.id)
            if isinstance(v, Opaque) and v.cls == 'exception':
                kind = v.attrs.get('kind', 'Exception')
                if v.attrs.get('site') is not None:
                    # re-raise of a caught exception: it is still the original failure
                    raise SymRaise(kind, v.attrs['site'])
            else:
                kind = e.id
        raise SymRaise(kind, getattr(st, 'lineno', None))

    def st_Delete(self, st):
        for t in st.targets:
            if isinstance(t, ast.Name):
                self.env.pop(t.id, None)
            elif isinstance(t, ast.Attribute):
                obj = self.ev(t.value)
                self.del_attr(obj, t.attr)
            else:
                raise Unsupported("del of %s" % type(t).__name__)

    def del_attr(self, obj, attr):
        if isinstance(obj, Opaque):
            h = self.I.world.lib.get('delattr:' + obj.cls)
            if h is not None:
                return h(self, obj, attr)
            obj.attrs.pop(attr, None)
            return
        raise Unsupported("del attribute on %r" % (obj,))

    def st_Continue(self, st):
        raise _Continue()

    def st_Break(self, st):
        raise _Break()

    def st_If(self, st):
        c = self.truth(self.ev(st.test))
        if self.ctx.branch(c):
            self.block(st.body)
        else:
            self.block(st.orelse)

    def st_Assign(self, st):
        v = self.ev(st.value)
        for t in st.targets:
            self.assign(t, v)

    def st_AnnAssign(self, st):
        if st.value is not None:
            self.assign(st.target, self.ev(st.value))

    def st_AugAssign(self, st):
        cur = self.ev(st.target)
        rhs = self.ev(st.value)
        if isinstance(cur, Tn) and isinstance(st.target, ast.Name):
            # in-place tensor arithmetic: x -= y mutates x's cell
            res = self.I.world.lib_call(self, 'binop', [type(st.op).__name__, cur, rhs], {})
            cur.write([('all',)] * cur.rank, res, self.ctx)
            return
        res = self.binop(st.op, cur, rhs)
        self.assign(st.target, res)

    def assign(self, t, v):
        if isinstance(t, ast.Name):
            self.env[t.id] = v
        elif isinstance(t, (ast.Tuple, ast.List)):
            items = self.unpack(v, len(t.elts))
            for e, x in zip(t.elts, items):
                self.assign(e, x)
        elif isinstance(t, ast.Subscript):
            base = self.ev(t.value)
            key = self.ev_key(t.slice)
            self.store(base, key, v, getattr(t, 'lineno', None))
        elif isinstance(t, ast.Attribute):
            obj = self.ev(t.value)
            self.set_attr(obj, t.attr, v)
        else:
            raise Unsupported("assignment target %s" % type(t).__name__)

    def set_attr(self, obj, attr, v):
        if isinstance(obj, Opaque):
            h = self.I.world.lib.get('setattr:' + obj.cls)
            if h is not None:
                return h(self, obj, attr, v)
            obj.attrs[attr] = v
            return
        raise Unsupported("attribute store on %r" % (obj,))

    def unpack(self, v, n):
        if isinstance(v, (tuple, list)):
            if len(v) != n:
                raise SymRaise('ValueError')
            return list(v)
        if isinstance(v, Tn):
            d0 = v.shape[0] if v.rank > 0 else None
            if d0 is None:
                raise SymRaise('TypeError')
            if O.is_conc(d0):
                if O.conc_int(d0) != n:
                    raise SymRaise('ValueError')
            else:
                self.ctx.may_raise(O.ne(d0, n), 'ValueError')
            out = []
            for i in range(n):
                r = basic_index(v, (i,), None)
                out.append(r.elem() if r.rank == 0 else r)
            return out
        raise Unsupported("unpack of %r" % (type(v),))

    def store(self, base, key, v, site):
        if isinstance(base, Tn):
            return self.I.world.lib_call(self, 'setitem', [base, key, v], {'site': site})
        if isinstance(base, list):
            k = O.simp(key)
            if isinstance(k, int):
                if not (-len(base) <= k < len(base)):
                    raise SymRaise('IndexError')
                base[k] = v
                return
            raise Unsupported("list store with symbolic index")
        from .values import GlobalDict, GlobalList
        if isinstance(base, (GlobalDict, GlobalList)):
            # module-level state outlives the call: results of later calls would depend on this one
            self.ctx.oblige('frame:no-write-to-module-state:%s' % base.gname, False, 'frame')
        if isinstance(base, dict):
            base[self.hashable(key)] = v
            return
        if isinstance(base, Opaque):
            h = self.I.world.lib.get('setitem:' + base.cls)
            if h is not None:
                return h(self, base, key, v)
        raise Unsupported("store into %r" % (type(base),))

    def hashable(self, k):
        k = O.simp(k)
        if isinstance(k, (int, str, bool, float, tuple)) or k is None:
            return k
        if isinstance(k, (LibFn, DType)):
            return ('libref', k.name)   # a class / dtype object used as a key
        raise Unsupported("symbolic dict key")

    def st_With(self, st):
        mgrs = []
        for it in st.items:
            m = self.ev(it.context_expr)
            ent = self.I.world.lib_call(self, 'with_enter', [m], {})
            mgrs.append(m)
            if it.optional_vars is not None:
                self.assign(it.optional_vars, ent)
        try:
            self.block(st.body)
        finally:
            for m in reversed(mgrs):
                self.I.world.lib_call(self, 'with_exit', [m], {})

    def st_Try(self, st):
        try:
            try:
                self.block(st.body)
            except SymRaise as e:
                handled = False
                for h in st.handlers:
                    if self.handler_matches(h, e.kind):
                        handled = True
                        if h.name:
                            self.env[h.name] = Opaque('exc', 'exception', {'kind': e.kind, 'site': e.site})
                        old = (getattr(self, '_active_exc', None), getattr(self, '_active_site', None))
                        self._active_exc, self._active_site = e.kind, e.site
                        try:
                            self.block(h.body)
                        finally:
                            self._active_exc, self._active_site = old
                        break
                if not handled:
                    raise
            else:
                self.block(st.orelse)
        finally:
            if st.finalbody:
                self.block(st.finalbody)

    def handler_matches(self, h, kind):
        if h.type is None:
            return True
        names = []
        if isinstance(h.type, ast.Tuple):
            names = [ast.unparse(x) for x in h.type.elts]
        else:
            names = [ast.unparse(h.type)]
        for n in names:
            if n == 'BaseException' or n == kind:
                return True
            if n == 'Exception' and kind not in ('KeyboardInterrupt', 'SystemExit', 'GeneratorExit'):
                return True
        return False

    # ------------------------------------------------------------------ loops
    def st_While(self, st):
        self.loop_ord = self.loop_ids.get(id(st), -1)
        spec = self.I.world.loop_spec(self.qualname, self.loop_ord)
        if spec is not None and self.ctx.opts.get('small_scope'):
            # small scope: a guard that evaluates concretely is unrolled like a loop without invariant
            c0 = O.simp(self.truth(self.ev(st.test)))
            if not O.is_sym(c0):
                spec = None
        if spec is None:
            # concrete unrolling
            n = 0
            while True:
                c = self.truth(self.ev(st.test))
                c = O.simp(c)
                if O.is_sym(c):
                    raise Unsupported("while loop %s#%d has a symbolic guard and no invariant" % (self.qualname, self.loop_ord))
                if not c:
                    self.block(st.orelse)
                    return
                n += 1
                if n > MAX_UNROLL:
                    raise Unsupported("while loop unrolled too far")
                try:
                    self.block(st.body)
                except _Break:
                    return
                except _Continue:
                    continue
        self.cut_loop(st, spec, None, None)

    def st_For(self, st):
        self.loop_ord = self.loop_ids.get(id(st), -1)
        myord = self.loop_ord
        it = self.ev(st.iter)
        seq = self.as_sequence(it)
        spec = self.I.world.loop_spec(self.qualname, myord)
        is_prange = getattr(seq, 'prange', False)
        small = bool(self.ctx.opts.get('small_scope'))
        if is_prange and (spec is None or small) and isinstance(O.simp(seq.count), int) and O.simp(seq.count) <= (8 if spec is not None else MAX_UNROLL):
            items = [seq.item(i) for i in range(O.simp(seq.count))]
            for x in items:
                self.assign(st.target, x)
                self.ctx.prange.append({'var': x, 'tid': O.fresh_int('tid'), 'cell0': next(Cell._ctr)})
                try:
                    self.block(st.body)
                except (_Break, _Continue):
                    pass
                finally:
                    self.ctx.prange.pop()
            return
        if isinstance(seq, list) and (spec is None or (small and len(seq) <= 8)):
            if len(seq) > MAX_UNROLL:
                raise Unsupported("loop too long to unroll")
            broke = False
            for x in seq:
                self.assign(st.target, x)
                try:
                    self.block(st.body)
                except _Break:
                    broke = True
                    break
                except _Continue:
                    continue
            if not broke:
                self.block(st.orelse)
            return
        if isinstance(seq, list):
            items = list(seq)
            if len(items) >= 2 and all(isinstance(x, int) and not isinstance(x, bool) for x in items) and len({b - a for a, b in zip(items, items[1:])}) == 1:
                # a long concrete range: an arithmetic progression (cut with an invariant like a symbolic one)
                first, step = items[0], items[1] - items[0]
                seq = Iter(len(items), lambda i, first=first, step=step: first + step * i)
            else:
                seq = Iter(len(items), None)
                seq.items = items
        if spec is None:
            raise Unsupported("loop %s#%d has a symbolic trip count and no invariant" % (self.qualname, myord))
        self.cut_loop(st, spec, seq, st.target)

    def as_sequence(self, it):
        """concrete python list of items, or an Iter"""
        if isinstance(it, (list, tuple)):
            return list(it)
        if isinstance(it, dict):
            return list(it.keys())
        if isinstance(it, Iter):
            c = O.simp(it.count)
            if isinstance(c, int) and it.ghost is None and not getattr(it, 'prange', False):
                if c <= MAX_UNROLL:
                    return [it.item(i) for i in range(c)]
            return it
        if isinstance(it, Tn):
            if it.rank == 0:
                raise SymRaise('TypeError')
            t = it

            def item(i, t=t):
                r = basic_index(t, (i,), None)
                return r.elem() if r.rank == 0 else r
            return self.as_sequence(Iter(t.shape[0], item))
        if isinstance(it, SStr):
            return Iter(it.length, lambda i: ('char', it, i))
        if isinstance(it, StackList):
            lst = it

            def item(j, lst=lst):
                rows = [basic_index(v, (j,), None) for v in lst.views]
                if lst.tuple_kind is None:
                    return rows[0]
                return tuple(rows) if lst.tuple_kind == 'tuple' else list(rows)
            return Iter(lst.count, item)
        if isinstance(it, CatList):
            raise Unsupported("iteration over a cat-abstracted list")
        if isinstance(it, str):
            return list(it)
        raise Unsupported("iteration over %r" % (type(it),))

    def havoc_value(self, name, v, spec, tag):
        kind = (spec.abstract or {}).get(name)
        if kind is not None and not isinstance(kind, str):
            return kind(self, v, spec.it)
        if isinstance(v, bool):
            return O.fresh_bool(name)
        if isinstance(v, int):
            return O.fresh_int(name)
        if isinstance(v, float):
            return O.fresh_real(name)
        if O.is_sym(v):
            if z3.is_bool(v):
                return O.fresh_bool(name)
            if z3.is_int(v):
                return O.fresh_int(name)
            if z3.is_real(v):
                return O.fresh_real(name)
        if isinstance(v, Tn):
            nm = O.fresh_name(name)
            shape = [z3.Int('%s.d%d' % (nm, i)) for i in range(v.rank)]
            if kind == 'same-shape' or kind is None:
                shape = list(v.shape)
            t = Tn.param(nm, v.rank, v.kind, v.lib, shape=shape)
            t.cell.origin = 'loop:' + name
            t.dtype = v.dtype
            return t
        if isinstance(v, list):
            if kind in ('cat', 'stack'):
                return self.I.world.lib_call(self, 'abstract_list', [name, v, kind, spec], {})
            if len(v) == 0 and kind is None:
                raise Unsupported("list %r grows in a cut loop; declare abstract kind" % name)
            return [self.havoc_value('%s[%d]' % (name, i), x, spec, tag) for i, x in enumerate(v)]
        if isinstance(v, tuple):
            return tuple(self.havoc_value('%s[%d]' % (name, i), x, spec, tag) for i, x in enumerate(v))
        if isinstance(v, (CatList, StackList)):
            return self.I.world.lib_call(self, 'abstract_list', [name, v, 'cat' if isinstance(v, CatList) else 'stack', spec], {})
        if v is None or isinstance(v, (str, Opaque, DType, LibFn, RepoFn)):
            return v
        if v is UNDEF:
            return UNDEF
        raise Unsupported("cannot havoc %s of type %s" % (name, type(v).__name__))

    def havoc_cell(self, name, v):
        """the object bound to `name` is mutated in the loop body: fresh content, same shape"""
        if isinstance(v, Tn):
            c = v.cell
            nm = O.fresh_name(name)
            sort = {'int': z3.IntSort(), 'real': z3.RealSort(), 'bool': z3.BoolSort()}[c.kind]
            f = z3.Function(nm, *([z3.IntSort()] * c.rank), sort) if c.rank > 0 else None
            if c.rank == 0:
                cst = z3.Const(nm, sort)
                c.content = lambda: cst
            else:
                c.content = lambda *idx: f(*[O.to_z3(i) for i in idx])
            if c.init is not None:
                g = z3.Function(nm + '.init', *([z3.IntSort()] * c.rank), z3.BoolSort())
                c.init = lambda *idx: g(*[O.to_z3(i) for i in idx])

    def cut_loop(self, st, spec, seq, target):
        """assert invariant on entry; havoc; then either (a) verify one arbitrary iteration and end
        the path, or (b) assume invariant + exit condition and continue after the loop."""
        ctx = self.ctx
        lname = "loop%d" % self.loop_ord if True else ''
        is_for = seq is not None
        bound, mutated = assigned_names(st.body)
        if is_for:
            tb, _ = assigned_names([ast.Assign(targets=[target], value=ast.Constant(0))])
            bound |= tb
        if spec.extra_mutated:
            mutated |= set(spec.extra_mutated)
        count = seq.count if is_for else None

        def inv_at(itv, where):
            hyp = (where == 'assume')
            ev = EnvView(self.env, {'it': itv, 'count': count, 'old': spec.old_env, 'fr': self, 'where': where,
                                    'forall': (O.forall_hyp if hyp else O.forall)})
            try:
                return spec.inv(ev, self)
            except InvariantNotApplicable as e:
                raise Unsupported("invariant of %s#%s not applicable: %s" % (self.qualname, lname, e))

        # values at loop entry; tensors the body mutates are snapshotted (content and init)
        oldd = dict(self.env)
        for nme in mutated:
            v = oldd.get(nme)
            if isinstance(v, Tn):
                fz = Tn.fresh(v.shape, v.snapshot(), v.kind, origin='loop-entry', lib=v.lib, dtype=v.dtype)
                if v.cell.init is not None:
                    ini, imap = v.cell.init, list(v.imap)

                    def init_snap(*idx, _ini=ini, _v=v):
                        return _ini(*_v.cidx(idx))
                    fz.cell.init = init_snap
                oldd[nme] = fz
        spec.old_env = EnvView(oldd)
        # 1. initialisation
        for label, f in inv_at(0, 'init'):
            ctx.oblige("%s/init:%s" % (lname, label), f, 'loop-init')
        # 2. havoc
        ctx.approx = True
        it = O.fresh_int('it')
        spec.it = it
        ctx.assume(it >= 0)
        pre_env = dict(self.env)
        for nme in sorted(bound):
            if nme in self.env:
                self.env[nme] = self.havoc_value(nme, self.env[nme], spec, 'h')
            elif spec.abstract and nme in spec.abstract and not isinstance(spec.abstract[nme], str):
                self.env[nme] = spec.abstract[nme](self, UNDEF, it)
        for nme in sorted(mutated):
            if nme in self.env and nme not in bound:
                v = self.env[nme]
                if isinstance(v, Tn) and spec.abstract and callable(spec.abstract.get(nme)):
                    d = spec.abstract[nme](self, v, it)
                    v.cell.content = d.snapshot()
                    if v.cell.init is not None and getattr(d.cell, 'init', None) is not None:
                        v.cell.init = d.cell.init
                elif isinstance(v, Tn):
                    self.havoc_cell(nme, v)
                elif isinstance(v, (list, CatList, StackList)):
                    self.env[nme] = self.havoc_value(nme, v, spec, 'h')
                elif isinstance(v, KeyedLists):
                    if not (spec.abstract and callable(spec.abstract.get(nme))):
                        raise Unsupported("keyed list %s mutated in a cut loop without a definition" % nme)
                    self.env[nme] = spec.abstract[nme](self, v, it)
                elif isinstance(v, Opaque):
                    if spec.abstract and callable(spec.abstract.get(nme)):
                        spec.abstract[nme](self, v, it)   # installs the object's ghost state at iteration `it`
                else:
                    raise Unsupported("mutated object %s of type %s in cut loop" % (nme, type(v).__name__))
        ctx.assume(it >= 0)
        invs = inv_at(it, 'assume')
        for label, f in invs:
            ctx.assume(f)
        which = ctx.choose(2)
        if which == 0:
            # (a) arbitrary iteration
            if is_for:
                ctx.assume(seq.has(it) if seq.has is not None else it < count)
                if getattr(seq, 'items', None) is not None:
                    raise Unsupported("cut loop over heterogeneous concrete list")
                if seq.ghost is not None:
                    for a in seq.ghost(it):
                        ctx.assume(a)
                self.assign(target, seq.item(it))
                if getattr(seq, 'prange', False):
                    tid = O.fresh_int('tid')
                    ctx.assume(tid >= 0)
                    nthr = ctx.ghost.get('numba_threads')
                    if nthr is not None:
                        ctx.assume(tid < nthr)
                    ctx.prange.append({'var': seq.item(it), 'tid': tid, 'cell0': next(Cell._ctr)})
            else:
                c = self.truth(self.ev(st.test))
                ctx.assume(c)
            exits = False
            try:
                self.block(st.body)
            except _Continue:
                pass
            except _Break:
                exits = True
            finally:
                if is_for and getattr(seq, 'prange', False):
                    ctx.prange.pop()
            if exits:
                if spec.on_break is None:
                    raise Unsupported("break inside cut loop %s#%s without on_break spec" % (self.qualname, lname))
                for label, f in spec.on_break(EnvView(self.env, {'it': it, 'count': count, 'old': spec.old_env, 'fr': self, 'where': 'break',
                                                                 'forall': O.forall}), self):
                    ctx.oblige("%s/break:%s" % (lname, label), f, 'loop-pres')
                raise PathEnd()
            for label, f in inv_at(it + 1, 'pres'):
                ctx.oblige("%s/preserved:%s" % (lname, label), f, 'loop-pres')
            raise PathEnd()
        # (b) after the loop
        if is_for and spec.on_break is not None:
            # the loop may have been left through `break`: its state is described by on_break
            if ctx.choose(2) == 0:
                for label, f in spec.on_break(EnvView(self.env, {'it': it, 'count': count, 'old': spec.old_env, 'fr': self, 'where': 'assume',
                                                                 'forall': O.forall_hyp}), self):
                    ctx.assume(f)
                return
        if is_for:
            if seq.done is not None:
                ctx.assume(seq.done(it))
            else:
                ctx.assume(O.eq(it, ite(count < 0, 0, count) if O.is_sym(count) else max(count, 0)))
            if spec.after is not None:
                spec.after(EnvView(self.env, {'it': it, 'count': count, 'old': spec.old_env, 'fr': self}), self)
        else:
            if spec.on_break is not None:
                # loop may also have been left through break: state described by on_break post
                k = ctx.choose(2)
                if k == 0:
                    for label, f in spec.on_break(EnvView(self.env, {'it': it, 'count': count, 'old': spec.old_env, 'fr': self, 'where': 'assume',
                                                                     'forall': O.forall_hyp}), self):
                        ctx.assume(f)
                    return
            c = self.truth(self.ev(st.test))
            ctx.assume(Not(c))
        if st.orelse:
            self.block(st.orelse)

    # ------------------------------------------------------------------ expressions
    def ev(self, e):
        m = getattr(self, 'ev_' + type(e).__name__, None)
        if m is None:
            raise Unsupported("expression %s" % type(e).__name__)
        return m(e)

    def ev_Constant(self, e):
        return e.value

    def ev_Name(self, e):
        n = e.id
        if n in self.env:
            v = self.env[n]
            if v is UNDEF:
                raise SymRaise('UnboundLocalError')
            return v
        if n in self.globals:
            return self.I.world.convert_global(n, self.globals[n])
        import builtins
        if hasattr(builtins, n):
            return LibFn('builtins.' + n)
        if getattr(self, 'is_fragment', False):
            # a fragment is executed from a pre-state described by its contract: a name the contract does not
            # provide means the code around the fragment changed - the contract does not apply (no verdict)
            raise Unsupported("the fragment reads %r, which its contract's pre-state does not define" % n)
        raise SymRaise('NameError')

    def ev_Tuple(self, e):
        out = []
        for x in e.elts:
            if isinstance(x, ast.Starred):
                out.extend(self.as_list(self.ev(x.value)))
            else:
                out.append(self.ev(x))
        return tuple(out)

    def ev_List(self, e):
        return list(self.ev_Tuple(e))

    def ev_Dict(self, e):
        d = {}
        for k, v in zip(e.keys, e.values):
            if k is None:
                d.update(self.ev(v))
            else:
                d[self.hashable(self.ev(k))] = self.ev(v)
        return d

    def ev_JoinedStr(self, e):
        return "<fstring>"

    def ev_Slice(self, e):
        return slice(self.ev(e.lower) if e.lower else None, self.ev(e.upper) if e.upper else None,
                     self.ev(e.step) if e.step else None)

    def ev_key(self, s):
        return self.ev(s)

    def as_list(self, v):
        if isinstance(v, (list, tuple)):
            return list(v)
        seq = self.as_sequence(v)
        if isinstance(seq, list):
            return seq
        raise Unsupported("star-expansion of an abstract sequence")

    def ev_Starred(self, e):
        raise Unsupported("starred expression outside call/tuple")

    def ev_IfExp(self, e):
        c = self.truth(self.ev(e.test))
        c = O.simp(c)
        if c is True:
            return self.ev(e.body)
        if c is False:
            return self.ev(e.orelse)
        if self.ctx.branch(c):
            return self.ev(e.body)
        return self.ev(e.orelse)

    def ev_BoolOp(self, e):
        is_and = isinstance(e.op, ast.And)
        v = None
        for i, x in enumerate(e.values):
            v = self.ev(x)
            if i == len(e.values) - 1:
                return v
            t = O.simp(self.truth(v))
            if O.is_sym(t):
                t = self.ctx.branch(t)
            if is_and and not t:
                return v if not O.is_sym(v) else False
            if (not is_and) and t:
                return v if not O.is_sym(v) else True
        return v

    def ev_UnaryOp(self, e):
        v = self.ev(e.operand)
        if isinstance(e.op, ast.Not):
            return Not(self.truth(v))
        if isinstance(e.op, ast.USub):
            if isinstance(v, Tn):
                return self.I.world.lib_call(self, 'unop', ['neg', v], {})
            return -v
        if isinstance(e.op, ast.UAdd):
            return v
        if isinstance(e.op, ast.Invert):
            if isinstance(v, Tn):
                return self.I.world.lib_call(self, 'unop', ['invert', v], {})
            if is_boolish(v):
                return Not(v)
        raise Unsupported("unary op")

    def ev_BinOp(self, e):
        return self.binop(e.op, self.ev(e.left), self.ev(e.right))

    def binop(self, op, l, r):
        name = type(op).__name__
        if isinstance(l, Tn) or isinstance(r, Tn):
            return self.I.world.lib_call(self, 'binop', [name, l, r], {})
        if isinstance(l, str) and isinstance(r, str) and name == 'Add':
            return l + r
        if isinstance(l, str) and name == 'Mod':
            return l
        if isinstance(l, (list, tuple)) and isinstance(r, (list, tuple)) and name == 'Add':
            return type(l)(list(l) + list(r))
        if isinstance(l, list) and name == 'Mult':
            r = O.simp(r)
            if isinstance(r, int):
                return l * r
        if isinstance(l, (Opaque,)) or isinstance(r, (Opaque,)):
            h = self.I.world.lib.get('binop:' + (l.cls if isinstance(l, Opaque) else r.cls))
            if h is not None:
                return h(self, name, l, r)
            raise Unsupported("binop on opaque")
        return self.scalar_binop(name, l, r)

    def scalar_binop(self, name, l, r):
        l = unwrap_scalar(l)
        r = unwrap_scalar(r)
        if name == 'Add':
            return l + r
        if name == 'Sub':
            return l - r
        if name == 'Mult':
            return O.mul(l, r)
        if name == 'FloorDiv':
            if is_realish(l) or is_realish(r):
                raise Unsupported("floor division of reals")
            rs = O.simp(r)
            if not (isinstance(rs, int) and rs > 0):
                if isinstance(rs, int) and rs == 0:
                    raise SymRaise('ZeroDivisionError')
                if isinstance(rs, int) and rs < 0:
                    raise Unsupported("floor division by a negative constant")
                self.ctx.may_raise(O.eq(r, 0), 'ZeroDivisionError')
                if not self.ctx.entails(r > 0):
                    raise Unsupported("floor division by a possibly negative divisor")
            return O.floordiv(l, r)
        if name == 'Mod':
            rs = O.simp(r)
            if not (isinstance(rs, int) and rs > 0):
                self.ctx.may_raise(O.eq(r, 0), 'ZeroDivisionError')
                if not self.ctx.entails(r > 0):
                    raise Unsupported("modulo by a possibly negative divisor")
            return O.mod(l, r)
        if name == 'Div':
            rs = O.simp(r)
            if not (isinstance(rs, (int, float)) and rs != 0):
                # numba kernels too: the default error model of @njit is 'python' (a division by zero raises
                # ZeroDivisionError); only error_model='numpy' yields inf / nan silently - such a kernel is outside
                # the modelled subset
                if self.ctx.safety and self.ctx.opts.get('numba_error_model') == 'numpy':
                    raise Unsupported("division in a kernel compiled with error_model='numpy'")
                self.ctx.may_raise(O.eq(r, 0), 'ZeroDivisionError')
            return O.truediv(l, r)
        if name == 'Pow':
            rs = O.simp(r)
            if isinstance(rs, int) and rs >= 0 and rs <= 4:
                out = 1
                for _ in range(rs):
                    out = O.mul(out, l)
                return out
            if not O.any_sym(l, r):
                return l ** r
            return self.I.world.lib_call(self, 'pow', [l, r], {})
        if name in ('BitAnd', 'BitOr'):
            if is_boolish(l) and is_boolish(r):
                return And(l, r) if name == 'BitAnd' else Or(l, r)
        raise Unsupported("scalar binop %s" % name)

    def ev_Compare(self, e):
        l = self.ev(e.left)
        res = None
        for op, c in zip(e.ops, e.comparators):
            r = self.ev(c)
            v = self.compare(op, l, r)
            if res is None:
                res = v
            elif isinstance(res, Tn) or isinstance(v, Tn):
                raise Unsupported("chained comparison of tensors")
            else:
                res = And(res, v)
            l = r
        return res

    def compare(self, op, l, r):
        n = type(op).__name__
        if n in ('Is', 'IsNot'):
            if l is None or r is None:
                same = (l is None and r is None)
            elif isinstance(l, bool) or isinstance(r, bool):
                same = (l is r) if not O.any_sym(l, r) else O.eq(l, r)
            else:
                same = l is r
            return same if n == 'Is' else Not(same)
        if n in ('In', 'NotIn'):
            res = self.contains(r, l)
            return res if n == 'In' else Not(res)
        if isinstance(l, Tn) or isinstance(r, Tn):
            return self.I.world.lib_call(self, 'cmp', [n, l, r], {})
        if l is None or r is None:
            if n == 'Eq':
                return l is None and r is None
            if n == 'NotEq':
                return not (l is None and r is None)
            raise SymRaise('TypeError')
        if (isinstance(l, Opaque) or isinstance(r, Opaque)) and ('cmp:' + (l.cls if isinstance(l, Opaque) else r.cls)) in self.I.world.lib:
            return self.I.world.lib['cmp:' + (l.cls if isinstance(l, Opaque) else r.cls)](self, n, l, r)
        if isinstance(l, (str, DType, tuple, list)) or isinstance(r, (str, DType, tuple, list)):
            if isinstance(l, (tuple, list)) and isinstance(r, (tuple, list)):
                if len(l) != len(r):
                    eqv = False
                else:
                    eqv = And(*[O.eq(a, b) for a, b in zip(l, r)]) if l else True
            else:
                if isinstance(l, tuple) and l and l[0] == 'char' or isinstance(r, tuple) and r and r[0] == 'char':
                    raise Unsupported("character comparison")
                eqv = (l == r)
            if n == 'Eq':
                return eqv
            if n == 'NotEq':
                return Not(eqv)
            raise Unsupported("ordering on %r" % type(l))
        if isinstance(l, Opaque) or isinstance(r, Opaque):
            h = self.I.world.lib.get('cmp:' + (l.cls if isinstance(l, Opaque) else r.cls))
            if h is not None:
                return h(self, n, l, r)
            raise Unsupported("comparison on opaque %r %r" % (l, r))
        l = unwrap_scalar(l)
        r = unwrap_scalar(r)
        if is_boolish(l) and not is_boolish(r):
            l = ite(l, 1, 0)
        if is_boolish(r) and not is_boolish(l):
            r = ite(r, 1, 0)
        if n == 'Eq':
            return O.eq(l, r)
        if n == 'NotEq':
            return O.ne(l, r)
        if n == 'Lt':
            return l < r
        if n == 'LtE':
            return l <= r
        if n == 'Gt':
            return l > r
        if n == 'GtE':
            return l >= r
        raise Unsupported("compare %s" % n)

    def contains(self, container, x):
        if isinstance(container, dict):
            return self.hashable(x) in container
        if isinstance(container, (list, tuple, set)):
            if isinstance(x, tuple) and x and x[0] == 'char':
                raise Unsupported("character membership")
            if all(not O.is_sym(c) for c in container) and not O.is_sym(x):
                return x in container
            return Or(*[O.eq(x, c) for c in container]) if len(container) else False
        if isinstance(container, str) and isinstance(x, str):
            return x in container
        if isinstance(container, Opaque):
            h = self.I.world.lib.get('contains:' + container.cls)
            if h is not None:
                return h(self, container, x)
        raise Unsupported("membership in %r" % (type(container),))

    def truth(self, v):
        if isinstance(v, bool):
            return v
        if v is None:
            return False
        if O.is_sym(v):
            if z3.is_bool(v):
                return v
            return v != 0
        if isinstance(v, (int, float)):
            return v != 0
        if isinstance(v, (str, list, tuple, dict)):
            return len(v) > 0
        if isinstance(v, Tn):
            if v.rank == 0:
                return self.truth(v.elem())
            n = v.numel()
            ns = O.simp(n)
            if isinstance(ns, int) and ns == 1:
                return self.truth(v.elem(*([0] * v.rank)))
            self.ctx.may_raise(O.ne(n, 1), 'RuntimeError')
            return self.truth(v.elem(*([0] * v.rank)))
        if isinstance(v, (CatList, StackList)):
            return v.count > 0
        if isinstance(v, (Opaque, LibFn, RepoFn, DType)):
            return True
        raise Unsupported("truth value of %r" % (type(v),))

    def ev_Attribute(self, e):
        obj = self.ev(e.value)
        return self.get_attr(obj, e.attr)

    def get_attr(self, obj, a):
        w = self.I.world
        if isinstance(obj, (ModuleRef, LibFn)):
            return w.resolve_dotted(obj.name + '.' + a)
        if isinstance(obj, Tn):
            if a == 'shape':
                return tuple(obj.shape)
            if a == 'ndim':
                return obj.rank
            if a == 'dtype':
                return obj.dtype or DType('unknown:' + obj.kind)
            if a == 'device':
                return Opaque('device', 'device')
            if a == 'T':
                return obj.permute(list(range(obj.rank))[::-1])
            if a == 'values' and getattr(obj, 'is_minmax', False):
                return obj
            return BoundMethod(obj, a)
        if isinstance(obj, Opaque):
            if a in obj.attrs:
                return obj.attrs[a]
            h = w.lib.get('getattr:' + obj.cls)
            if h is not None:
                r = h(self, obj, a)
                if r is not NotImplemented:
                    return r
            return BoundMethod(obj, a)
        from .lib import ListItemProbe
        if isinstance(obj, ListItemProbe):
            # y[0] of a cat-abstracted list: a tensor item (or the k-tuple of tensors of an item); its number of rows is
            # not known, its trailing dimensions are those of the cat view
            lst = obj.lst
            if a == 'shape' and lst.tuple_kind is None:
                return tuple([O.fresh_int('item_rows')] + list(lst.views[0].shape[1:]))
            raise Unsupported("attribute %s of an abstract list item" % a)
        if isinstance(obj, (list, dict, str, tuple, SStr, CatList, StackList, set, KeyedLists, KeyedListRef)):
            return BoundMethod(obj, a)
        if isinstance(obj, slice):
            return getattr(obj, a)
        if isinstance(obj, MinMax):
            if a == 'values':
                return obj.values
            if a == 'indices':
                return obj.indices
        if isinstance(obj, DType):
            if a == 'is_floating_point':
                return obj.is_float
        if O.is_sym(obj) or isinstance(obj, (int, float)):
            return BoundMethod(obj, a)
        raise Unsupported("attribute %s of %r" % (a, type(obj)))

    def ev_Subscript(self, e):
        base = self.ev(e.value)
        key = self.ev_key(e.slice)
        return self.getitem(base, key, getattr(e, 'lineno', None))

    def getitem(self, base, key, site=None):
        if isinstance(base, Tn):
            return self.I.world.lib_call(self, 'getitem', [base, key], {'site': site})
        if isinstance(base, (list, tuple)):
            if isinstance(key, slice):
                lo, hi, st = O.simp(key.start), O.simp(key.stop), O.simp(key.step)
                if all(x is None or isinstance(x, int) for x in (lo, hi, st)):
                    return base[slice(lo, hi, st)]
                raise Unsupported("symbolic slice of a concrete list")
            k = O.simp(key)
            if isinstance(k, Tn) and k.rank == 0:
                k = O.simp(k.elem())
            if isinstance(k, int):
                if not (-len(base) <= k < len(base)):
                    raise SymRaise('IndexError')
                return base[k]
            # symbolic index into a concrete sequence of scalars
            if all(is_scalar(x) for x in base) and len(base) > 0:
                self.ctx.may_raise(Or(k < -len(base), k >= len(base)), 'IndexError')
                kk = ite(k < 0, k + len(base), k)
                out = base[-1]
                for i in range(len(base) - 2, -1, -1):
                    out = ite(O.eq(kk, i), base[i], out)
                return out
            raise Unsupported("symbolic index into a concrete list")
        if isinstance(base, dict):
            k = self.hashable(key)
            if k not in base:
                raise SymRaise('KeyError')
            return base[k]
        if isinstance(base, (CatList, StackList, SStr, Opaque, KeyedLists)):
            return self.I.world.lib_call(self, 'getitem', [base, key], {'site': site})
        if isinstance(base, str):
            k = O.simp(key)
            if isinstance(k, (int, slice)):
                return base[k]
        from .lib import ListItemProbe
        if isinstance(base, ListItemProbe) and base.lst.tuple_kind is not None:
            # y[0][j] of an abstract list of k-tuples: the j-th component of an item (a tensor)
            k = O.simp(key)
            if isinstance(k, int) and -len(base.lst.views) <= k < len(base.lst.views):
                return ListItemProbe(type(base.lst)(base.lst.count, [base.lst.views[k]]))
        raise Unsupported("subscript of %r" % (type(base),))

    def ev_ListComp(self, e):
        return self.comprehension(e.elt, e.generators)

    def ev_GeneratorExp(self, e):
        return self.comprehension(e.elt, e.generators)

    def ev_DictComp(self, e):
        pairs = self.comprehension(ast.Tuple(elts=[e.key, e.value], ctx=ast.Load()), e.generators)
        return {self.hashable(k): v for k, v in pairs}

    def comprehension(self, elt, gens):
        out = []
        saved = dict(self.env)

        def rec(gi):
            if gi == len(gens):
                out.append(self.ev(elt))
                return
            g = gens[gi]
            seq = self.as_sequence(self.ev(g.iter))
            if not isinstance(seq, list):
                raise _AbstractComp(seq, gi)
            for x in seq:
                self.assign(g.target, x)
                ok = True
                for c in g.ifs:
                    t = O.simp(self.truth(self.ev(c)))
                    if O.is_sym(t):
                        t = self.ctx.branch(t)
                    if not t:
                        ok = False
                        break
                if ok:
                    rec(gi + 1)
        try:
            rec(0)
        except _AbstractComp as ac:
            if len(gens) == 1 and not gens[0].ifs:
                return self.I.world.lib_call(self, 'abstract_comprehension', [self, elt, gens[0], ac.seq], {})
            raise Unsupported("comprehension over an abstract sequence")
        finally:
            for k in list(self.env.keys()):
                if k not in saved:
                    del self.env[k]
            for k, v in saved.items():
                self.env[k] = v
        return out

    def ev_Lambda(self, e):
        return Opaque('lambda', 'lambda', {'node': e, 'frame': self})

    def ev_Call(self, e):
        f = self.ev(e.func)
        args = []
        for a in e.args:
            if isinstance(a, ast.Starred):
                sv = self.ev(a.value)
                if isinstance(sv, (CatList, StackList)):
                    args.append(StarAbstract(sv))
                    continue
                args.extend(self.as_list(sv))
            else:
                args.append(self.ev(a))
        kwargs = {}
        for k in e.keywords:
            if k.arg is None:
                d = self.ev(k.value)
                if not isinstance(d, dict):
                    raise Unsupported("** of non-dict")
                for kk, vv in d.items():
                    if kk in kwargs:
                        raise SymRaise('TypeError')
                    kwargs[kk] = vv
            else:
                if k.arg in kwargs:
                    raise SymRaise('TypeError')
                kwargs[k.arg] = self.ev(k.value)
        return self.call(f, args, kwargs, getattr(e, 'lineno', None))

    def call(self, f, args, kwargs, site=None):
        w = self.I.world
        if isinstance(f, RepoFn):
            return self.I.call_repo(f, args, kwargs)
        if isinstance(f, LibFn):
            return w.lib_call(self, f.name, args, kwargs, site=site)
        if isinstance(f, BoundMethod):
            return w.method_call(self, f.obj, f.name, args, kwargs, site=site)
        if isinstance(f, Opaque):
            return w.opaque_call(self, f, args, kwargs, site=site)
        if isinstance(f, PyType):
            return w.lib_call(self, 'type:' + f.name, args, kwargs, site=site)
        if isinstance(f, DType):
            # numpy.int64(x) / numpy.float64(x): scalar casts
            nm = 'numpy.float64' if f.is_float else 'numpy.int64'
            return w.lib_call(self, nm, args, kwargs, site=site)
        raise Unsupported("call of %r" % (f,))


class _AbstractComp(Exception):
    def __init__(self, seq, gi):
        self.seq = seq
        self.gi = gi


class MinMax:
    """result of tensor.max(dim=...) : (values, indices)"""

    def __init__(self, values, indices):
        self.values = values
        self.indices = indices


def unwrap_scalar(v):
    if isinstance(v, Tn):
        if v.rank == 0:
            return v.elem()
        raise Unsupported("tensor used as scalar")
    if isinstance(v, bool):
        return v
    return v


def is_boolish(v):
    return isinstance(v, bool) or (O.is_sym(v) and z3.is_bool(v))


def is_realish(v):
    return isinstance(v, float) or (O.is_sym(v) and z3.is_real(v))


def is_scalar(v):
    return isinstance(v, (int, float, bool)) or O.is_sym(v)
