"""Exact-integer recording stand-ins for the assumed row-wise callables (model, func).

The same arithmetic is used (a) symbolically in small-scope refutation (RowWise in recording
mode: linear integer terms, so refutations come back `sat` with a model instead of `unknown`),
(b) concretely by a real torch module / callable handed to the real tangermeme function during
replay and in the bounded layer.  An output identifies which input row and which extra-argument
rows produced it, so index mix-ups cannot cancel.
"""
import torch

P0, P1 = 7919, 104729


def wgt(o, k, pos):
    """deterministic weight of flat position `pos` of tensor k (0 = X, 1.. = extra args) for output o"""
    return 1 + ((o + 1) * 7349 + (k + 1) * 2671 + (pos + 1) * 1031 + (pos * pos) * 17) % 997


def bias(o):
    return 13 * (o + 1)


class RecordingModel(torch.nn.Module):
    def __init__(self, name='M', k=None, tuple_kind='tuple', trailing=None, ignore_first=False):
        super().__init__()
        self.name = name
        self.k = k
        self.tuple_kind = tuple_kind
        self.trailing = [list(t) for t in (trailing or [[]])]
        self.calls = []
        self.ignore_first = ignore_first
        # a child whose mode can differ from the parent's: in training mode (parent or child) the outputs are not
        # row-wise any more (like BatchNorm with batch statistics) - observable when a function forgets eval()
        self.probe = torch.nn.Identity()

    def compute(self, X, args):
        N = X.shape[0]
        ts = [X] + list(args)
        outs = []
        n = 1 if self.k is None else self.k
        for o in range(n):
            base = torch.zeros(N, dtype=torch.float64) + bias(o)
            for k, t in enumerate(ts):
                flat = t.reshape(N, -1).to(torch.float64)
                w = torch.tensor([wgt(o, k, p) for p in range(flat.shape[1])], dtype=torch.float64)
                base = base + flat @ w if flat.shape[1] else base
            tr = self.trailing[o]
            out = base.reshape([N] + [1] * len(tr)).repeat([1] + tr) if tr else base
            if len(tr) >= 1:
                out = out + (P0 * torch.arange(tr[0], dtype=torch.float64)).reshape([1, tr[0]] + [1] * (len(tr) - 1))
            if len(tr) >= 2:
                out = out + (P1 * torch.arange(tr[1], dtype=torch.float64)).reshape([1, 1, tr[1]] + [1] * (len(tr) - 2))
            outs.append(out)
        if self.k is None:
            return outs[0]
        return tuple(outs) if self.tuple_kind == 'tuple' else list(outs)

    def forward(self, X, *args):
        self.calls.append((self.training, torch.is_grad_enabled(), int(X.shape[0])))
        out = self.compute(X, args)
        if self.training or self.probe.training:
            leak = 3 * X.to(torch.float64).sum() + 5 * X.shape[0]      # depends on the whole batch
            if isinstance(out, torch.Tensor):
                return out + leak
            return type(out)(o + leak for o in out)
        return out

    def to_json(self):
        return {'__factory__': 'recording_model', 'name': self.name, 'k': self.k, 'tuple_kind': self.tuple_kind, 'trailing': self.trailing,
                'training': bool(self.training), 'probe_training': bool(self.probe.training)}


class RecordingFunc:
    """stand-in for a user-supplied func(model, X, args=None, **kwargs)"""

    def __init__(self, name='F', k=None, tuple_kind='tuple', trailing=None):
        self.m = RecordingModel(name, k, tuple_kind, trailing)
        self.calls = []
        self.__name__ = name

    def __call__(self, model, X, args=None, **kwargs):
        self.calls.append(sorted(kwargs.keys()))
        if args is not None:
            for a in args:
                if a.shape[0] != X.shape[0]:
                    raise ValueError("Arguments must have the same first dimension as X")
        return self.m.compute(X, list(args or ()))

    def to_json(self):
        d = self.m.to_json()
        d['__factory__'] = 'recording_func'
        return d


def _recording_model(d):
    m = RecordingModel(d['name'], d['k'], d['tuple_kind'], d['trailing'])
    m.train(bool(d.get('training', True)))
    m.probe.train(bool(d.get('probe_training', d.get('training', True))))
    return m


FACTORIES = {
    'recording_model': lambda d: _recording_model(d),
    'recording_func': lambda d: RecordingFunc(d['name'], d['k'], d['tuple_kind'], d['trailing']),
}


class RecordingShuffle:
    """stand-in for a user-supplied shuffle_fn: returns a fixed table (batch, n, alphabet, length)"""

    def __init__(self, table=None):
        self.table = table
        self.calls = []
        self.__name__ = 'SHUF'

    def __call__(self, X, start=None, end=None, n=None, random_state=None, **kw):
        self.calls.append((start, end, n, random_state))
        if self.table is not None and tuple(self.table.shape) == (X.shape[0], n, X.shape[1], X.shape[2]):
            return self.table.clone()
        # default: example b, shuffle j = X[b] rolled by j+1 (+ the integer seed) positions: deterministic,
        # distinct per j, and a different seed is observable
        s = int(random_state) if isinstance(random_state, int) or (hasattr(random_state, 'item') and getattr(random_state, 'ndim', 1) == 0) else 0
        return torch.stack([torch.stack([torch.roll(X[b], j + 1 + s, dims=-1) for j in range(n)]) for b in range(X.shape[0])])

    def to_json(self):
        return {'__factory__': 'recording_shuffle', 'table': None if self.table is None else self.table.tolist()}


FACTORIES['recording_shuffle'] = lambda d: RecordingShuffle(None if d['table'] is None else torch.tensor(d['table'], dtype=torch.int8))


class AttrObject:
    """a plain object carrying attributes (e.g. an nn.Module's captured activations) for replays"""

    def __init__(self, cls='object', **attrs):
        self._cls = cls
        self.__dict__.update(attrs)

    def attrs(self):
        return {k: v for k, v in self.__dict__.items() if k != '_cls'}

    def to_json(self):
        from .concrete import to_json
        return {'__factory__': 'attr_object', 'cls': self._cls, 'attrs': {k: to_json(v) for k, v in self.attrs().items()}}


def _attr_object(d):
    from .concrete import from_json
    return AttrObject(d['cls'], **{k: from_json(v) for k, v in d['attrs'].items()})


FACTORIES['attr_object'] = _attr_object


class HookModuleSpec:
    """replay value for the per-module hook functions of deep_lift_shap: builds a real torch module with the
    given numbers of user hooks and, optionally, a complete / partial earlier DeepLIFT registration"""

    def __init__(self, supported=True, nf=0, np_=0, nb=0, handles=None):
        self.supported, self.nf, self.np_, self.nb, self.handles = bool(supported), int(nf), int(np_), int(nb), handles

    def build(self):
        import tangermeme.deep_lift_shap as D
        m = torch.nn.ReLU() if self.supported else torch.nn.Identity()
        m._NON_LINEAR_OPS = {torch.nn.ReLU: D._nonlinear}
        for _ in range(self.nf):
            m.register_forward_hook(lambda mod, i, o: None)
        for _ in range(self.np_):
            m.register_forward_pre_hook(lambda mod, i: None)
        for _ in range(self.nb):
            m.register_full_backward_hook(lambda mod, gi, go: None)
        if self.handles is not None:
            m.handles = []
            regs = [lambda: m.register_forward_hook(D._f_hook), lambda: m.register_forward_pre_hook(D._fp_hook),
                    lambda: m.register_full_backward_hook(D._b_hook)]
            for k in range(self.handles):
                m.handles.append(regs[k]())
        object.__setattr__(m, 'to_json', self.to_json)     # replay files describe the module by this spec
        return m

    def to_json(self):
        return {'__factory__': 'hook_module', 'supported': self.supported, 'nf': self.nf, 'np': self.np_, 'nb': self.nb, 'handles': self.handles}


FACTORIES['hook_module'] = lambda d: HookModuleSpec(d['supported'], d['nf'], d['np'], d['nb'], d['handles']).build()


def hook_ghost(m):
    """ghost hook state of a real module (sizes of the dictionaries, DeepLIFT entries among them)"""
    def is_dls(fn, name):
        return getattr(fn, '__module__', '') == 'tangermeme.deep_lift_shap' and getattr(fn, '__name__', '') == name

    def count(d, name):
        n = 0
        for h in d.values():
            f = getattr(h, 'hook', h)
            if is_dls(f, name) or is_dls(getattr(f, 'func', None), name):
                n += 1
        return n
    return {'nf': len(m._forward_hooks), 'np': len(m._forward_pre_hooks), 'nb': len(m._backward_hooks),
            'dls_f': count(m._forward_hooks, '_f_hook'), 'dls_p': count(m._forward_pre_hooks, '_fp_hook'), 'dls_b': count(m._backward_hooks, '_b_hook')}


class ExtraOps(dict):
    """replay value for deep_lift_shap(additional_nonlinear_ops=...): one more layer type with the generic
    rescale rule"""

    @staticmethod
    def build():
        import tangermeme.deep_lift_shap as D
        d = ExtraOps()
        d[torch.nn.Softsign] = D._nonlinear
        return d

    def to_json(self):
        return {'__factory__': 'extra_ops'}


FACTORIES['extra_ops'] = lambda d: ExtraOps.build()


def _maxpool_case(d):
    from contracts.dls_c import MaxPool
    return MaxPool._case(d['k'], d['s'], d['d'], d['l'], d['ceil'], d.get('h', 1), d.get('c', 2))[0]


FACTORIES['maxpool_case'] = _maxpool_case
