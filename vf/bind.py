"""Source binding (DESIGN §2.1): the verified text is the code that runs.

For every function under contract: import it from /repo, take `.py_func` for numba dispatchers,
check the source file is under /repo, parse the *current* file, select the FunctionDef by name and
line, check that its ast.dump equals that of inspect.getsource(obj), record file / lines / sha256.
"""
import ast
import hashlib
import importlib
import inspect
import os
import textwrap

REPO = os.environ.get('VERIF_REPO', '/repo')


class BindError(Exception):
    pass


def _dump_nodoc(node):
    """ast.dump with docstrings blanked (extraction drops them; dedent alters their whitespace)"""
    import copy
    n = copy.deepcopy(node)
    for x in ast.walk(n):
        if isinstance(x, (ast.FunctionDef, ast.ClassDef)) and x.body and isinstance(x.body[0], ast.Expr) \
                and isinstance(x.body[0].value, ast.Constant) and isinstance(x.body[0].value.value, str):
            x.body[0].value.value = ''
    return ast.dump(n)


class Binder:
    def __init__(self):
        self.cache = {}
        self.records = {}
        self.file_asts = {}

    def resolve(self, qualname):
        """'tangermeme.ersatz.substitute' -> python function object (py_func for dispatchers)"""
        mod, _, name = qualname.rpartition('.')
        m = importlib.import_module(mod)
        obj = getattr(m, name)
        return self.unwrap(obj)

    def unwrap(self, obj):
        if hasattr(obj, 'py_func'):
            return obj.py_func
        return obj

    def file_ast(self, path):
        if path not in self.file_asts:
            with open(path) as f:
                src = f.read()
            self.file_asts[path] = (src, ast.parse(src))
        return self.file_asts[path]

    def function_ast(self, pyfn):
        pyfn = self.unwrap(pyfn)
        key = id(pyfn)
        if key in self.cache:
            return self.cache[key]
        path = inspect.getsourcefile(pyfn)
        if path is None or not os.path.realpath(path).startswith(os.path.realpath(REPO) + os.sep):
            raise BindError("%r is not defined under %s (%s)" % (pyfn, REPO, path))
        src, tree = self.file_ast(path)
        lines, first = inspect.getsourcelines(pyfn)
        name = pyfn.__name__
        cand = [n for n in ast.walk(tree) if isinstance(n, ast.FunctionDef) and n.name == name]
        node = None
        for n in cand:
            lo = min([n.lineno] + [d.lineno for d in n.decorator_list])
            if lo == first:
                node = n
        if node is None:
            raise BindError("cannot locate %s in %s" % (name, path))
        loaded = ast.parse(textwrap.dedent(''.join(lines))).body[0]
        if _dump_nodoc(loaded) != _dump_nodoc(node):
            raise BindError("source of %s on disk differs from the loaded function" % name)
        text = ''.join(lines)
        rec = {'name': pyfn.__module__ + '.' + pyfn.__qualname__, 'file': path,
               'lines': [first, first + len(lines) - 1],
               'sha256': hashlib.sha256(text.encode()).hexdigest()}
        self.records[rec['name']] = rec
        self.cache[key] = node
        return node


def tree_hash():
    """sha256 over the tangermeme/*.py sources (keys the numba cache directory)"""
    h = hashlib.sha256()
    base = os.path.join(REPO, 'tangermeme')
    for root, _, files in sorted(os.walk(base)):
        for f in sorted(files):
            if f.endswith('.py'):
                p = os.path.join(root, f)
                h.update(p.encode())
                with open(p, 'rb') as fh:
                    h.update(fh.read())
    return h.hexdigest()[:16]
