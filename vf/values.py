"""Non-tensor symbolic values used by the interpreter."""
import itertools
import z3
from . import ops as O
from .tensor import Tn, Unsupported


class SymRaise(Exception):
    """a Python exception propagating through the symbolically executed code"""

    def __init__(self, kind, site=None, msg=None):
        Exception.__init__(self, kind)
        self.kind = kind
        self.site = site
        self.msg = msg


class PathEnd(Exception):
    """the current path ends here (after a loop-preservation check, or an infeasible assumption)"""


class SStr:
    """symbolic string over an alphabet: length + code(i) in [-2, A): index into `alphabet`,
    -1 = a character of the ignore set, -2 = any other character."""

    def __init__(self, name, length=None, code=None):
        self.name = name
        self.length = length if length is not None else z3.Int(name + '.len')
        if code is None:
            f = z3.Function(name + '.code', z3.IntSort(), z3.IntSort())
            code = lambda i: f(O.to_z3(i))
        self.code = code

    def __repr__(self):
        return "SStr(%s)" % self.name


class DType:
    def __init__(self, name):
        self.name = name

    def __repr__(self):
        return "DType(%s)" % self.name

    def __eq__(self, o):
        return isinstance(o, DType) and o.name == self.name

    def __hash__(self):
        return hash(self.name)

    @property
    def is_float(self):
        return 'float' in self.name or self.name in ('half', 'double')


class Opaque:
    """object whose behaviour is given by an assumed contract (model, RNG, file handle ...)"""

    def __init__(self, name, cls='object', attrs=None):
        self.name = name
        self.cls = cls
        self.attrs = attrs or {}

    def __repr__(self):
        return "Opaque(%s:%s)" % (self.cls, self.name)


class ModuleRef:
    def __init__(self, name):
        self.name = name

    def __repr__(self):
        return "ModuleRef(%s)" % self.name


class LibFn:
    """a library callable identified by dotted name, e.g. torch.cat"""

    def __init__(self, name):
        self.name = name

    def __repr__(self):
        return "LibFn(%s)" % self.name


class BoundMethod:
    def __init__(self, obj, name):
        self.obj = obj
        self.name = name

    def __repr__(self):
        return "BoundMethod(%r.%s)" % (self.obj, self.name)


class RepoFn:
    """a function defined in /repo (inlined, or replaced by its contract at call sites)"""

    def __init__(self, pyobj, qualname):
        self.pyobj = pyobj
        self.qualname = qualname

    def __repr__(self):
        return "RepoFn(%s)" % self.qualname


class PyType:
    """a type object used in isinstance checks"""

    def __init__(self, name):
        self.name = name

    def __repr__(self):
        return "PyType(%s)" % self.name


class Iter:
    """abstract finite iterator: count + item(it)"""

    def __init__(self, count, item, ghost=None, has=None, done=None):
        self.count = count
        self.item = item
        self.ghost = ghost  # optional callable(it) -> assumptions introducing ghost counters
        self.has = has      # optional division-free form of  it < count
        self.done = done    # optional division-free form of  it == count  (loop exit)


class StarAbstract:
    """*lst for an abstract list in a call"""

    def __init__(self, lst):
        self.lst = lst


class CatList:
    """abstract list of tensors (or of k-tuples of tensors) known only through the tensor(s)
    torch.cat(list) would return (DESIGN §2.2.3).  count = number of items."""

    def __init__(self, count, views, tuple_kind=None):
        self.count = count          # Int term
        self.views = views          # list of Tn (one per output), each with leading dim = total rows
        self.tuple_kind = tuple_kind  # None: items are tensors; 'tuple'/'list': items are k-tuples

    def copy(self):
        return CatList(self.count, list(self.views), self.tuple_kind)


class StackList:
    """abstract list of equally-shaped items known through torch.stack(list): view has leading
    dim = count.  Items may be tensors (views=[Tn]) or k-tuples (views = k Tn)."""

    def __init__(self, count, views, tuple_kind=None, item_shapes=None):
        self.count = count
        self.views = views
        self.tuple_kind = tuple_kind

    def copy(self):
        return StackList(self.count, list(self.views), self.tuple_kind)


class KeyedLists:
    """abstract family (indexed by k in [0, count)) of lists of tuples in which every tuple is
    identified by a key (its first `nkey` fields): member(k, *key) -> Bool, payload(k, *key) ->
    tuple of the remaining fields.  Appends happen in key order in the code under contract; what
    contracts state is the membership relation and the payloads (DESIGN 5 C12)."""

    def __init__(self, count, nkey, member, payload):
        self.count = count
        self.nkey = nkey
        self.member = member
        self.payload = payload


class KeyedListRef:
    def __init__(self, parent, k):
        self.parent = parent
        self.k = k


class Undefined:
    def __repr__(self):
        return "Undefined"


UNDEF = Undefined()


class GlobalDict(dict):
    """a module-level dict of the repository seen from a function under contract: reads are ordinary,
    any write is a write to state that outlives the call (frame obligation)"""
    gname = '?'


class GlobalList(list):
    gname = '?'
