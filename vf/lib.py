"""Symbolic semantics ("axioms") of the torch / numpy / builtin primitives that the functions under
contract use (DESIGN §2.4).  Each entry is a closure transformer over `Tn` written against the
dual-interpretation operations of vf.ops, so the very same definition is executable on concrete
values; vf/conformance.py compares every primitive against the real library on small shapes.
"""
import itertools
import z3
from . import ops as O
from .ops import And, Or, Not, ite, Implies
from .tensor import Tn, Cell, Unsupported, basic_index, norm_slice
from .values import (SymRaise, PathEnd, SStr, DType, Opaque, LibFn, BoundMethod, RepoFn, PyType,
                     Iter, CatList, StackList, UNDEF, ModuleRef, StarAbstract, KeyedLists, KeyedListRef)
from .interp import MinMax, unwrap_scalar, is_boolish, is_realish, is_scalar

LIB = {}
METHODS = {}


def lib(*names):
    def deco(f):
        for n in names:
            LIB[n] = f
        return f
    return deco


def method(*names):
    def deco(f):
        for n in names:
            METHODS[n] = f
        return f
    return deco


def ctx_of(fr):
    return fr.ctx if fr is not None else None


class NullCtx:
    """context used by the concrete interpretation / conformance: raises become Python exceptions"""
    safety = False

    def __init__(self):
        self.notes = []
        self.trusted = set()
        self.ghost = {}

    def may_raise(self, cond, kind, site=None):
        if O.simp(cond) is True or (not O.is_sym(cond) and cond):
            raise SymRaise(kind, site)
        if O.is_sym(cond):
            raise Unsupported("symbolic raise condition in concrete mode")

    def branch(self, cond):
        c = O.simp(cond)
        if O.is_sym(c):
            raise Unsupported("symbolic branch in concrete mode")
        return bool(c)

    def entails(self, c):
        c = O.simp(c)
        return c is True or (not O.is_sym(c) and bool(c))

    def index_check(self, bad, good, t, dim, site):
        self.may_raise(bad, 'IndexError', site)

    def on_write(self, t):
        pass

    def oblige(self, *a, **k):
        pass

    def assume(self, c):
        pass

    def raise_now(self, kind, site=None):
        raise SymRaise(kind, site)


class NullFrame:
    def __init__(self):
        self.ctx = NullCtx()


def known_eq(ctx, a, b):
    a, b = O.simp(a), O.simp(b)
    if not O.any_sym(a, b):
        return a == b
    d = O.simp(O.to_z3(a) - O.to_z3(b))
    if isinstance(d, int):
        return d == 0
    if ctx is None or isinstance(ctx, NullCtx):
        return False
    return ctx.entails(O.eq(a, b))


def require_eq(ctx, a, b, kind='RuntimeError'):
    """dims must be equal, otherwise the library raises"""
    if known_eq(ctx, a, b):
        return
    ctx.may_raise(O.ne(a, b), kind)


def result_kind(*ts):
    ks = [t.kind if isinstance(t, Tn) else ('real' if is_realish(t) else ('bool' if is_boolish(t) else 'int')) for t in ts]
    if 'real' in ks:
        return 'real'
    if 'int' in ks:
        return 'int'
    return 'bool'


def norm_dim(d, rank):
    d = O.conc_int(d)
    if d < 0:
        d += rank
    if not (0 <= d < rank):
        raise SymRaise('IndexError')
    return d


def as_tn(fr, v, like=None):
    if isinstance(v, Tn):
        return v
    if isinstance(v, MinMax):
        return v.values
    if is_scalar(v):
        return Tn.fresh([], lambda: v, result_kind(v), lib=(like.lib if like is not None else 'torch'))
    if isinstance(v, (list, tuple)):
        return tensor_from_nested(v, lib=(like.lib if like is not None else 'torch'))
    raise Unsupported("cannot view %r as tensor" % (type(v),))


def tensor_from_nested(v, lib='torch'):
    def shape_of(x):
        if isinstance(x, (list, tuple)):
            if len(x) == 0:
                return [0]
            return [len(x)] + shape_of(x[0])
        if isinstance(x, Tn):
            return list(x.shape)
        return []
    sh = shape_of(v)
    nlist = 0
    x = v
    while isinstance(x, (list, tuple)):
        nlist += 1
        x = x[0] if len(x) else None

    def content(*idx):
        # concrete leading indices select list items; symbolic ones build an ite chain
        def pick(x, ids):
            if not isinstance(x, (list, tuple)):
                if isinstance(x, Tn):
                    return x.elem(*ids)
                return x
            i = O.simp(ids[0])
            if isinstance(i, int):
                if i < 0 or i >= len(x):
                    return 0        # total outside the list (a concrete `ite` evaluates both branches)
                return pick(x[i], ids[1:])
            if len(x) == 0:
                return 0
            out = pick(x[-1], ids[1:])
            for j in range(len(x) - 2, -1, -1):
                out = ite(O.eq(i, j), pick(x[j], ids[1:]), out)
            return out
        return pick(v, list(idx))
    leaf = x
    kind = 'int'

    def leaves(x):
        if isinstance(x, (list, tuple)):
            for y in x:
                for z in leaves(y):
                    yield z
        else:
            yield x
    ks = [result_kind(l) for l in leaves(v)]
    kind = 'real' if 'real' in ks else ('int' if 'int' in ks or not ks else 'bool')
    return Tn.fresh(sh, content, kind, lib=lib)


# ------------------------------------------------------------------ element-wise
def broadcast_shapes(ctx, sa, sb):
    ra, rb = len(sa), len(sb)
    r = max(ra, rb)
    sa2 = [1] * (r - ra) + list(sa)
    sb2 = [1] * (r - rb) + list(sb)
    out, ma, mb = [], [], []
    for da, db in zip(sa2, sb2):
        ca, cb = O.simp(da), O.simp(db)
        if isinstance(ca, int) and ca == 1 and not (isinstance(cb, int) and cb == 1):
            out.append(db); ma.append(False); mb.append(True)
        elif isinstance(cb, int) and cb == 1 and not (isinstance(ca, int) and ca == 1):
            out.append(da); ma.append(True); mb.append(False)
        elif known_eq(ctx, da, db):
            out.append(da); ma.append(True); mb.append(True)
        else:
            # symbolic: torch broadcasts when one side is 1, raises when they differ otherwise
            if ctx.branch(O.eq(da, db)):
                out.append(da); ma.append(True); mb.append(True)
            elif ctx.branch(O.eq(da, 1)):
                out.append(db); ma.append(False); mb.append(True)
            elif ctx.branch(O.eq(db, 1)):
                out.append(da); ma.append(True); mb.append(False)
            else:
                ctx.raise_now('RuntimeError')
    return out, (r - ra, ma), (r - rb, mb)


def bidx(idx, pad, mask):
    return [i if m else 0 for i, m in list(zip(idx, mask))[pad:]]


def elementwise(fr, f, a, b, kind=None):
    ctx = fr.ctx
    like = a if isinstance(a, Tn) else b
    a = as_tn(fr, a, like)
    b = as_tn(fr, b, like)
    shape, (pa, ma), (pb, mb) = broadcast_shapes(ctx, a.shape, b.shape)
    sa, sb = a.snapshot(), b.snapshot()

    def content(*idx):
        return f(sa(*bidx(idx, pa, ma)), sb(*bidx(idx, pb, mb)))
    return Tn.fresh(shape, content, kind or result_kind(a, b), lib=like.lib)


def scalar_op(fr, name, x, y):
    if name == 'Add':
        return x + y
    if name == 'Sub':
        return x - y
    if name == 'Mult':
        if is_boolish(x):
            x = ite(x, 1, 0)
        if is_boolish(y):
            y = ite(y, 1, 0)
        return O.mul(x, y)
    if name == 'Div':
        return O.truediv(x, y)
    if name == 'FloorDiv':
        return O.floordiv(x, y)
    if name == 'Mod':
        return O.mod(x, y)
    if name == 'BitAnd':
        return And(x, y)
    if name == 'BitOr':
        return Or(x, y)
    if name == 'Pow':
        ys = O.simp(y)
        if isinstance(ys, int) and 0 <= ys <= 4:
            out = 1
            for _ in range(ys):
                out = O.mul(out, x)
            return out
        if O.any_sym(x, y):
            return LIB['pow'](fr, x, y)
        if not O.any_sym(x, y):
            return x ** y
    raise Unsupported("tensor op %s" % name)


@lib('binop')
def _binop(fr, name, a, b):
    if name in ('Add', 'Sub'):
        def f(x, y):
            if is_boolish(x):
                x = ite(x, 1, 0)
            if is_boolish(y):
                y = ite(y, 1, 0)
            return x + y if name == 'Add' else x - y
        return elementwise(fr, f, a, b, kind=('int' if result_kind(a, b) == 'bool' else None))
    kind = None
    if name == 'Div':
        kind = 'real'
    if name in ('BitAnd', 'BitOr'):
        kind = 'bool'
    if name == 'Mult' and result_kind(a, b) == 'bool':
        kind = 'int'
    return elementwise(fr, lambda x, y: scalar_op(fr, name, x, y), a, b, kind=kind)


@lib('cmp')
def _cmp(fr, n, a, b):
    def f(x, y):
        if is_boolish(x) and not is_boolish(y):
            x = ite(x, 1, 0)
        if is_boolish(y) and not is_boolish(x):
            y = ite(y, 1, 0)
        if n == 'Eq':
            return O.eq(x, y)
        if n == 'NotEq':
            return O.ne(x, y)
        if n == 'Lt':
            return x < y
        if n == 'LtE':
            return x <= y
        if n == 'Gt':
            return x > y
        if n == 'GtE':
            return x >= y
        raise Unsupported("cmp " + n)
    return elementwise(fr, f, a, b, kind='bool')


@lib('unop')
def _unop(fr, name, a):
    s = a.snapshot()
    if name == 'neg':
        return Tn.fresh(a.shape, lambda *i: -s(*i), a.kind, lib=a.lib)
    if name == 'invert':
        return Tn.fresh(a.shape, lambda *i: Not(s(*i)), 'bool', lib=a.lib)
    raise Unsupported(name)


# ------------------------------------------------------------------ indexing
def is_basic_key(key):
    ks = key if isinstance(key, tuple) else (key,)
    for k in ks:
        if k is None or k is Ellipsis or isinstance(k, slice):
            continue
        if isinstance(k, bool):
            return False
        if is_scalar(k):
            continue
        if isinstance(k, Tn) and k.rank == 0 and k.kind == 'int':
            continue
        return False
    return True


def norm_key(key):
    ks = key if isinstance(key, tuple) else (key,)
    out = []
    def sc(v):
        return v.elem() if isinstance(v, Tn) and v.rank == 0 else v
    for k in ks:
        if isinstance(k, Tn) and k.rank == 0:
            k = k.elem()
        elif isinstance(k, slice) and any(isinstance(v, Tn) for v in (k.start, k.stop, k.step)):
            # 0-d integer tensors as slice bounds (torch / numpy accept them through __index__)
            k = slice(sc(k.start), sc(k.stop), sc(k.step))
        out.append(k)
    return tuple(out)


def stacklist_keys(key):
    """a uniform abstract list of integers used as an index is its stack view (an index tensor)"""
    def conv(k):
        if isinstance(k, StackList) and k.tuple_kind is None and k.views[0].rank == 1:
            return k.views[0]
        return k
    if isinstance(key, tuple):
        return tuple(conv(k) for k in key)
    return conv(key)


@lib('getitem')
def _getitem(fr, base, key, site=None):
    ctx = fr.ctx
    if isinstance(base, Tn):
        key = stacklist_keys(key)
        if is_basic_key(key):
            v = basic_index(base, norm_key(key), ctx, site=site)
            if v.rank == 0 and (base.lib == 'np' or ctx.safety):
                if ctx.safety and base.cell.init is not None:
                    goal = base.cell.init(*v.cidx([]))
                    if ctx.opts.get('no_index') and base.cell.base_shape is not None:
                        # index safety is outside this contract: the read is required to be initialised
                        # whenever it is inside the array
                        goal = Implies(And(*[in_range_(i, d) for i, d in zip(v.cidx([]), base.cell.base_shape)]), goal)
                    ctx.oblige("init-before-read@%s" % (site,), goal, 'init')
                return v.elem()
            return v
        return advanced_get(fr, base, key, site)
    if isinstance(base, CatList):
        k = O.simp(key)
        if isinstance(k, int) and k == 0:
            ctx.may_raise(base.count <= 0, 'IndexError')
            return ListItemProbe(base)
        raise Unsupported("indexing an abstract list")
    if isinstance(base, StackList) and isinstance(key, slice):
        # a slice of a uniform abstract list is the list of the sliced views
        views = [basic_index(v, (key,), ctx) for v in base.views]
        return StackList(views[0].shape[0], views, base.tuple_kind)
    if isinstance(base, StackList):
        k = O.simp(key)
        ctx.may_raise(Or(k < -base.count, k >= base.count) if O.any_sym(k, base.count) else (k < -base.count or k >= base.count), 'IndexError')
        if O.is_sym(k) and ctx.entails(k >= 0):
            items = [basic_index(v, (k,), None, wrap=False) for v in base.views]
        else:
            kk = ite(k < 0, k + base.count, k) if O.is_sym(k) or (isinstance(k, int) and k < 0) else k
            items = [basic_index(v, (kk,), None) for v in base.views]
        if base.tuple_kind is None:
            return items[0]
        return tuple(items)
    if isinstance(base, SStr):
        return ('char', base, key)
    if isinstance(base, KeyedLists):
        k = unwrap_scalar(key)
        ctx.index_check(Or(k < -base.count, k >= base.count), And(0 <= k, k < base.count), None, 0, site)
        return KeyedListRef(base, k)
    if isinstance(base, Opaque):
        h = LIB.get('getitem:' + base.cls)
        if h is not None:
            return h(fr, base, key)
    raise Unsupported("getitem on %r" % (type(base),))


class ListItemProbe:
    """y[0] of an abstract list: only its type may be inspected"""

    def __init__(self, lst):
        self.lst = lst


def advanced_get(fr, base, key, site=None):
    """integer-array / list / boolean-mask indexing (numpy-style, fresh result)."""
    ctx = fr.ctx
    ks = list(key) if isinstance(key, tuple) else [key]
    if any(k is Ellipsis for k in ks):
        i = [j for j, k in enumerate(ks) if k is Ellipsis][0]
        nreal = sum(1 for k in ks if k is not None and k is not Ellipsis)
        ks = ks[:i] + [slice(None)] * (base.rank - nreal) + ks[i + 1:]
    ks = ks + [slice(None)] * (base.rank - sum(1 for k in ks if k is not None))
    # convert lists to tensors
    ks2 = []
    for k in ks:
        if isinstance(k, (list, tuple)):
            k = tensor_from_nested(list(k))
        ks2.append(k)
    ks = ks2
    adv = [j for j, k in enumerate(ks) if isinstance(k, Tn) and k.rank >= 1]
    if len(adv) == 1 and isinstance(ks[adv[0]], Tn) and ks[adv[0]].kind == 'bool':
        raise Unsupported("boolean mask indexing")
    for j in adv:
        if ks[j].kind != 'int':
            raise Unsupported("non-integer advanced index")
    if any(k is None for k in ks):
        raise Unsupported("newaxis mixed with advanced indexing")
    # all advanced indices are broadcast together; we support equal rank-1 shapes or a single one
    ashape = None
    for j in adv:
        if ks[j].rank != 1:
            raise Unsupported("advanced index of rank > 1")
        if ashape is None:
            ashape = ks[j].shape[0]
        else:
            require_eq(ctx, ashape, ks[j].shape[0], 'IndexError')
    contiguous = adv == list(range(adv[0], adv[-1] + 1))
    # first apply the basic part as a view with the advanced dims kept whole
    bkey = tuple(slice(None) if j in adv else (k.elem() if isinstance(k, Tn) else k) for j, k in enumerate(ks))
    v = basic_index(base, bkey, ctx, site=site)
    # map: position of each original dim in v (ints removed)
    pos = {}
    p = 0
    for j, k in enumerate(ks):
        if isinstance(bkey[j], slice):
            pos[j] = p
            p += 1
    advpos = [pos[j] for j in adv]
    others = [q for q in range(v.rank) if q not in advpos]
    if contiguous:
        first = advpos[0]
        out_dims = [q for q in others if q < first] + ['A'] + [q for q in others if q > first]
    else:
        out_dims = ['A'] + others
    shape = [ashape if d == 'A' else v.shape[d] for d in out_dims]
    snap = v.snapshot()
    idx_snaps = [ks[j].snapshot() for j in adv]
    dims_of_adv = [v.shape[q] for q in advpos]
    # index range: out of range raises IndexError; negative wraps
    for q, s_, L in zip(advpos, idx_snaps, dims_of_adv):
        if isinstance(ctx, NullCtx):
            for r in range(int(ashape)):
                ctx.may_raise(Or(s_(r) < -L, s_(r) >= L), 'IndexError', site)
            continue
        r = O.fresh_int('r')
        bad = And(in_range_(r, ashape), Or(s_(r) < -L, s_(r) >= L))
        if not isinstance(ctx, NullCtx):
            # exists r. bad  -> IndexError.  We demand it provably impossible, else unsupported path
            if ctx.feasible(bad):
                if ctx.safety:
                    ctx.oblige("index-safety@%s" % (site,), Not(bad), 'index')
                else:
                    ctx.may_raise(bad, 'IndexError', site)
    # negative indices wrap; where the path condition excludes them the wrap is dropped (same value)
    nonneg = []
    for q, s_, L in zip(advpos, idx_snaps, dims_of_adv):
        ok = False
        if not isinstance(ctx, NullCtx):
            r = O.fresh_int('r')
            v0 = s_(r)
            try:
                ok = (not O.is_sym(v0) and v0 >= 0) or (O.is_sym(v0) and not ctx.feasible(And(in_range_(r, ashape), v0 < 0)))
            except Exception:
                ok = False
        nonneg.append(ok)

    def content(*idx):
        src = [None] * v.rank
        a = None
        for d, i in zip(out_dims, idx):
            if d == 'A':
                a = i
            else:
                src[d] = i
        for (q, s_, L), nn in zip(zip(advpos, idx_snaps, dims_of_adv), nonneg):
            val = s_(a)
            if nn:
                src[q] = val
            else:
                src[q] = ite(val < 0, val + L, val) if O.is_sym(val) else (val + L if val < 0 else val)
        return snap(*src)
    return Tn.fresh(shape, content, base.kind, lib=base.lib, dtype=base.dtype)


def in_range_(i, n):
    return And(0 <= i, i < n)


@lib('setitem')
def _setitem(fr, base, key, v, site=None):
    ctx = fr.ctx
    if isinstance(v, MinMax):
        v = v.values
    if is_basic_key(key):
        view = basic_index(base, norm_key(key), ctx, site=site)
        region = [('all',)] * view.rank
        if isinstance(v, (list, tuple)):
            v = tensor_from_nested(v)
        if isinstance(v, Tn):
            # shape compatibility (right-aligned broadcast of v against the region)
            vs = list(v.shape)
            rs = list(view.shape)
            while len(vs) > len(rs) and O.is_conc(vs[0]) and O.conc_int(vs[0]) == 1:
                vs = vs[1:]
            if len(vs) > len(rs):
                ctx.raise_now('RuntimeError')
            bmask = []
            for dv, dr in zip(reversed(vs), reversed(rs)):
                if O.is_conc(dv) and O.conc_int(dv) == 1:
                    bmask.append(True)
                    continue
                if known_eq(ctx, dv, dr) or ctx.branch(O.eq(dv, dr)):
                    bmask.append(False)
                elif ctx.branch(O.eq(dv, 1)):
                    bmask.append(True)
                else:
                    ctx.raise_now('RuntimeError')
            bmask.reverse()
            view.write(region, v, ctx, bmask=bmask)
            return
        elif not is_scalar(v):
            raise Unsupported("store of %r" % (type(v),))
        else:
            v = unwrap_scalar(v)
            if base.kind == 'int' and is_realish(v):
                vs_ = O.simp(v)
                if isinstance(vs_, float) and float(vs_).is_integer():
                    v = int(vs_)
        view.write(region, v, ctx)
        return
    return advanced_set(fr, base, key, v, site)


def advanced_set(fr, base, key, v, site=None):
    ctx = fr.ctx
    ks = list(key) if isinstance(key, tuple) else [key]
    ks = ks + [slice(None)] * (base.rank - len(ks))
    ks = [tensor_from_nested(list(k)) if isinstance(k, (list, tuple)) else k for k in ks]
    adv = [j for j, k in enumerate(ks) if isinstance(k, Tn) and k.rank >= 1]
    if len(adv) == 1 and ks[adv[0]].kind == 'bool' and is_scalar(v):
        # X[mask] = scalar
        m = ks[adv[0]]
        j = adv[0]
        if any(not (isinstance(k, slice) and k == slice(None)) for i, k in enumerate(ks) if i != j):
            raise Unsupported("mask store mixed with other indices")
        if m.rank != base.rank or j != 0:
            raise Unsupported("partial-rank mask store")
        ms = m.snapshot()
        ctx.on_write(base)
        old = base.snapshot()
        if base.imap != [('aff', d, 0, 1) for d in range(base.cell.rank)]:
            raise Unsupported("mask store through a view")
        base.cell.content = lambda *i: ite(ms(*i), v, old(*i))
        return
    if not all(isinstance(k, slice) and k == slice(None) or j in adv or is_scalar(k) for j, k in enumerate(ks)):
        raise Unsupported("advanced store with partial slices")
    if not is_scalar(v):
        raise Unsupported("advanced store of a tensor value")
    for j in adv:
        if ks[j].rank != 1 or ks[j].kind != 'int':
            raise Unsupported("advanced store index shape")
    n = ks[adv[0]].shape[0]
    for j in adv[1:]:
        require_eq(ctx, n, ks[j].shape[0], 'IndexError')
    if base.imap != [('aff', d, 0, 1) for d in range(base.cell.rank)]:
        raise Unsupported("advanced store through a view")
    snaps = {j: ks[j].snapshot() for j in adv}
    for j in adv:
        L = base.shape[j]
        if isinstance(ctx, NullCtx):
            for r in range(int(n)):
                ctx.may_raise(Or(snaps[j](r) < -L, snaps[j](r) >= L), 'IndexError', site)
            continue
        r = O.fresh_int('r')
        bad = And(in_range_(r, n), Or(snaps[j](r) < -L, snaps[j](r) >= L))
        if ctx.feasible(bad):
            ctx.may_raise(bad, 'IndexError', site)
    ctx.on_write(base)
    old = base.cell.content
    hitname = O.fresh_name('hit')
    # content'(i) = v if exists r<n with idx_j(r) == i_j for all advanced j (and scalar keys match)
    scal = {j: k for j, k in enumerate(ks) if is_scalar(k) and j not in adv}

    def content(*idx):
        r = z3.Int(O.fresh_name('r'))
        conds = [in_range_(r, n)]
        for j in adv:
            L = base.shape[j]
            val = snaps[j](r)
            val = ite(val < 0, val + L, val)
            conds.append(O.eq(val, idx[j]))
        hit = z3.Exists([r], O.to_z3(And(*conds)))
        for j, k in scal.items():
            hit = And(hit, O.eq(idx[j], k))
        return ite(hit, v, old(*idx))
    if not O.any_sym(n):
        def content(*idx):
            hit = False
            for r in range(int(n)):
                conds = []
                for j in adv:
                    L = base.shape[j]
                    val = snaps[j](r)
                    val = ite(val < 0, val + L, val)
                    conds.append(O.eq(val, idx[j]))
                hit = Or(hit, And(*conds))
            for j, k in scal.items():
                hit = And(hit, O.eq(idx[j], k))
            return ite(hit, v, old(*idx))
    base.cell.content = content


# ------------------------------------------------------------------ construction
def shape_args(args):
    if len(args) == 1 and isinstance(args[0], (list, tuple)):
        return list(args[0])
    return list(args)


def dtype_kind(dt, default='real'):
    if dt is None:
        return default
    if isinstance(dt, str):
        nm = dt
    elif isinstance(dt, DType):
        nm = dt.name
    elif isinstance(dt, LibFn):
        nm = dt.name
    else:
        return default
    if 'bool' in nm:
        return 'bool'
    if 'int' in nm or 'long' in nm:
        return 'int'
    return 'real'


@lib('torch.zeros', 'numpy.zeros', 'torch.ones', 'numpy.ones', 'torch.empty', 'numpy.empty')
def _zeros(fr, *args, dtype=None, device=None, _which=None, **kw):
    raise Unsupported("direct call")


def make_filled(which, libname):
    def f(fr, *args, dtype=None, device=None, **kw):
        shape = shape_args(args)
        shape = [unwrap_scalar(s) for s in shape]
        for s in shape:
            fr.ctx.may_raise(s < 0, 'RuntimeError' if libname == 'torch' else 'ValueError')
        kind = dtype_kind(dtype, 'real')
        if which == 'empty':
            nm = O.fresh_name('empty')
            sort = {'int': z3.IntSort(), 'real': z3.RealSort(), 'bool': z3.BoolSort()}[kind]
            g = z3.Function(nm, *([z3.IntSort()] * len(shape)), sort)
            t = Tn.fresh(shape, (lambda *i: g(*[O.to_z3(x) for x in i])), kind, lib=libname, init=(lambda *i: False))
        else:
            val = 0 if which == 'zeros' else 1
            if kind == 'bool':
                val = (val == 1)
            t = Tn.fresh(shape, lambda *i: val, kind, lib=libname)
        t.dtype = dtype if isinstance(dtype, DType) else (DType(str(dtype)) if dtype is not None else None)
        return t
    return f


for _w in ('zeros', 'ones', 'empty'):
    LIB['torch.' + _w] = make_filled(_w, 'torch')
    LIB['numpy.' + _w] = make_filled(_w, 'np')


def make_like(which):
    def f(fr, x, dtype=None, device=None, **kw):
        kind = dtype_kind(dtype, x.kind)
        if which == 'empty':
            return LIB['numpy.empty' if x.lib == 'np' else 'torch.empty'](fr, list(x.shape), dtype=dtype or DType(x.kind))
        val = 0 if which == 'zeros' else 1
        if kind == 'bool':
            val = (val == 1)
        t = Tn.fresh(list(x.shape), lambda *i: val, kind, lib=x.lib)
        t.dtype = dtype or x.dtype
        return t
    return f


for _w in ('zeros', 'ones', 'empty'):
    LIB['torch.%s_like' % _w] = make_like(_w)
    LIB['numpy.%s_like' % _w] = make_like(_w)


@lib('torch.arange', 'numpy.arange')
def _arange(fr, *args, dtype=None, **kw):
    if len(args) == 1:
        lo, hi = 0, unwrap_scalar(args[0])
    else:
        lo, hi = unwrap_scalar(args[0]), unwrap_scalar(args[1])
        if len(args) > 2:
            raise Unsupported("arange with step")
    n = O.simp(ite(hi - lo < 0, 0, hi - lo) if O.any_sym(hi, lo) else max(hi - lo, 0))
    return Tn.fresh([n], lambda i: lo + i, 'int', lib='np' if fr_is_numpy(kw) else 'torch')


def fr_is_numpy(kw):
    return kw.get('_np', False)


@lib('torch.tensor', 'numpy.array', 'torch.as_tensor', 'numpy.asarray')
def _tensor(fr, v, dtype=None, device=None, **kw):
    if isinstance(v, Tn):
        s = v.snapshot()
        return Tn.fresh(v.shape, s, dtype_kind(dtype, v.kind), lib=v.lib)
    t = as_tn(fr, v)
    if dtype is not None:
        t.cell.kind = dtype_kind(dtype, t.kind)
    return t


@lib('torch.clone')
def _clone(fr, x, **kw):
    s = x.snapshot()
    t = Tn.fresh(x.shape, s, x.kind, lib=x.lib, dtype=x.dtype)
    return t


@lib('torch.from_numpy')
def _from_numpy(fr, x):
    t = x.view(x.shape, x.imap)
    t.lib = 'torch'
    return t


def merge_leading(V):
    """(n, K, rest...) -> (n*K, rest...) keeping the factorisation of dim 0 for later reshapes"""
    n, K = V.shape[0], V.shape[1]
    s = V.snapshot()

    def content(r, *rest):
        return s(O.floordiv(r, K), O.mod(r, K), *rest)
    t = Tn.fresh([O.simp(O.mul(n, K))] + list(V.shape[2:]), content, V.kind, lib=V.lib)
    t.factored = {0: ([n, K], s)}
    return t


@lib('torch.cat', 'numpy.concatenate', 'torch.concatenate', 'torch.concat')
def _cat(fr, ts, dim=0, axis=None, **kw):
    ctx = fr.ctx
    if axis is not None:
        dim = axis
    if isinstance(ts, CatList):
        if ts.tuple_kind is not None:
            raise SymRaise('TypeError')
        ctx.may_raise(ts.count <= 0, 'RuntimeError')
        if norm_dim(dim, ts.views[0].rank) != 0:
            raise Unsupported("cat of abstract list along dim != 0")
        return ts.views[0]
    if isinstance(ts, StackList):
        # uniform items: cat along dim 0 merges (count, rows-per-item); the factorisation is kept
        if ts.tuple_kind is not None:
            raise SymRaise('TypeError')
        ctx.may_raise(ts.count <= 0, 'RuntimeError')
        if norm_dim(dim, ts.views[0].rank - 1) != 0:
            raise Unsupported("cat of uniform abstract list along dim != 0")
        V = ts.views[0]
        if V.rank < 2:
            raise SymRaise('RuntimeError')
        return merge_leading(V)
    ts = list(ts)
    if len(ts) == 0:
        raise SymRaise('RuntimeError')
    ts = [as_tn(fr, t) for t in ts]
    r = ts[0].rank
    for t in ts:
        if t.rank != r:
            raise SymRaise('RuntimeError')
    d = norm_dim(dim, r)
    for t in ts[1:]:
        for q in range(r):
            if q != d:
                require_eq(ctx, ts[0].shape[q], t.shape[q])
    snaps = [t.snapshot() for t in ts]
    sizes = [t.shape[d] for t in ts]
    offs = [0]
    for s in sizes:
        offs.append(offs[-1] + s)
    shape = list(ts[0].shape)
    shape[d] = O.simp(offs[-1])

    def content(*idx):
        i = idx[d]
        def at(k):
            j = list(idx)
            j[d] = i - offs[k]
            return snaps[k](*j)
        out = at(len(ts) - 1)
        for k in range(len(ts) - 2, -1, -1):
            out = ite(i < offs[k + 1], at(k), out)
        return out
    res = Tn.fresh(shape, content, result_kind(*ts), lib=ts[0].lib)
    if d == 0:
        # the pieces (entry snapshots) are remembered: halves of [a; b] can be taken back structurally
        res.cat_parts = [(Tn.fresh(list(t.shape), sn, t.kind, lib=t.lib), sz) for t, sn, sz in zip(ts, snaps, sizes)]
    return res


@lib('torch.vstack')
def _vstack(fr, ts, **kw):
    ts = [as_tn(fr, t) for t in ts]
    if all(t.rank == 1 for t in ts):
        return _stack(fr, ts, 0)
    return _cat(fr, ts, 0)


@lib('torch.stack', 'numpy.stack')
def _stack(fr, ts, dim=0, axis=None, **kw):
    ctx = fr.ctx
    if axis is not None:
        dim = axis
    if isinstance(ts, StackList):
        if ts.tuple_kind is not None:
            raise SymRaise('TypeError')
        ctx.may_raise(ts.count <= 0, 'RuntimeError')
        if O.conc_int(dim) != 0:
            raise Unsupported("stack of abstract list along dim != 0")
        return ts.views[0]
    if isinstance(ts, CatList):
        raise Unsupported("stack of a cat-abstracted list")
    ts = [as_tn(fr, t) for t in ts]
    if len(ts) == 0:
        raise SymRaise('RuntimeError')
    r = ts[0].rank
    for t in ts[1:]:
        if t.rank != r:
            raise SymRaise('RuntimeError')
        for q in range(r):
            require_eq(ctx, ts[0].shape[q], t.shape[q])
    d = O.conc_int(dim)
    if d < 0:
        d += r + 1
    snaps = [t.snapshot() for t in ts]
    shape = list(ts[0].shape[:d]) + [len(ts)] + list(ts[0].shape[d:])

    def content(*idx):
        k = O.simp(idx[d])
        rest = list(idx[:d]) + list(idx[d + 1:])
        if isinstance(k, int):
            return snaps[k](*rest)
        out = snaps[-1](*rest)
        for j in range(len(ts) - 2, -1, -1):
            out = ite(O.eq(k, j), snaps[j](*rest), out)
        return out
    return Tn.fresh(shape, content, result_kind(*ts), lib=ts[0].lib)


# ------------------------------------------------------------------ shape ops (methods)
@method('Tn.clone', 'Tn.copy')
def _m_clone(fr, x, **kw):
    return _clone(fr, x)


@method('Tn.to', 'Tn.cpu', 'Tn.detach', 'Tn.contiguous', 'Tn.cuda', 'Tn.requires_grad_', 'Tn.float', 'Tn.double', 'Tn.long', 'Tn.int')
def _m_identity(fr, x, *a, **kw):
    return x


@method('Tn.type', 'Tn.astype')
def _m_type(fr, x, dtype=None, *a, **kw):
    k = dtype_kind(dtype, x.kind)
    if k == x.kind:
        t = x.view(x.shape, x.imap)
        t.dtype = dtype if isinstance(dtype, DType) else x.dtype
        return t
    s = x.snapshot()
    if k == 'bool':
        f = lambda *i: (s(*i) != 0)
    elif x.kind == 'bool':
        f = lambda *i: ite(s(*i), 1, 0)
    elif k == 'int' and x.kind == 'real':
        if not getattr(x, 'rounded', False):
            raise Unsupported("float -> int cast")
        f = lambda *i: (lambda v: z3.ToInt(v) if O.is_sym(v) and z3.is_real(v) else (int(v) if not O.is_sym(v) else v))(s(*i))
    else:
        f = s
    t = Tn.fresh(x.shape, f, k, lib=x.lib)
    t.dtype = dtype if isinstance(dtype, DType) else None
    return t


@method('Tn.numpy')
def _m_numpy(fr, x, force=False, **kw):
    t = x.view(x.shape, x.imap)
    t.lib = 'np'
    return t


@method('Tn.item')
def _m_item(fr, x):
    if x.rank == 0:
        return x.elem()
    fr.ctx.may_raise(O.ne(x.numel(), 1), 'RuntimeError')
    return x.elem(*([0] * x.rank))


@method('Tn.numel')
def _m_numel(fr, x):
    return x.numel()


@method('Tn.unsqueeze')
def _m_unsqueeze(fr, x, d):
    return x.unsqueeze(O.conc_int(d))


@method('Tn.permute')
def _m_permute(fr, x, *perm):
    perm = shape_args(perm)
    return x.permute([O.conc_int(p) for p in perm])


@method('Tn.transpose')
def _m_transpose(fr, x, *a):
    a = shape_args(a)
    if x.lib == 'np':
        if len(a) == 0:
            return x.permute(list(range(x.rank))[::-1])
        return x.permute([O.conc_int(p) for p in a])
    d0, d1 = norm_dim(a[0], x.rank), norm_dim(a[1], x.rank)
    p = list(range(x.rank))
    p[d0], p[d1] = p[d1], p[d0]
    return x.permute(p)


@method('Tn.moveaxis', 'Tn.movedim')
def _m_moveaxis(fr, x, src, dst):
    s, d = norm_dim(src, x.rank), norm_dim(dst, x.rank)
    p = [q for q in range(x.rank) if q != s]
    p.insert(d, s)
    return x.permute(p)


@lib('torch.flip')
def _flip(fr, x, dims):
    dims = [norm_dim(d, x.rank) for d in (dims if isinstance(dims, (list, tuple)) else [dims])]
    key = tuple(slice(None, None, -1) if q in dims else slice(None) for q in range(x.rank))
    v = basic_index(x, key, fr.ctx)
    s = v.snapshot()
    return Tn.fresh(v.shape, s, x.kind, lib=x.lib)


@method('Tn.flip')
def _m_flip(fr, x, *dims):
    return _flip(fr, x, shape_args(dims))


@method('Tn.repeat')
def _m_repeat(fr, x, *reps):
    ctx = fr.ctx
    reps = [unwrap_scalar(r) for r in shape_args(reps)]
    if x.lib == 'np':
        raise Unsupported("numpy repeat")
    if len(reps) < x.rank:
        raise SymRaise('RuntimeError')
    pad = len(reps) - x.rank
    shape0 = [1] * pad + list(x.shape)
    for r in reps:
        ctx.may_raise(r < 0, 'RuntimeError')
    s = x.snapshot()
    shape = [O.simp(O.mul(r, d)) for r, d in zip(reps, shape0)]

    def content(*idx):
        src = []
        for q, (i, r, d) in enumerate(zip(idx, reps, shape0)):
            rs, ds = O.simp(r), O.simp(d)
            if isinstance(rs, int) and rs == 1:
                src.append(i)
            elif isinstance(ds, int) and ds == 1:
                src.append(0)
            else:
                src.append(O.mod(i, d))
        return s(*src[pad:])
    return Tn.fresh(shape, content, x.kind, lib=x.lib, dtype=x.dtype)


@method('Tn.repeat_interleave')
def _m_repeat_interleave(fr, x, n, dim=None):
    if dim is None:
        raise Unsupported("repeat_interleave without dim")
    d = norm_dim(dim, x.rank)
    n = unwrap_scalar(n)
    fr.ctx.may_raise(n < 0, 'RuntimeError')
    s = x.snapshot()
    shape = list(x.shape)
    shape[d] = O.simp(O.mul(shape[d], n))

    def content(*idx):
        j = list(idx)
        ns = O.simp(n)
        j[d] = idx[d] if (isinstance(ns, int) and ns == 1) else O.floordiv(idx[d], n)
        return s(*j)
    return Tn.fresh(shape, content, x.kind, lib=x.lib, dtype=x.dtype)


@lib('numpy.repeat')
def _np_repeat(fr, x, n, axis=None):
    raise Unsupported("numpy.repeat")


def prod(xs):
    out = 1
    for x in xs:
        out = O.mul(out, x) if O.any_sym(out, x) else out * x
    return out


@method('Tn.reshape', 'Tn.view')
def _m_reshape(fr, x, *shape):
    """reshape by dimension grouping (DESIGN §2.2.2): strip provably equal leading / trailing
    dimensions, then the middle must be a pure merge (several -> one) or a pure split (one ->
    several); only multiplication, or div/mod by a single symbolic size, is ever generated."""
    ctx = fr.ctx
    fac = getattr(x, 'factored', None)
    if fac and 0 in fac and x.rank >= 1:
        factors, acc = fac[0]
        rest_shape = list(x.shape[1:])
        x = Tn.fresh(list(factors) + rest_shape, acc, x.kind, lib=x.lib, dtype=x.dtype)
    new = [unwrap_scalar(s) for s in shape_args(shape)]
    old = list(x.shape)
    neg = [j for j, s in enumerate(new) if O.is_conc(s) and O.conc_int(s) == -1]
    if len(neg) > 1:
        raise SymRaise('RuntimeError')
    # strip trailing
    to, tn = len(old), len(new)
    while to > 0 and tn > 0 and not (neg and neg[0] == tn - 1) and known_eq(ctx, old[to - 1], new[tn - 1]):
        to -= 1
        tn -= 1
    lo = 0
    while lo < to and lo < tn and not (neg and neg[0] == lo) and known_eq(ctx, old[lo], new[lo]):
        lo += 1
    mo, mn = old[lo:to], new[lo:tn]
    head_o, tail_o = old[:lo], old[to:]
    s = x.snapshot()
    if neg:
        j = neg[0] - lo
        if not (0 <= j < len(mn)):
            raise Unsupported("reshape: -1 outside the middle group")
        others = prod([d for q, d in enumerate(mn) if q != j])
        total = prod(mo)
        os_ = O.simp(others)
        if isinstance(os_, int) and os_ == 1:
            mn[j] = O.simp(total)
        elif len(mo) == 1 and len(mn) >= 2:
            # split with inferred dim: k * others == old (else torch raises)
            if not O.any_sym(total, others):
                if others == 0 or total % others != 0:
                    raise SymRaise('RuntimeError')
                mn[j] = total // others
            else:
                k = O.fresh_int('inferred')
                ctx.may_raise(Or(O.eq(others, 0), O.ne(O.mod(total, others), 0)) if ctx.feasible(Or(O.eq(others, 0), O.ne(O.mod(total, others), 0))) else False, 'RuntimeError')
                ctx.assume(And(k >= 0, O.eq(O.mul(k, others), total)))
                mn[j] = k
        else:
            raise Unsupported("reshape: -1 in a merge group with other dims")
    new_full = new[:lo] + mn + new[tn:]
    if len(mo) == 0 and len(mn) == 0:
        t = Tn.fresh(new_full, s, x.kind, lib=x.lib, dtype=x.dtype)
        return t
    if len(mo) == 0:
        # only size-1 dims may be added
        for d in mn:
            require_eq(ctx, d, 1)
        nmid = len(mn)
        return Tn.fresh(new_full, lambda *i: s(*(list(i[:lo]) + list(i[lo + nmid:]))), x.kind, lib=x.lib, dtype=x.dtype)
    if len(mn) == 0:
        for d in mo:
            require_eq(ctx, d, 1)
        nmid = len(mo)
        return Tn.fresh(new_full, lambda *i: s(*(list(i[:lo]) + [0] * nmid + list(i[lo:]))), x.kind, lib=x.lib, dtype=x.dtype)
    if len(mo) == 1 and len(mn) == 1:
        require_eq(ctx, mo[0], mn[0])
        return Tn.fresh(new_full, s, x.kind, lib=x.lib, dtype=x.dtype)
    if len(mn) == 1:
        # merge mo -> one dim
        require_eq(ctx, prod(mo), mn[0])
        nmid = len(mo)

        def content(*idx):
            k = idx[lo]
            parts = []
            for d in reversed(mo[1:]):
                ds = O.simp(d)
                if isinstance(ds, int) and ds == 1:
                    parts.append(0)
                else:
                    parts.append(O.mod(k, d))
                    k = O.floordiv(k, d)
            parts.append(k)
            parts.reverse()
            return s(*(list(idx[:lo]) + parts + list(idx[lo + 1:])))
        return Tn.fresh(new_full, content, x.kind, lib=x.lib, dtype=x.dtype)
    if len(mo) == 1:
        # split one dim -> mn
        require_eq(ctx, mo[0], prod(mn))
        nmid = len(mn)

        def content(*idx):
            k = idx[lo]
            for q in range(1, nmid):
                k2 = O.mul(k, mn[q]) + idx[lo + q]
                O.register_qr(k2, k, mn[q], idx[lo + q])
                k = k2
            return s(*(list(idx[:lo]) + [k] + list(idx[lo + nmid:])))
        return Tn.fresh(new_full, content, x.kind, lib=x.lib, dtype=x.dtype)
    # general fallback: merge then split (division by single sizes, multiplication on the way up)
    total_o, total_n = prod(mo), prod(mn)
    require_eq(ctx, total_o, total_n)
    nmo, nmn = len(mo), len(mn)

    def content(*idx):
        k = idx[lo]
        for q in range(1, nmn):
            k = O.mul(k, mn[q]) + idx[lo + q]
        parts = []
        for d in reversed(mo[1:]):
            parts.append(O.mod(k, d))
            k = O.floordiv(k, d)
        parts.append(k)
        parts.reverse()
        return s(*(list(idx[:lo]) + parts + list(idx[lo + nmn:])))
    ctx.notes.append('reshape-generic-fallback')
    return Tn.fresh(new_full, content, x.kind, lib=x.lib, dtype=x.dtype)


@method('Tn.flatten')
def _m_flatten(fr, x, *a, **kw):
    if a or kw:
        sd = a[0] if a else kw.get('start_dim', 0)
        ed = a[1] if len(a) > 1 else kw.get('end_dim', -1)
        sd, ed = norm_dim(O.conc_int(sd), x.rank), norm_dim(O.conc_int(ed), x.rank)
        if sd == ed:
            return x          # a single dimension: the tensor itself
        if sd == 0 and ed == x.rank - 1:
            return _m_reshape(fr, x, -1)
        raise Unsupported("flatten of an inner range of dimensions")
    return _m_reshape(fr, x, -1)


@method('Tn.unfold')
def _m_unfold(fr, x, dim, size, step):
    ctx = fr.ctx
    d = norm_dim(dim, x.rank)
    size, step = unwrap_scalar(size), unwrap_scalar(step)
    L = x.shape[d]
    ctx.may_raise(Or(size > L, step <= 0) if O.any_sym(size, L, step) else (size > L or step <= 0), 'RuntimeError')
    s = x.snapshot()
    n = O.simp(O.floordiv(L - size, step) + 1)
    shape = list(x.shape)
    shape[d] = n
    shape.append(size)

    def content(*idx):
        j = list(idx[:-1])
        j[d] = O.mul(idx[d], step) + idx[-1]
        return s(*j)
    t = Tn.fresh(shape, content, x.kind, lib=x.lib, dtype=x.dtype)
    t.may_alias = True
    return t


@method('Tn.expand_as')
def _m_expand_as(fr, x, other):
    ctx = fr.ctx
    shape, (pa, ma), (pb, mb) = broadcast_shapes(ctx, x.shape, other.shape)
    s = x.snapshot()
    return Tn.fresh(other.shape, lambda *idx: s(*bidx(idx, pa, ma)), x.kind, lib=x.lib)


@method('Tn.chunk')
def _m_chunk(fr, x, n, dim=0):
    n = O.conc_int(n)
    d = norm_dim(dim, x.rank)
    if n != 2:
        raise Unsupported("chunk(n != 2)")
    L = x.shape[d]
    half = O.floordiv(L + 1, 2)
    k1 = tuple(slice(None) if q != d else slice(0, half) for q in range(x.rank))
    k2 = tuple(slice(None) if q != d else slice(half, None) for q in range(x.rank))
    return (basic_index(x, k1, fr.ctx), basic_index(x, k2, fr.ctx))


@lib('torch.chunk')
def _chunk(fr, x, n, dim=0):
    return _m_chunk(fr, x, n, dim)


# ------------------------------------------------------------------ reductions
SUM_DEFS = {}     # function name -> (placeholder consts, summation variable, body template, kind)
_SUM_BY_KEY = {}


def _free_consts(t, skip):
    out, seen = [], set()

    def rec(x):
        if z3.is_const(x) and x.decl().kind() == z3.Z3_OP_UNINTERPRETED and not z3.is_array(x):
            if x.get_id() not in seen and not any(x.eq(s_) for s_ in skip):
                seen.add(x.get_id())
                out.append(x)
            return
        if z3.is_quantifier(x):
            rec(x.body())
            return
        for ch in x.children():
            rec(ch)
    rec(t)
    return out


def _indicator_select(body, k, lo, hi):
    """sum_k ite(k == e, v, 0) with e free of k  ==  ite(lo <= e < hi, v[k := e], 0)   (sum_onehot_select,
    lean/Lemmas.lean): the sum of a one-hot column against anything selects one term"""
    t = body
    if z3.is_app_of(t, z3.Z3_OP_TO_REAL):
        inner = _indicator_select(t.arg(0), k, lo, hi)
        return None if inner is None else z3.ToReal(O.to_z3(inner))
    if not z3.is_app_of(t, z3.Z3_OP_ITE):
        return None
    c, a, b = t.arg(0), t.arg(1), t.arg(2)
    if not ((z3.is_int_value(b) and b.as_long() == 0) or (z3.is_rational_value(b) and b.numerator_as_long() == 0)):
        return None
    if not z3.is_eq(c):
        return None
    l, r = c.arg(0), c.arg(1)
    if r.eq(k):
        l, r = r, l
    if not l.eq(k) or _mentions_const(r, k):
        return None
    v = z3.substitute(a, (k, r))
    return ite(And(O.to_z3(lo) <= r, r < O.to_z3(hi)), v, 0)


def _mentions_const(t, c):
    if t.eq(c):
        return True
    return any(_mentions_const(ch, c) for ch in t.children())


def Sum(lo, hi, f, kind='int'):
    """sum_{k=lo}^{hi-1} f(k).  Concrete bounds: explicit addition.  Symbolic: an application
    SUM_<summand shape>(free constants of the summand, lo, hi) of an uninterpreted function that
    stands for the sum of that summand shape (no lambda terms reach the solver).  Congruence of sums
    (sum_congr_range) is applied by ops.smart_eq through the registry of summand templates;
    unfolding lemmas are instantiated by the contracts that need them."""
    lo_, hi_ = O.simp(lo), O.simp(hi)
    if isinstance(lo_, int) and isinstance(hi_, int):
        out = 0
        for k in range(lo_, hi_):
            v = f(k)
            if is_boolish(v):
                v = ite(v, 1, 0)
            out = out + v
        return out
    # the summation variable is fresh while the summand is built (a summand may itself contain sums
    # whose summands mention this variable) and is renamed to the canonical `sk` in the template
    kf = z3.Int(O.fresh_name('sk'))
    k = z3.Int('sk')
    body = f(kf)
    if is_boolish(body):
        body = ite(body, 1, 0)
    body = O.to_z3(body)
    body = z3.substitute(body, (kf, k))
    if kind == 'real' and z3.is_int(body):
        body = z3.ToReal(body)
    if kind == 'int' and z3.is_real(body):
        kind = 'real'
    sel = _indicator_select(body, k, lo, hi)
    if sel is not None:
        return sel
    body = z3.simplify(body)
    consts = _free_consts(body, [k])
    ph = [z3.Const('ph!%d' % i, c.sort()) for i, c in enumerate(consts)]
    templ = z3.substitute(body, *[(c, p) for c, p in zip(consts, ph)]) if consts else body
    key = (templ.sexpr(), kind)
    if key not in _SUM_BY_KEY:
        name = 'SUM_%d' % len(_SUM_BY_KEY)
        sort = z3.IntSort() if kind == 'int' else z3.RealSort()
        fn = z3.Function(name, *[c.sort() for c in consts], z3.IntSort(), z3.IntSort(), sort)
        _SUM_BY_KEY[key] = fn
        SUM_DEFS[name] = (ph, k, templ, kind)
        O.SUM_DEFS = SUM_DEFS
    fn = _SUM_BY_KEY[key]
    return fn(*consts, O.to_z3(lo), O.to_z3(hi))


def sum_summand(app, kvar):
    """summand of a SUM_* application at index kvar"""
    ph, k, templ, kind = SUM_DEFS[app.decl().name()]
    args = app.children()
    return z3.substitute(templ, *([(p, a) for p, a in zip(ph, args[:len(ph)])] + [(k, kvar)]))


def sum_step_lemmas(term, depth=2, _seen=None):
    """instances of the defining equations of the sums occurring in `term` (lean/Lemmas.lean sum_range_succ'
    and the empty sum): for S = SUM(.., lo, hi):  hi <= lo -> S == 0,  hi > lo -> S == SUM(.., lo, hi-1) +
    summand(hi-1); applied again (depth) to the sums inside the split-off summand.  Valid by the definition
    of the sum; the solver sees SUM_* as uninterpreted, so goals that step an accumulator carry these."""
    out = []
    seen = _seen if _seen is not None else set()

    def rec(t, d):
        if not isinstance(t, z3.ExprRef) or t.get_id() in seen:
            return
        seen.add(t.get_id())
        if z3.is_quantifier(t):
            return
        if z3.is_app(t) and t.decl().name() in SUM_DEFS:
            n = t.num_args()
            lo, hi = t.arg(n - 2), t.arg(n - 1)
            prev = t.decl()(*(list(t.children())[:n - 2] + [lo, z3.simplify(hi - 1)]))
            last = z3.simplify(sum_summand(t, hi - 1))
            out.append(z3.If(hi <= lo, t == 0, t == prev + last))
            if d > 1:
                rec(last, d - 1)
        for ch in t.children():
            rec(ch, d)
    rec(O.to_z3(term) if not isinstance(term, z3.ExprRef) else term, depth)
    return out


def reduce_dims(x, dim, rank):
    if dim is None:
        return list(range(rank))
    if isinstance(dim, (list, tuple)):
        return sorted(norm_dim(d, rank) for d in dim)
    return [norm_dim(dim, rank)]


@method('Tn.sum')
def _m_sum(fr, x, dim=None, axis=None, keepdim=False, keepdims=False, **kw):
    if axis is not None:
        dim = axis
    dims = reduce_dims(x, dim, x.rank)
    keep = keepdim or keepdims
    s = x.snapshot()
    kind = 'int' if x.kind in ('int', 'bool') else 'real'
    shape = [(1 if q in dims else d) for q, d in enumerate(x.shape)] if keep else [d for q, d in enumerate(x.shape) if q not in dims]
    xshape = list(x.shape)

    def content(*idx):
        if keep:
            base = list(idx)
        else:
            it = iter(idx)
            base = [None if q in dims else next(it) for q in range(len(xshape))]

        def rec(qi, cur):
            if qi == len(dims):
                return s(*cur)
            q = dims[qi]
            return Sum(0, xshape[q], lambda k: rec(qi + 1, cur[:q] + [k] + cur[q + 1:]), kind)
        return rec(0, base)
    return Tn.fresh(shape, content, kind, lib=x.lib)


@lib('numpy.nansum', 'torch.nansum')
def _nansum(fr, x, *a, **kw):
    # NaN is outside the real-arithmetic model of floats (stated assumption): nansum is sum on it
    fr.ctx.trusted.add('assumed: numpy.nansum == sum on tracks without NaN (floats are reals here)')
    return _sum(fr, x, *a, **kw)


@lib('torch.sum', 'numpy.sum')
def _sum(fr, x, *a, **kw):
    return _m_sum(fr, as_tn(fr, x), *a, **kw)


@method('Tn.mean')
def _m_mean(fr, x, dim=None, axis=None, keepdim=False, keepdims=False, **kw):
    if axis is not None:
        dim = axis
    dims = reduce_dims(x, dim, x.rank)
    t = _m_sum(fr, x, dim=dims, keepdim=keepdim or keepdims)
    n = prod([x.shape[q] for q in dims])
    s = t.snapshot()
    return Tn.fresh(t.shape, lambda *i: O.truediv(s(*i), n), 'real', lib=x.lib)


@lib('torch.mean')
def _mean(fr, x, *a, **kw):
    return _m_mean(fr, x, *a, **kw)


POOLLEN = z3.Function('POOLLEN', z3.IntSort(), z3.IntSort(), z3.IntSort(), z3.IntSort(), z3.IntSort(), z3.BoolSort(), z3.IntSort())


@lib('torch.unique')
def _unique(fr, x, *a, **kw):
    """torch.unique(X) (sorted distinct values) - an assumed relation: a strictly increasing vector U of some
    length nu whose entries are exactly the values of X (every element of X is some U[k], every U[k] is attained)"""
    if a or any(kw.get(k) for k in kw if k != 'sorted'):
        raise Unsupported("torch.unique with options")
    x = as_tn(fr, x)
    ctx = fr.ctx
    nm = O.fresh_name('uniq')
    nu = z3.Int(nm + '.n')
    sort = z3.RealSort() if x.kind == 'real' else z3.IntSort()
    U = z3.Function(nm + '.U', z3.IntSort(), sort)
    pos = z3.Function(nm + '.pos', *([z3.IntSort()] * x.rank), z3.IntSort())
    wit = [z3.Function('%s.w%d' % (nm, d), z3.IntSort(), z3.IntSort()) for d in range(x.rank)]
    s = x.snapshot()
    if x.kind == 'bool':
        raise Unsupported("torch.unique of a bool tensor")
    ctx.assume(nu >= 0)
    idx = [z3.Int('%s_i%d' % (nm, d)) for d in range(x.rank)]
    k, j = z3.Ints('%s_k %s_j' % (nm, nm))
    inbox = z3.And(*[z3.And(0 <= i, i < O.to_z3(d)) for i, d in zip(idx, x.shape)]) if idx else z3.BoolVal(True)
    if idx:
        ctx.assume(z3.ForAll(idx, z3.Implies(inbox, z3.And(0 <= pos(*idx), pos(*idx) < nu, U(pos(*idx)) == O.to_z3(s(*idx)))),
                             patterns=[pos(*idx)]))
        witk = [w(k) for w in wit]
        ctx.assume(z3.ForAll([k], z3.Implies(z3.And(0 <= k, k < nu),
                                             z3.And(*[z3.And(0 <= wk, wk < O.to_z3(d)) for wk, d in zip(witk, x.shape)],
                                                    O.to_z3(s(*witk)) == U(k))), patterns=[U(k)]))
    else:
        ctx.assume(z3.And(nu == 1, U(0) == O.to_z3(s())))
    ctx.assume(z3.ForAll([j, k], z3.Implies(z3.And(0 <= j, j < k, k < nu), U(j) < U(k)), patterns=[z3.MultiPattern(U(j), U(k))]))
    # ground instances of the first axiom that the usual client needs (one-hot-structured argument: the cell that
    # holds the 1 of the first column, and another cell of that column) - instances of an assumed universal fact,
    # named so that the solver does not have to find them by model-based instantiation
    try:
        from .spec import onehot_witness
        wfn = onehot_witness(x, 1) if x.rank >= 2 else None
    except Exception:
        wfn = None
    if wfn is not None:
        w0 = wfn(*([0] * (x.rank - 1)))
        for cidx in (w0, ite(O.eq(w0, 0), 1, 0)):
            i0 = [0, cidx] + [0] * (x.rank - 2)
            iz = [O.to_z3(v) if O.is_sym(v) else z3.IntVal(int(v)) for v in i0]
            inb = And(*[And(0 <= a_, a_ < d) for a_, d in zip(i0, x.shape)])
            ctx.assume(Implies(inb, And(0 <= pos(*iz), pos(*iz) < nu, O.eq(U(pos(*iz)), s(*i0)))))
    ctx.trusted.add('axiom: torch.unique returns the strictly increasing vector of the values that occur in its argument')
    out = Tn.fresh([nu], lambda i: U(O.to_z3(i)), x.kind, lib=x.lib)
    out.unique_of = {'pos': pos, 'U': U, 'n': nu, 'src': x}
    return out


@lib('torch.nn.functional.max_pool1d')
def _max_pool1d(fr, x, kernel_size, stride=None, padding=0, dilation=1, ceil_mode=False, return_indices=False):
    """assumed contract of max pooling over the last dimension: the number of windows is a function POOLLEN of
    (length, kernel_size, stride, padding, dilation, ceil_mode); with return_indices the index of a maximal
    element of every window (a position of the input row)"""
    ctx = fr.ctx
    x = as_tn(fr, x)
    if x.rank != 3:
        raise Unsupported("max_pool1d on a tensor of rank %d" % x.rank)
    sc = lambda v: unwrap_scalar(v) if isinstance(v, Tn) else v
    ks, st, pad, dil = sc(kernel_size), sc(stride if stride is not None else kernel_size), sc(padding), sc(dilation)
    cm = ceil_mode if isinstance(ceil_mode, bool) or O.is_sym(ceil_mode) else bool(ceil_mode)
    L = x.shape[2]
    Lo = POOLLEN(*[O.to_z3(v) for v in (L, ks, st, pad, dil)], O.to_z3(cm) if O.is_sym(cm) else z3.BoolVal(bool(cm)))
    ctx.assume(Lo >= 0)
    nm = O.fresh_name('pool')
    vf = z3.Function(nm + '.val', z3.IntSort(), z3.IntSort(), z3.IntSort(), z3.RealSort())
    af = z3.Function(nm + '.arg', z3.IntSort(), z3.IntSort(), z3.IntSort(), z3.IntSort())
    shape = [x.shape[0], x.shape[1], Lo]
    s = x.snapshot()
    r_, c_, o_ = z3.Ints('%s_r %s_c %s_o' % (nm, nm, nm))
    ctx.assume(z3.ForAll([r_, c_, o_], z3.And(af(r_, c_, o_) >= 0, af(r_, c_, o_) < O.to_z3(L)), patterns=[af(r_, c_, o_)]))
    ctx.trusted.add('assumed: max_pool1d has POOLLEN(length, kernel, stride, padding, dilation, ceil_mode) windows; its indices are positions of the input row')
    out = Tn.fresh(shape, lambda r, c, o: vf(*[O.to_z3(v) for v in (r, c, o)]), 'real', lib=x.lib)
    ctx.ghost['last_pool'] = {'input': x, 'n_windows': Lo, 'indices': (lambda r, c, o: af(*[O.to_z3(v) for v in (r, c, o)]))}
    if return_indices is True or (not isinstance(return_indices, bool) and O.simp(return_indices) is True):
        return (out, Tn.fresh(shape, lambda r, c, o: af(*[O.to_z3(v) for v in (r, c, o)]), 'int', lib=x.lib))
    return out


@lib('torch.max')
def _torch_max(fr, x, *a, **kw):
    if len(a) == 1 and isinstance(a[0], Tn) and not kw:
        return LIB['torch.maximum'](fr, x, a[0])
    return METHODS['Tn.max'](fr, as_tn(fr, x), *a, **kw)


def _argminmax(which):
    def f(fr, x, dim=None, axis=None, **kw):
        """argmin / argmax of a vector: an assumed relation - an index of an extremal element, the first one"""
        ctx = fr.ctx
        if axis is not None:
            dim = axis
        if x.rank > 1 and dim is not None:
            # arg-extremum along one dimension of a tensor: per slice, the first index of an extremal element
            # (assumed relation, as for vectors; torch and numpy both return the first one)
            d = norm_dim(dim, x.rank)
            rest = [q for q in range(x.rank) if q != d]
            s = x.snapshot()
            n = x.shape[d]
            ctx.may_raise(n <= 0, 'RuntimeError' if x.lib == 'torch' else 'ValueError')
            nm = O.fresh_name('arg' + which)
            fa = z3.Function(nm, *([z3.IntSort()] * len(rest)), z3.IntSort())
            better = (lambda u, v: u < v) if which == 'min' else (lambda u, v: u > v)
            rshape = [x.shape[q] for q in rest]

            def full(ri, k):
                idx = list(ri)
                idx.insert(d, k)
                return s(*idx)

            def A(*ri):
                return fa(*[O.to_z3(v) for v in ri])
            ctx.assume(O.forall_hyp(rshape, lambda *ri: And(0 <= A(*ri), A(*ri) < n)))
            ctx.assume(O.forall_hyp(rshape + [n], lambda *a_: And(Not(better(full(a_[:-1], a_[-1]), full(a_[:-1], A(*a_[:-1])))),
                                                                   Implies(a_[-1] < A(*a_[:-1]), better(full(a_[:-1], A(*a_[:-1])), full(a_[:-1], a_[-1]))))))
            ctx.trusted.add('axiom: arg%s along a dimension returns, per slice, the first index of an extremal element' % which)
            return Tn.fresh(rshape, lambda *ri: A(*ri), 'int', lib=x.lib)
        if x.rank != 1 or (dim is not None and norm_dim(dim, 1) != 0):
            raise Unsupported("arg%s of a tensor of rank %d" % (which, x.rank))
        s = x.snapshot()
        n = x.shape[0]
        ctx.may_raise(n <= 0, 'RuntimeError' if x.lib == 'torch' else 'ValueError')
        a = O.fresh_int('arg' + which)
        better = (lambda u, v: u < v) if which == 'min' else (lambda u, v: u > v)
        ctx.assume(And(0 <= a, a < n))
        ctx.assume(O.forall_hyp([n], lambda i: Not(better(s(i), s(a)))))
        ctx.assume(O.forall_hyp([n], lambda i: Implies(i < a, better(s(a), s(i)))))
        ctx.trusted.add('axiom: arg%s returns the first index of an extremal element' % which)
        return a
    return f


method('Tn.argmin')(_argminmax('min'))
method('Tn.argmax')(_argminmax('max'))
lib('torch.argmin', 'numpy.argmin')(lambda fr, x, *a, **k: _argminmax('min')(fr, as_tn(fr, x), *a, **k))
lib('torch.argmax', 'numpy.argmax')(lambda fr, x, *a, **k: _argminmax('max')(fr, as_tn(fr, x), *a, **k))


@lib('numpy.argsort', 'torch.argsort')
def _argsort(fr, x, *a, **kw):
    """argsort of a vector (ascending): an assumed relation - a permutation P of [0, N) with inverse R along
    which the values are non-decreasing"""
    x = as_tn(fr, x)
    if x.rank != 1 or a or any(k not in ('axis', 'dim', 'kind', 'stable') for k in kw) or kw.get('descending'):
        raise Unsupported("argsort beyond the ascending sort of a vector")
    ctx = fr.ctx
    N = x.shape[0]
    s = x.snapshot()
    nm = O.fresh_name('argsort')
    P = z3.Function(nm + '.P', z3.IntSort(), z3.IntSort())
    R = z3.Function(nm + '.R', z3.IntSort(), z3.IntSort())
    k, t, a_, b_ = z3.Ints('%s_k %s_t %s_a %s_b' % (nm, nm, nm, nm))
    Nz = O.to_z3(N)
    ctx.assume(z3.ForAll([k], z3.Implies(z3.And(0 <= k, k < Nz), z3.And(0 <= P(k), P(k) < Nz, R(P(k)) == k)), patterns=[P(k)]))
    ctx.assume(z3.ForAll([t], z3.Implies(z3.And(0 <= t, t < Nz), z3.And(0 <= R(t), R(t) < Nz, P(R(t)) == t)), patterns=[R(t)]))
    ctx.assume(z3.ForAll([a_, b_], z3.Implies(z3.And(0 <= a_, a_ <= b_, b_ < Nz), O.to_z3(s(P(a_)) <= s(P(b_)))), patterns=[z3.MultiPattern(P(a_), P(b_))]))
    ctx.trusted.add('axiom: argsort returns a permutation (with inverse) along which the values are non-decreasing')
    ctx.ghost['last_argsort'] = {'P': P, 'R': R, 'N': N}
    return Tn.fresh([N], lambda i: P(O.to_z3(i)), 'int', lib=x.lib)


def _minmax_method(which):
    def f(fr, x, dim=None, axis=None, keepdim=False, keepdims=False, **kw):
        """max / min: an assumed relation - the result bounds every element and is attained"""
        ctx = fr.ctx
        if axis is not None:
            dim = axis
        s = x.snapshot()
        nm = O.fresh_name(which)
        le = (lambda a, b: a <= b) if which == 'max' else (lambda a, b: a >= b)
        sort = z3.RealSort() if x.kind == 'real' else z3.IntSort()
        if dim is None:
            v = z3.Const(nm, sort)
            ctx.may_raise(O.eq(x.numel(), 0) if O.any_sym(*x.shape) else (x.numel() == 0), 'RuntimeError')
            ctx.assume(O.forall_hyp(x.shape, lambda *i: le(s(*i), v)))
            ctx.assume(O.exists_box(x.shape, lambda *i: O.eq(s(*i), v)))
            ctx.trusted.add('axiom: tensor.%s bounds every element and is attained' % which)
            return v
        d = norm_dim(dim, x.rank)
        rest = [q for q in range(x.rank) if q != d]
        f_ = z3.Function(nm, *([z3.IntSort()] * len(rest)), sort) if rest else None
        cst = z3.Const(nm, sort) if not rest else None

        def val(*ri):
            return f_(*[O.to_z3(i) for i in ri]) if rest else cst
        fa = z3.Function(nm + '.arg', *([z3.IntSort()] * len(rest)), z3.IntSort()) if rest else None
        ca = z3.Const(nm + '.arg', z3.IntSort()) if not rest else None

        def arg(*ri):
            return fa(*[O.to_z3(i) for i in ri]) if rest else ca
        ctx.may_raise(x.shape[d] <= 0, 'RuntimeError' if x.lib == 'torch' else 'ValueError')
        ctx.assume(O.forall_hyp(x.shape, lambda *i: le(s(*i), val(*[i[q] for q in rest]))))
        rshape = [x.shape[q] for q in rest]

        def attained(*ri):
            idx = list(ri)
            idx.insert(d, arg(*ri))
            return And(0 <= arg(*ri), arg(*ri) < x.shape[d], O.eq(s(*idx), val(*ri)))
        ctx.assume(O.forall_hyp(rshape, attained))
        ctx.trusted.add('axiom: tensor.%s(dim) bounds every element of its slice and is attained' % which)
        keep = keepdim or keepdims
        if keep:
            shp = [1 if q == d else x.shape[q] for q in range(x.rank)]
            vals = Tn.fresh(shp, lambda *i: val(*[i[q] for q in rest]), x.kind, lib=x.lib)
            idxs = Tn.fresh(shp, lambda *i: arg(*[i[q] for q in rest]), 'int', lib=x.lib)
        else:
            vals = Tn.fresh(rshape, lambda *i: val(*i), x.kind, lib=x.lib)
            idxs = Tn.fresh(rshape, lambda *i: arg(*i), 'int', lib=x.lib)
        if x.lib == 'np':
            return vals
        return MinMax(vals, idxs)
    return f


METHODS['Tn.max'] = _minmax_method('max')
METHODS['Tn.min'] = _minmax_method('min')


@method('Tn.scatter_add_')
def _m_scatter_add_(fr, y, dim, index, src):
    """y[k] += sum_r [index[r] == k] * src[r]   (rank 1; the axiom of C18)"""
    ctx = fr.ctx
    if y.rank == index.rank == src.rank and y.rank > 1 and norm_dim(O.conc_int(dim), y.rank) == y.rank - 1:
        # along the last dimension, row by row: y[b, k] += sum_{r < R} [index[b, r] == k] * src[b, r]; index may
        # be shorter than src along that dimension (torch then ignores the rest of src) but not longer
        for q in range(y.rank - 1):
            if not known_eq(ctx, y.shape[q], index.shape[q]) or not known_eq(ctx, y.shape[q], src.shape[q]):
                raise Unsupported("scatter_add_ with unequal leading dimensions")
        R = index.shape[-1]
        ctx.may_raise(src.shape[-1] < R if O.any_sym(src.shape[-1], R) else (src.shape[-1] < R), 'RuntimeError')
        isn, ssn, old = index.snapshot(), src.snapshot(), y.snapshot()
        n = y.shape[-1]
        kind = 'real' if y.kind == 'real' or src.kind == 'real' else 'int'
        new = Tn.fresh(list(y.shape), lambda *b: old(*b) + Sum(0, R, lambda r: ite(O.eq(isn(*b[:-1], r), b[-1]), ssn(*b[:-1], r), 0), kind), y.kind, lib=y.lib)
        y.write([('all',)] * y.rank, new, ctx)
        return y
    if y.rank != 1 or index.rank != 1 or src.rank != 1 or O.conc_int(dim) != 0:
        raise Unsupported("scatter_add_ beyond rank 1")
    R = index.shape[0]
    ctx.may_raise(src.shape[0] < R if O.any_sym(src.shape[0], R) else (src.shape[0] < R), 'RuntimeError')
    isn, ssn = index.snapshot(), src.snapshot()
    n = y.shape[0]
    bad = O.exists_box([R], lambda r: Or(isn(r) < 0, isn(r) >= n))
    ctx.may_raise(bad, 'RuntimeError')
    old = y.snapshot()
    kind = 'real' if y.kind == 'real' or src.kind == 'real' else 'int'
    new = Tn.fresh([n], lambda k: old(k) + Sum(0, R, lambda r: ite(O.eq(isn(r), k), ssn(r), 0), kind), y.kind, lib=y.lib)
    y.write([('all',)], new, ctx)
    return y


@method('Tn.all')
def _m_all(fr, x, *a, **kw):
    if a or kw:
        raise Unsupported("all with dims")
    s = x.snapshot()
    idx = [z3.Int(O.fresh_name('al')) for _ in x.shape]
    if not O.any_sym(*x.shape):
        return And(*[s(*i) if x.kind == 'bool' else (s(*i) != 0) for i in itertools.product(*[range(int(d)) for d in x.shape])])
    body = Implies(And(*[in_range_(i, d) for i, d in zip(idx, x.shape)]), s(*idx) if x.kind == 'bool' else s(*idx) != 0)
    return z3.ForAll(idx, O.to_z3(body))


@method('Tn.any')
def _m_any(fr, x, *a, **kw):
    if a or kw:
        raise Unsupported("any with dims")
    s = x.snapshot()
    idx = [z3.Int(O.fresh_name('an')) for _ in x.shape]
    if not O.any_sym(*x.shape):
        return Or(*[s(*i) if x.kind == 'bool' else (s(*i) != 0) for i in itertools.product(*[range(int(d)) for d in x.shape])])
    body = And(And(*[in_range_(i, d) for i, d in zip(idx, x.shape)]), s(*idx) if x.kind == 'bool' else s(*idx) != 0)
    return z3.Exists(idx, O.to_z3(body))


@lib('torch.any')
def _any(fr, x, *a, **kw):
    return _m_any(fr, x, *a, **kw)


@lib('torch.abs', 'numpy.abs', 'builtins.abs')
def _abs(fr, x):
    if isinstance(x, Tn):
        s = x.snapshot()
        return Tn.fresh(x.shape, lambda *i: O.vabs(s(*i)), x.kind, lib=x.lib)
    return O.vabs(unwrap_scalar(x))


@lib('torch.cumsum', 'numpy.cumsum')
def _cumsum(fr, x, dim=None, axis=None, **kw):
    if axis is not None:
        dim = axis
    if dim is None:
        raise Unsupported("cumsum without dim")
    d = norm_dim(dim, x.rank)
    s = x.snapshot()
    kind = 'real' if x.kind == 'real' else 'int'

    def content(*idx):
        return Sum(0, idx[d] + 1, lambda k: s(*(list(idx[:d]) + [k] + list(idx[d + 1:]))), kind)
    return Tn.fresh(list(x.shape), content, kind, lib=x.lib)


@method('Tn.cumsum')
def _m_cumsum(fr, x, *a, **kw):
    return _cumsum(fr, x, *a, **kw)


@lib('torch.sub')
def _sub(fr, a, b):
    return _binop(fr, 'Sub', a, b)


@lib('torch.where', 'numpy.where')
def _where(fr, c, a=None, b=None):
    if a is None:
        # numpy.where(cond) on a vector: the ascending indices of the true entries (assumed relation: how many
        # there are and which is the first)
        cs = as_tn(fr, c)
        if cs.rank != 1:
            raise Unsupported("where with one argument on a tensor of rank %d" % cs.rank)
        N = cs.shape[0]
        csn = cs.snapshot()
        n = O.fresh_int('n_true')
        first = O.fresh_int('first_true')
        ctx = fr.ctx
        ctx.assume(And(0 <= n, n <= N))
        ctx.assume(O.Iff(n > 0, O.exists_box([N], lambda j: csn(j))))
        ctx.assume(Implies(n > 0, And(0 <= first, first < N, csn(first))))
        ctx.assume(O.forall_hyp([N], lambda j: Implies(And(n > 0, j < first), Not(csn(j)))))
        ctx.trusted.add('axiom: numpy.where(cond)[0] lists the indices of the true entries in ascending order')
        return (Opaque('nonzero', 'index_list', {'n': n, 'first': first, 'types': ['numpy.ndarray']}),)
    t = elementwise(fr, lambda x, y: (x, y), a, b)
    cs = as_tn(fr, c)
    s = t.snapshot()
    shape, (pa, ma), (pb, mb) = broadcast_shapes(fr.ctx, cs.shape, t.shape)
    csn = cs.snapshot()

    def content(*idx):
        x, y = s(*bidx(idx, pb, mb))
        return ite(csn(*bidx(idx, pa, ma)), x, y)
    return Tn.fresh(shape, content, result_kind(a, b), lib=t.lib)


@lib('len:index_list')
def _len_index_list(fr, x):
    return x.attrs['n']


@lib('getitem:index_list')
def _getitem_index_list(fr, x, key):
    k = O.simp(unwrap_scalar(key) if not isinstance(key, (int, slice)) else key)
    if isinstance(k, int) and k == 0:
        fr.ctx.may_raise(x.attrs['n'] <= 0, 'IndexError')
        return x.attrs['first']
    raise Unsupported("only the first element of numpy.where(cond)[0] is modelled")


# ------------------------------------------------------------------ builtins
@lib('builtins.len')
def _len(fr, x):
    if isinstance(x, (list, tuple, dict, str)):
        return len(x)
    if isinstance(x, Tn):
        if x.rank == 0:
            raise SymRaise('TypeError')
        return x.shape[0]
    if isinstance(x, SStr):
        return x.length
    if isinstance(x, (CatList, StackList)):
        return x.count
    if isinstance(x, Opaque):
        h = LIB.get('len:' + x.cls)
        if h is not None:
            return h(fr, x)
    raise Unsupported("len of %r" % (type(x),))


@lib('builtins.range', 'tqdm.trange', 'trange', 'tqdm.std.trange')
def _range(fr, *a, **kw):
    a = [unwrap_scalar(x) for x in a]
    if len(a) == 1:
        lo, hi, st = 0, a[0], 1
    elif len(a) == 2:
        lo, hi, st = a[0], a[1], 1
    else:
        lo, hi, st = a
    sts = O.simp(st)
    if isinstance(sts, int):
        if sts == 0:
            raise SymRaise('ValueError')
        if not O.any_sym(lo, hi):
            return list(range(lo, hi, sts))
        if sts == 1:
            n = hi - lo
            return Iter(O.simp(ite(n < 0, 0, n)), lambda i: lo + i)
        if sts == -1:
            n = lo - hi
            return Iter(O.simp(ite(n < 0, 0, n)), lambda i: lo - i)
        if sts > 1:
            n = O.floordiv(hi - lo + sts - 1, sts)
            return Iter(O.simp(ite(hi - lo <= 0, 0, n)), lambda i: lo + sts * i,
                        has=lambda i: lo + sts * i < hi,
                        done=lambda i: And(lo + sts * i >= hi, Or(O.eq(i, 0), lo + sts * (i - 1) < hi)))
        raise Unsupported("range with negative constant step")
    fr.ctx.may_raise(O.eq(st, 0), 'ValueError')
    if not fr.ctx.entails(st > 0):
        raise Unsupported("range with possibly negative symbolic step")
    # symbolic positive step: trip count characterised without division (DESIGN 2.2.4)
    cnt = O.fresh_int('trip')
    return Iter(cnt, lambda i: lo + O.mul(st, i),
                has=lambda i: lo + O.mul(st, i) < hi,
                done=lambda i: And(lo + O.mul(st, i) >= hi, Or(O.eq(i, 0), lo + O.mul(st, i - 1) < hi)))


@lib('numba.prange', 'numba.misc.special.prange', 'prange')
def _prange(fr, *a, **kw):
    r = _range(fr, *a)
    if isinstance(r, list):
        items = r
        r = Iter(len(items), lambda i: items[O.conc_int(i)])
        r.force_iter = True
    r.prange = True
    return r


@lib('numba.get_thread_id')
def _get_thread_id(fr):
    if fr.ctx.prange and fr.ctx.prange[-1].get('tid') is not None:
        return fr.ctx.prange[-1]['tid']
    return 0


@lib('numba.get_num_threads')
def _get_num_threads(fr):
    return fr.ctx.ghost.setdefault('numba_threads', O.fresh_int('nthreads'))


@lib('tqdm.tqdm', 'tqdm', 'tqdm.std.tqdm')
def _tqdm(fr, it=None, *a, **kw):
    return it


@lib('builtins.enumerate')
def _enumerate(fr, it, start=0):
    seq = fr.as_sequence(it)
    if isinstance(seq, list):
        return [(start + i, x) for i, x in enumerate(seq)]
    return Iter(seq.count, lambda i: (start + i, seq.item(i)), seq.ghost, has=seq.has, done=seq.done)


@lib('itertools.product')
def _product(fr, *its):
    """lexicographic nest.  With symbolic factors the flat counter is related to the ghost
    counters in division-free polynomial form: it == (g0*n1 + g1)*n2 + g2 (DESIGN 2.2.4)."""
    seqs = [fr.as_sequence(x) for x in its]
    if all(isinstance(s_, list) for s_ in seqs):
        return [tuple(x) for x in itertools.product(*seqs)]
    its2 = []
    for s_ in seqs:
        if isinstance(s_, list):
            items = list(s_)
            if not all(is_scalar(x) for x in items):
                raise Unsupported("product over a concrete list of non-scalars mixed with symbolic factors")

            def item(i, items=items):
                out = items[-1]
                for q in range(len(items) - 2, -1, -1):
                    out = ite(O.eq(i, q), items[q], out)
                return out
            its2.append(Iter(len(items), item))
        else:
            if s_.ghost is not None or s_.has is not None:
                raise Unsupported("product over a ghosted iterator")
            its2.append(s_)
    counts = [x.count for x in its2]
    total = prod(counts)
    store = {}

    def ghosts(it):
        key = str(it)
        if key not in store:
            store[key] = [O.fresh_int('g%d' % q) for q in range(len(its2))]
        return store[key]

    def ghost(it):
        gs = ghosts(it)
        flat = gs[0]
        for q in range(1, len(gs)):
            flat = O.mul(flat, counts[q]) + gs[q]
        facts = [And(*[And(0 <= g, g < c) for g, c in zip(gs, counts)]), O.eq(it, flat)]
        # instances of the lemma schema divmod_unique (lean/Lemmas.lean): e*n + j with 0 <= j < n
        # has quotient e and remainder j.  Stated here so the solver need not rediscover them.
        rest = it
        for q in range(len(gs) - 1, 0, -1):
            facts.append(O.eq(O.mod(rest, counts[q]), gs[q]))
            rest = O.floordiv(rest, counts[q])
            pref = gs[0]
            for q2 in range(1, q):
                pref = O.mul(pref, counts[q2]) + gs[q2]
            facts.append(O.eq(rest, pref))
        fr.ctx.trusted.add('lemma:divmod_unique (lean/Lemmas.lean)')
        return facts

    def item(it):
        gs = ghosts(it)
        return tuple(x.item(g) for x, g in zip(its2, gs))
    r = Iter(total, item, ghost=ghost, has=lambda it: True, done=lambda it: O.eq(it, total))
    r.ghosts = ghosts
    return r


@lib('builtins.zip')
def _zip(fr, *its):
    if len(its) == 1 and isinstance(its[0], StarAbstract):
        # zip(*y) for an abstract list of k-tuples: k abstract lists of tensors
        lst = its[0].lst
        if lst.tuple_kind is None:
            raise SymRaise('TypeError')
        return [type(lst)(lst.count, [v]) for v in lst.views]
    if any(isinstance(x, (CatList, StackList, StarAbstract)) for x in its):
        raise Unsupported("zip over abstract list")
    seqs = [fr.as_sequence(x) for x in its]
    if all(isinstance(s, list) for s in seqs):
        return [tuple(x) for x in zip(*seqs)]
    # abstract sequences (rows of tensors with symbolic leading dimensions): zip stops at the shortest
    its2 = []
    for s_ in seqs:
        if isinstance(s_, list):
            items = list(s_)
            its2.append(Iter(len(items), (lambda i, items=items: items[O.conc_int(i)])))
        elif s_.ghost is not None or s_.has is not None:
            raise Unsupported("zip over a ghosted iterator")
        else:
            its2.append(s_)
    if any(isinstance(x.count, int) for x in its2) and not all(isinstance(x.count, int) for x in its2):
        raise Unsupported("zip over concrete and abstract sequences")
    n = its2[0].count
    for x in its2[1:]:
        n = O.vmin(n, x.count)
    return Iter(O.simp(n), lambda i: tuple(x.item(i) for x in its2))


@lib('builtins.tuple')
def _tuple(fr, x=None):
    r = _list(fr, x)
    return tuple(r) if isinstance(r, list) else r


@lib('builtins.list')
def _list(fr, x=None):
    if x is None:
        return []
    if isinstance(x, (CatList, StackList)):
        return x
    if isinstance(x, ZipStar):
        return x
    if isinstance(x, Tn) and x.rank >= 1 and not O.is_conc(x.shape[0]):
        snap = x.snapshot()
        return StackList(x.shape[0], [Tn.fresh(list(x.shape), snap, x.kind, lib=x.lib, dtype=x.dtype)])
    seq = fr.as_sequence(x)
    if isinstance(seq, list):
        return seq
    raise Unsupported("list() of abstract sequence")


class ZipStar:
    """zip(*y) of an abstract list of k-tuples = k abstract lists"""

    def __init__(self, lists):
        self.lists = lists


@lib('builtins.min', 'builtins.max')
def _minmax(fr, *a, _which=None, **kw):
    raise Unsupported("direct")


def make_minmax(which):
    f2 = O.vmin if which == 'min' else O.vmax

    def f(fr, *a, **kw):
        if len(a) == 1:
            xs = a[0]
            if isinstance(xs, Tn):
                return METHODS['Tn.' + which](fr, xs)
            xs = fr.as_sequence(xs)
            if not isinstance(xs, list):
                raise Unsupported("min/max of abstract sequence")
        else:
            xs = list(a)
        if len(xs) == 0:
            raise SymRaise('ValueError')
        xs = [unwrap_scalar(x) for x in xs]
        out = xs[0]
        for x in xs[1:]:
            out = f2(out, x)
        return out
    return f


LIB['builtins.min'] = make_minmax('min')
LIB['builtins.max'] = make_minmax('max')


@lib('builtins.sum')
def _bsum(fr, xs, start=0):
    seq = fr.as_sequence(xs)
    if not isinstance(seq, list):
        raise Unsupported("sum of abstract sequence")
    out = start
    for x in seq:
        if isinstance(x, Tn) or isinstance(out, Tn):
            out = _binop(fr, 'Add', out, x)
        else:
            x = unwrap_scalar(x)
            if is_boolish(x):
                x = ite(x, 1, 0)
            out = out + x
    return out


@lib('builtins.int')
def _int(fr, x=0):
    x = unwrap_scalar(x)
    if isinstance(x, (int, bool)):
        return int(x)
    if isinstance(x, float):
        return int(x)
    if O.is_sym(x):
        if z3.is_int(x):
            return x
        if z3.is_bool(x):
            return ite(x, 1, 0)
        # truncation toward zero
        return ite(x >= 0, z3.ToInt(x), -z3.ToInt(-x))
    raise Unsupported("int() of %r" % (type(x),))


@lib('builtins.float')
def _float(fr, x=0.0):
    x = unwrap_scalar(x)
    if isinstance(x, str):
        if x in ('inf', '-inf'):
            fr.ctx.trusted.add('infinities modelled as +-PINF, one unspecified real > 10^30')
            return O.PINF if x == 'inf' else -O.PINF
        return float(x)
    if isinstance(x, (int, float)):
        return float(x)
    if O.is_sym(x):
        return z3.ToReal(x) if z3.is_int(x) else x
    raise Unsupported("float()")


@lib('builtins.bool')
def _bool(fr, x=False):
    return fr.truth(x)


@lib('builtins.str')
def _str(fr, x=''):
    return "<str>"


@lib('builtins.print', 'warnings.warn')
def _print(fr, *a, **kw):
    fr.ctx.events.append(('print' if not a or True else 'warn',))
    return None


@lib('builtins.isinstance')
def _isinstance(fr, v, t):
    if isinstance(v, Opaque) and 'isinstance_of_supported_ops' in v.attrs:
        # whether a module is one of the (user-extensible) set of supported layer types: an unknown
        return v.attrs['isinstance_of_supported_ops']
    ts = t if isinstance(t, tuple) else (t,)
    names = []
    for x in ts:
        if isinstance(x, (LibFn, PyType, ModuleRef)):
            names.append(x.name)
        else:
            raise Unsupported("isinstance with %r" % (x,))
    vt = value_types(v)
    return any(n in vt for n in names)


def value_types(v):
    if isinstance(v, ListItemProbe):
        if v.lst.tuple_kind is None:
            return {'torch.Tensor'}
        return {'builtins.' + v.lst.tuple_kind}
    if isinstance(v, Tn):
        return {'torch.Tensor'} if v.lib == 'torch' else {'numpy.ndarray'}
    if isinstance(v, (str, SStr)):
        return {'builtins.str'}
    if isinstance(v, bool):
        return {'builtins.bool', 'builtins.int'}
    if isinstance(v, int) or (O.is_sym(v) and z3.is_int(v)):
        return {'builtins.int'}
    if isinstance(v, float) or (O.is_sym(v) and z3.is_real(v)):
        return {'builtins.float'}
    if O.is_sym(v) and z3.is_bool(v):
        return {'builtins.bool', 'builtins.int'}
    if isinstance(v, (list, CatList, StackList)):
        return {'builtins.list'}
    if isinstance(v, tuple):
        return {'builtins.tuple'}
    if isinstance(v, dict):
        return {'builtins.dict'}
    if v is None:
        return {'NoneType'}
    if isinstance(v, Opaque):
        return set(v.attrs.get('types', [v.cls]))
    return set()


@lib('builtins.hasattr')
def _hasattr(fr, obj, name):
    if isinstance(obj, Opaque):
        h = LIB.get('hasattr:' + obj.cls)
        if h is not None:
            return h(fr, obj, name)
        return name in obj.attrs
    raise Unsupported("hasattr")


@lib('builtins.next')
def _next(fr, it, *default):
    if isinstance(it, Opaque):
        h = LIB.get('next:' + it.cls)
        if h is not None:
            return h(fr, it, *default)
    raise Unsupported("next()")


@lib('builtins.reversed')
def _reversed(fr, x):
    seq = fr.as_sequence(x)
    if isinstance(seq, list):
        return list(reversed(seq))
    raise Unsupported("reversed of abstract sequence")


@lib('builtins.all', 'builtins.any')
def _ball(fr, xs):
    raise Unsupported("direct")


def make_allany(which):
    def f(fr, xs):
        if isinstance(xs, Tn):
            return METHODS['Tn.' + which](fr, xs)
        seq = fr.as_sequence(xs)
        if not isinstance(seq, list):
            raise Unsupported("all/any of abstract sequence")
        vals = [fr.truth(x) for x in seq]
        return And(*vals) if which == 'all' else Or(*vals)
    return f


LIB['builtins.all'] = make_allany('all')
LIB['builtins.any'] = make_allany('any')


@lib('builtins.type')
def _type(fr, x):
    if isinstance(x, Opaque):
        return PyType(x.attrs.get('type', x.cls))
    raise Unsupported("type()")


@lib('builtins.map')
def _map(fr, f, xs):
    seq = fr.as_sequence(xs)
    if not isinstance(seq, list):
        raise Unsupported("map over abstract sequence")
    return [fr.call(f, [x], {}) for x in seq]


@lib('builtins.set')
def _set(fr, xs=()):
    seq = fr.as_sequence(xs)
    if isinstance(seq, list) and all(not O.is_sym(x) for x in seq):
        return list(dict.fromkeys(seq))
    raise Unsupported("set of symbolic values")


ROUND = z3.Function('ROUND', z3.RealSort(), z3.IntSort())


@lib('numpy.round', 'numpy.around', 'torch.round')
def _round(fr, x, *a, **kw):
    """round half to even: an integer within 1/2 of its argument (defining inequalities only)"""
    def r1(v):
        if not O.is_sym(v):
            return float(round(v))
        vz = O.to_z3(v)
        if z3.is_int(vz):
            return vz
        return z3.ToReal(ROUND(vz))
    if isinstance(x, Tn):
        s_ = x.snapshot()
        shp = list(x.shape)
        q = z3.Real('rq')
        fr.ctx.assume(z3.ForAll([q], z3.And(z3.ToReal(ROUND(q)) - q <= 0.5, q - z3.ToReal(ROUND(q)) <= 0.5), patterns=[ROUND(q)]))
        t = Tn.fresh(shp, lambda *i: r1(s_(*i)), 'real', lib=x.lib)
        t.rounded = True
        return t
    return r1(unwrap_scalar(x))


LOG2 = z3.Function('LOG2', z3.RealSort(), z3.RealSort())


@lib('math.log2')
def _log2(fr, x):
    x = unwrap_scalar(x)
    if not O.is_sym(x):
        import math
        return math.log2(x)
    xz = O.to_z3(x)
    return LOG2(z3.ToReal(xz) if z3.is_int(xz) else xz)


@lib('numpy.floor', 'numpy.ceil', 'math.floor', 'math.ceil')
def _floor_ceil(fr, x, _which=None, **kw):
    raise Unsupported("direct")


def _make_floor_ceil(which):
    def f(fr, x, **kw):
        """floor / ceil of a scalar: the integer with floor(x) <= x < floor(x) + 1 (z3 to_int); numpy returns it as a
        float, math as an int - both are the same real number here"""
        if isinstance(x, Tn) and x.rank > 0:
            raise Unsupported("%s of a tensor" % which)
        v = unwrap_scalar(x)
        if not O.is_sym(v):
            import math
            return (math.floor if which == 'floor' else math.ceil)(v)
        vz = O.to_z3(v)
        if z3.is_int(vz):
            return vz
        return z3.ToInt(vz) if which == 'floor' else -z3.ToInt(-vz)
    return f


for _w in ('floor', 'ceil'):
    LIB['numpy.' + _w] = _make_floor_ceil(_w)
    LIB['math.' + _w] = _make_floor_ceil(_w)


@lib('numpy.log2', 'math.log', 'math.pow', 'math.sqrt')
def _math_opaque(fr, *a, **kw):
    raise Unsupported("transcendental / rounding function without contract")


@lib('numpy.random.randint', 'numpy.random.seed', 'numpy.random.permutation')
def _global_rng(fr, *a, **kw):
    """the process-global numpy generator: a nondeterministic source (ghost event)"""
    fr.ctx.events.append(('unseeded_random_source', 'numpy.random global state'))
    return O.fresh_int('global_rng')


@lib('numpy.minimum', 'torch.minimum')
def _np_minimum(fr, a, b):
    return elementwise(fr, O.vmin, a, b)


@lib('numpy.maximum', 'torch.maximum')
def _np_maximum(fr, a, b):
    return elementwise(fr, O.vmax, a, b)


@lib('numpy.nan_to_num')
def _nan_to_num(fr, x, *a, **kw):
    # NaN / inf do not exist in the real-number model: identity (assumption listed in the evidence)
    return x


@lib('getitem:tensordict')
def _tensordict_get(fr, d, key):
    """a dict chrom -> array given by its one entry of interest: d[chrom]"""
    if key is d.attrs['key'] or key == d.attrs['key']:
        return d.attrs['value']
    raise SymRaise('KeyError')


@lib('time.time')
def _time(fr):
    return O.fresh_real('time')


# ------------------------------------------------------------------ context managers
@lib('with_enter')
def _with_enter(fr, m):
    if isinstance(m, Opaque) and m.cls == 'grad_mode':
        m.attrs['saved'] = fr.ctx.ghost['grad_enabled']
        fr.ctx.ghost['grad_enabled'] = m.attrs['value']
        return None
    if isinstance(m, Opaque):
        h = LIB.get('enter:' + m.cls)
        if h is not None:
            return h(fr, m)
    raise Unsupported("with %r" % (m,))


@lib('with_exit')
def _with_exit(fr, m):
    if isinstance(m, Opaque) and m.cls == 'grad_mode':
        fr.ctx.ghost['grad_enabled'] = m.attrs['saved']
        return None
    if isinstance(m, Opaque):
        h = LIB.get('exit:' + m.cls)
        if h is not None:
            return h(fr, m)
    raise Unsupported("with-exit %r" % (m,))


@lib('torch.no_grad')
def _no_grad(fr):
    return Opaque('no_grad', 'grad_mode', {'value': False})


@lib('torch.autograd.set_grad_enabled', 'torch.set_grad_enabled')
def _set_grad(fr, v):
    return Opaque('set_grad_enabled', 'grad_mode', {'value': v})


# ------------------------------------------------------------------ list / dict / str methods
@method('list.append')
def _l_append(fr, lst, x):
    lst.append(x)


@method('list.extend')
def _l_extend(fr, lst, xs):
    lst.extend(fr.as_list(xs))


@method('dict.items')
def _d_items(fr, d):
    return [(k, v) for k, v in d.items()]


@method('dict.keys')
def _d_keys(fr, d):
    return list(d.keys())


@method('dict.values')
def _d_values(fr, d):
    return list(d.values())


@method('scalar.item')
def _scalar_item(fr, x):
    return x


@method('dict.pop')
def _d_pop(fr, d, k, *default):
    k = fr.hashable(k)
    if k in d:
        return d.pop(k)
    if default:
        return default[0]
    raise SymRaise('KeyError')


@method('dict.get')
def _d_get(fr, d, k, default=None):
    return d.get(fr.hashable(k), default)


@method('str.format', 'str.join', 'str.strip', 'str.upper', 'str.replace')
def _s_any(fr, s, *a, **kw):
    return "<str>"


@method('KeyedLists.append')
def _kls_append(fr, P, item):
    if not (isinstance(item, list) and len(item) == 0):
        raise Unsupported("append of a non-empty list to a keyed-list family")
    P.count = P.count + 1


@method('KeyedListRef.append')
def _kl_append(fr, ref, tup):
    P = ref.parent
    if not isinstance(tup, tuple) or len(tup) <= P.nkey:
        raise Unsupported("append of a non-tuple to a keyed list")
    key = [unwrap_scalar(x) for x in tup[:P.nkey]]
    pay = tuple(unwrap_scalar(x) for x in tup[P.nkey:])
    k0 = ref.k
    oldm, oldp = P.member, P.payload

    def member(k, *ks):
        return Or(And(O.eq(k, k0), *[O.eq(a, b) for a, b in zip(ks, key)]), oldm(k, *ks))

    def payload(k, *ks):
        hit = And(O.eq(k, k0), *[O.eq(a, b) for a, b in zip(ks, key)])
        old = oldp(k, *ks)
        return tuple(ite(hit, x, y) for x, y in zip(pay, old))
    if fr.ctx.prange:
        pr = fr.ctx.prange[-1]
        fr.ctx.oblige("prange-frame:iteration-appends-to-own-list@%s" % next(fr.ctx.sitectr), O.eq(k0, pr['var']), 'frame')
    P.member, P.payload = member, payload


@lib('numpy.int64', 'numpy.uint64', 'numpy.int32', 'numpy.int8', 'numpy.int16')
def _np_intcast(fr, x=0):
    x = unwrap_scalar(x)
    if is_realish(x):
        return _int(fr, x)
    return x


@lib('numpy.float64', 'numpy.float32')
def _np_floatcast(fr, x=0.0):
    return _float(fr, x)


EXP2 = z3.Function('EXP2', z3.RealSort(), z3.RealSort())


@lib('pow')
def _pow(fr, base, e):
    b = O.simp(base)
    if isinstance(b, (int, float)) and float(b) == 2.0:
        ez = O.to_z3(e)
        if z3.is_int(ez):
            ez = z3.ToReal(ez)
        return EXP2(ez)
    bz, ez = O.to_z3(base) if O.is_sym(base) else base, O.to_z3(e) if O.is_sym(e) else e
    if (isinstance(bz, int) or (isinstance(bz, z3.ExprRef) and z3.is_int(bz))) and (isinstance(ez, int) or (isinstance(ez, z3.ExprRef) and z3.is_int(ez))):
        # integer power with a non-negative integer exponent: the uninterpreted IPOW (IPOW(b, 0) = 1,
        # IPOW(b, t+1) = b * IPOW(b, t) are its defining equations; contracts that need them name instances)
        # (unspecified for a negative exponent: nothing is known about IPOW there, so nothing can be proved from it)
        return IPOW(bz if isinstance(bz, z3.ExprRef) else z3.IntVal(bz), ez if isinstance(ez, z3.ExprRef) else z3.IntVal(ez))
    raise Unsupported("symbolic power")


IPOW = z3.Function('IPOW', z3.IntSort(), z3.IntSort(), z3.IntSort())


@lib('torch.nn.functional.conv1d')
def _conv1d(fr, x, w, bias=None, stride=1, padding=0, dilation=1, groups=1):
    """conv1d without bias, stride 1, no padding / dilation / groups (cross-correlation, as torch defines it):
    out[n, o, l] = sum_c sum_t x[n, c, l + t] * w[o, c, t], shape (N, O, L - K + 1)"""
    ctx = fr.ctx
    if bias is not None or any(O.simp(v) != d for v, d in ((stride, 1), (padding, 0), (dilation, 1), (groups, 1))):
        raise Unsupported("conv1d with bias / stride / padding / dilation / groups")
    x, w = as_tn(fr, x), as_tn(fr, w)
    if x.rank != 3 or w.rank != 3:
        raise Unsupported("conv1d on tensors of rank %d, %d" % (x.rank, w.rank))
    N, C, Lx = x.shape
    Oc, Cw, K = w.shape
    require_eq(ctx, C, Cw, 'RuntimeError')
    ctx.may_raise(Lx < K, 'RuntimeError')
    sx, sw = x.snapshot(), w.snapshot()
    kind = 'real' if 'real' in (x.kind, w.kind) else 'int'

    def content(n, o, l):
        return Sum(0, C, lambda c: Sum(0, K, lambda t: O.mul(sx(n, c, l + t), sw(o, c, t)) if kind == 'int' else sx(n, c, l + t) * sw(o, c, t), kind), kind)
    return Tn.fresh([N, Oc, Lx - K + 1], content, kind, lib=x.lib)


@method('CatList.append')
def _cl_append(fr, lst, x):
    ctx = fr.ctx
    if lst.tuple_kind is None:
        if not isinstance(x, Tn):
            raise Unsupported("append of non-tensor to cat-list")
        xs = [x]
    else:
        if not isinstance(x, (tuple, list)) or len(x) != len(lst.views):
            raise Unsupported("append arity mismatch on cat-list")
        xs = list(x)
    lst.views = [_cat(fr, [v, t], 0) for v, t in zip(lst.views, xs)]
    lst.count = lst.count + 1


@method('StackList.append')
def _sl_append(fr, lst, x):
    ctx = fr.ctx
    xs = [x] if lst.tuple_kind is None else list(x)
    if len(xs) != len(lst.views):
        raise Unsupported("append arity mismatch on stack-list")
    new = []
    for v, t in zip(lst.views, xs):
        t = as_tn(fr, t)
        if t.rank != v.rank - 1:
            raise Unsupported("stack-list item rank")
        for a, b in zip(v.shape[1:], t.shape):
            require_eq(ctx, a, b)
        new.append(_cat(fr, [v, t.unsqueeze(0)], 0))
    lst.views = new
    lst.count = lst.count + 1


@method('StackList.extend')
def _sl_extend(fr, lst, xs):
    ctx = fr.ctx
    if isinstance(xs, Tn):
        xs = _list(fr, xs)
    if isinstance(xs, list):
        for x in xs:
            _sl_append(fr, lst, x)
        return
    if not isinstance(xs, StackList) or xs.tuple_kind != lst.tuple_kind or len(xs.views) != len(lst.views):
        raise Unsupported("extend of a uniform abstract list with %r" % (type(xs),))
    new = []
    for v, t in zip(lst.views, xs.views):
        if t.rank != v.rank:
            raise Unsupported("stack-list item rank")
        for a, b in zip(v.shape[1:], t.shape[1:]):
            require_eq(ctx, a, b)
        new.append(_cat(fr, [v, t], 0))
    lst.views = new
    lst.count = lst.count + xs.count


@lib('abstract_comprehension')
def _abstract_comprehension(fr, frame, elt, gen, seq):
    """[elt for target in <abstract sequence>] where elt evaluates to a tensor: the result is the
    uniform abstract list whose stack-view at row j is elt evaluated on item j."""
    if seq.ghost is not None or seq.has is not None:
        raise Unsupported("comprehension over a ghosted iterator")
    j = z3.Int(O.fresh_name('cj'))
    ctx = fr.ctx
    if not ctx.branch(seq.count > 0):
        return []
    # j is a fresh name for an arbitrary position of the (non-empty) sequence
    ctx.assume(And(0 <= j, j < seq.count))
    saved = dict(frame.env)

    def fingerprint():
        # observable effects of evaluating the element once: events, stores, generator / ghost state
        # (calls of assumed pure callables only append to the event log: not an effect; an unseeded random
        # source is one - every element would draw afresh)
        fp = [sum(1 for e_ in ctx.events if e_ and e_[0] == 'unseeded_random_source'), getattr(ctx, 'nwrites', 0),
              repr(sorted((k, str(v)) for k, v in ctx.ghost.items() if not isinstance(v, dict) and k != 'last_model_call'))]
        for k_, v_ in saved.items():
            if isinstance(v_, Opaque):
                fp.append((k_, repr(sorted((a_, str(x_)) for a_, x_ in v_.attrs.items() if not callable(x_) and not isinstance(x_, (Tn, Opaque, dict, list))))))
            elif isinstance(v_, list):
                fp.append((k_, len(v_)))
            elif isinstance(v_, (CatList, StackList)):
                fp.append((k_, str(v_.count)))
        return fp
    fp0 = fingerprint()
    try:
        frame.assign(gen.target, seq.item(j))
        v = frame.ev(elt)
        if fingerprint() != fp0:
            # one symbolic evaluation stands for every element only if evaluating it changes nothing else
            raise Unsupported("comprehension element has side effects (random draws, stores, calls of assumed callables)")
    finally:
        for k in list(frame.env.keys()):
            if k not in saved:
                del frame.env[k]
        frame.env.update(saved)
    if not isinstance(v, Tn):
        raise Unsupported("abstract comprehension element is not a tensor")
    snap = v.snapshot()

    def content(jj, *idx):
        t = snap(*idx)
        if O.is_sym(t):
            return z3.substitute(t, (j, O.to_z3(jj)))
        return t
    shape = []
    for d in v.shape:
        if O.is_sym(d) and j in _vars_of(d):
            # a dimension that mentions the position but has the same value at every position
            for cand in (1, 0, 2, O.simp(z3.substitute(O.to_z3(d), (j, z3.IntVal(0))))):
                if ctx.entails(O.eq(d, cand)):
                    d = cand
                    break
            else:
                raise Unsupported("abstract comprehension: item shape depends on the index")
        shape.append(d)
    view = Tn.fresh([seq.count] + shape, content, v.kind, lib=v.lib)
    return StackList(seq.count, [view])


def _vars_of(t):
    out = set()

    def rec(x):
        if z3.is_const(x) and x.decl().kind() == z3.Z3_OP_UNINTERPRETED:
            out.add(x)
        for ch in x.children():
            rec(ch)
    rec(t)
    return out


@lib('abstract_list')
def _abstract_list(fr, name, v, kind, spec):
    """havoc of a list that grows in a cut loop.  The item structure (tensor / k-tuple, trailing
    shapes) is given by the loop spec: spec.lists[name] = dict(k=None|int, tuple_kind, rank, shape=fn)"""
    info = (spec.lists or {}).get(name)
    if info is None:
        raise Unsupported("no item description for abstract list %s" % name)
    k = info.get('k')
    nm = O.fresh_name(name)
    count = z3.Int(nm + '.count')
    fr.ctx.assume(count >= 0)
    views = []
    n = 1 if k is None else k
    for o in range(n):
        sh = info['shape'](fr, o)   # full shape of the view incl. leading dim (may be fresh symbols)
        rank = len(sh)
        t = Tn.param('%s.v%d' % (nm, o), rank, info.get('kind', 'real'), 'torch', shape=sh)
        t.cell.origin = 'fresh:list-view'
        views.append(t)
    if kind == 'cat':
        return CatList(count, views, info.get('tuple_kind') if k is not None else None)
    return StackList(count, views, info.get('tuple_kind') if k is not None else None)
