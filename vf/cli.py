import argparse
import os
import sys
import traceback


def main():
    ap = argparse.ArgumentParser()
    ap.add_argument('pid')
    ap.add_argument('--tier', default=os.environ.get('VERIF_TIER', 'quick'), choices=['quick', 'thorough'])
    ap.add_argument('--replay', default=None)
    a = ap.parse_args()
    seed = int(os.environ.get('VERIF_SEED', '0') or 0)
    try:
        import warnings
        warnings.filterwarnings('ignore')
        import torch
        torch.set_num_threads(1)
        from vf import run
        if a.replay:
            rc = run.replay_file(a.pid, a.replay)
        else:
            rc = run.run_property(a.pid, a.tier, seed)
    except SystemExit:
        raise
    except BaseException:
        traceback.print_exc()
        print("checker error (exit 3): internal failure, no verdict")
        sys.exit(3)
    sys.exit(rc)


if __name__ == '__main__':
    main()
