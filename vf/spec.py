"""Spec-level helpers shared by contracts (DESIGN §3): one-hot witnesses, selection, spec tensors."""
import z3
from . import ops as O
from .ops import And, Or, Not, ite, Implies
from .tensor import Tn, Unsupported


def spec_tensor(shape, fn, kind='int', lib='torch'):
    return Tn.fresh(list(shape), fn, kind, origin='spec', lib=lib)


def onehot_from_idx(shape, idxfn, ohe_dim=1, lib='torch'):
    """tensor X[.., c, ..] = [c == idx(rest)]"""
    shape = list(shape)

    def elem(*idx):
        rest = [i for q, i in enumerate(idx) if q != ohe_dim]
        return ite(O.eq(idx[ohe_dim], idxfn(*rest)), 1, 0)
    t = Tn.fresh(shape, elem, 'int', origin='spec', lib=lib)
    t.idxfn = idxfn
    return t


def _extract_idx(term, cvar):
    """term is an ite-tree over leaves ite(c == e, 1, 0) / constants 0; returns index term or None
    (0-leaf => index -1: an all-zero column)."""
    t = z3.simplify(term) if isinstance(term, z3.ExprRef) else term
    if not isinstance(t, z3.ExprRef):
        if t == 0:
            return z3.IntVal(-1)
        return None
    if z3.is_int_value(t):
        return z3.IntVal(-1) if t.as_long() == 0 else None
    if z3.is_app_of(t, z3.Z3_OP_TO_REAL):
        return _extract_idx(t.arg(0), cvar)
    if z3.is_app_of(t, z3.Z3_OP_ITE):
        c, a, b = t.arg(0), t.arg(1), t.arg(2)
        if not _mentions(c, cvar):
            ia, ib = _extract_idx(a, cvar), _extract_idx(b, cvar)
            if ia is None or ib is None:
                return None
            return z3.If(c, ia, ib)
        # condition mentions c: must be (c == e) with leaves 1 / 0
        e = _eq_rhs(c, cvar)
        if e is not None and _is_num(a, 1) and _is_num(b, 0):
            return e
        e = _neq_rhs(c, cvar)
        if e is not None and _is_num(a, 0) and _is_num(b, 1):
            return e
        return None
    return None


def _is_num(t, v):
    t = z3.simplify(t)
    if z3.is_int_value(t):
        return t.as_long() == v
    if z3.is_rational_value(t):
        return t.numerator_as_long() == v and t.denominator_as_long() == 1
    return False


def _mentions(t, v):
    if t.eq(v):
        return True
    for ch in t.children():
        if _mentions(ch, v):
            return True
    return False


def _eq_rhs(c, cvar):
    if z3.is_eq(c):
        a, b = z3.simplify(c.arg(0)), z3.simplify(c.arg(1))
        if a.eq(cvar) and not _mentions(b, cvar):
            return b
        if b.eq(cvar) and not _mentions(a, cvar):
            return a
        # simplify may produce (c + k*x == e) forms: solve for c when linear with coefficient 1
        d = z3.simplify(a - b)
        return None
    return None


def _neq_rhs(c, cvar):
    if z3.is_not(c):
        return _eq_rhs(c.arg(0), cvar)
    if z3.is_distinct(c) and c.num_args() == 2:
        a, b = c.arg(0), c.arg(1)
        if a.eq(cvar) and not _mentions(b, cvar):
            return b
        if b.eq(cvar) and not _mentions(a, cvar):
            return a
    return None


def onehot_witness(t, ohe_dim=1):
    """index function of a tensor whose elements are syntactically [c == e(rest)] ite-trees.
    Returns closure rest -> index term (-1 = all-zero column) or None."""
    if getattr(t, 'idxfn', None) is not None and False:
        return t.idxfn
    if not O.any_sym(*t.shape) and not _symbolic_content(t):
        return _concrete_witness(t, ohe_dim)
    vs = [z3.Int('wv!%d' % i) for i in range(t.rank)]
    cvar = vs[ohe_dim]
    term = t.elem(*vs)
    if not isinstance(term, z3.ExprRef):
        if term == 0:
            return lambda *rest: -1
        return None
    # keep the structure: do not let simplify rewrite (c == e) into arithmetic normal forms
    _BOUND[0] = t.shape[ohe_dim]
    try:
        idx = _extract_idx_raw(term, cvar)
    finally:
        _BOUND[0] = None
    if idx is None:
        idx = _extract_idx(term, cvar)
    if idx is None:
        return None
    rest_vars = [v for q, v in enumerate(vs) if q != ohe_dim]

    def w(*rest):
        return z3.substitute(idx, *[(v, O.to_z3(r)) for v, r in zip(rest_vars, rest)])
    return w


_BOUND = [None]


def _implied_by_bounds(ch, cvar):
    A = _BOUND[0]
    sv = z3.Solver()
    sv.set('timeout', 2000)
    sv.add(cvar >= 0, cvar < O.to_z3(A), z3.Not(ch))
    return sv.check() == z3.unsat


def _extract_idx_raw(t, cvar):
    if not isinstance(t, z3.ExprRef):
        return z3.IntVal(-1) if t == 0 else None
    if z3.is_int_value(t):
        return z3.IntVal(-1) if t.as_long() == 0 else None
    if z3.is_app_of(t, z3.Z3_OP_TO_REAL):
        return _extract_idx_raw(t.arg(0), cvar)
    if z3.is_app_of(t, z3.Z3_OP_ITE):
        c, a, b = t.arg(0), t.arg(1), t.arg(2)
        if _mentions(c, cvar) and z3.is_and(c) and _BOUND[0] is not None:
            # drop conjuncts that merely say the alphabet index is inside its dimension
            keep = []
            for ch in c.children():
                if _mentions(ch, cvar) and _implied_by_bounds(ch, cvar):
                    continue
                keep.append(ch)
            c = z3.And(*keep) if len(keep) > 1 else (keep[0] if keep else z3.BoolVal(True))
            if z3.is_true(c):
                return _extract_idx_raw(a, cvar)
        if not _mentions(c, cvar):
            ia, ib = _extract_idx_raw(a, cvar), _extract_idx_raw(b, cvar)
            if ia is None or ib is None:
                return None
            return z3.If(c, ia, ib)
        e = _eq_rhs(c, cvar)
        if e is not None and _is_num(a, 1) and _is_num(b, 0):
            return e
        e = _neq_rhs(c, cvar)
        if e is not None and _is_num(a, 0) and _is_num(b, 1):
            return e
        # conjunction (c == e) & other-conditions-not-mentioning-c : [c==e]*[cond]
        if z3.is_and(c) and _is_num(a, 1) and _is_num(b, 0):
            es = [x for x in c.children() if _mentions(x, cvar)]
            others = [x for x in c.children() if not _mentions(x, cvar)]
            if len(es) == 1:
                e = _eq_rhs(es[0], cvar)
                if e is not None:
                    return z3.If(z3.And(*others), e, z3.IntVal(-1)) if others else e
        return None
    return None


def _symbolic_content(t):
    try:
        v = t.elem(*([0] * t.rank))
    except Exception:
        return True
    return isinstance(v, z3.ExprRef)


def _concrete_witness(t, ohe_dim):
    import itertools
    A = int(t.shape[ohe_dim])

    def w(*rest):
        ones = []
        for c in range(A):
            idx = list(rest)
            idx.insert(ohe_dim, c)
            v = t.elem(*idx)
            if v == 1:
                ones.append(c)
            elif v != 0:
                return -2
        if len(ones) == 1:
            return ones[0]
        if len(ones) == 0:
            return -1
        return -2
    return w


def is_onehot(t, ohe_dim=1, allow_zero=False):
    """dual: formula stating that t is one-hot along ohe_dim (goal position: fresh indices)."""
    if not O.any_sym(*t.shape) and not _symbolic_content(t):
        import itertools
        w = _concrete_witness(t, ohe_dim)
        rest_dims = [int(d) for q, d in enumerate(t.shape) if q != ohe_dim]
        lo = -1 if allow_zero else 0
        return all(lo <= w(*rest) for rest in itertools.product(*[range(d) for d in rest_dims]))
    w = onehot_witness(t, ohe_dim)
    if w is None:
        # semantic statement with fresh indices: values in {0,1}, at most one 1, and (weak) existence
        raise Unsupported("no syntactic one-hot witness")
    rest_dims = [d for q, d in enumerate(t.shape) if q != ohe_dim]
    A = t.shape[ohe_dim]
    lo = -1 if allow_zero else 0
    return O.forall(rest_dims, lambda *rest: And(lo <= w(*rest), w(*rest) < A))


def bsel(t, b):
    """batch selection with broadcasting of a leading dimension of size 1"""
    return ite(O.eq(t.shape[0], 1), 0, b)
