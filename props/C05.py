ID = 'C05'
TITLE = 'DeepLIFT/SHAP multipliers equal an independent rescale-rule computation'
CONTRACT_MODULES = ['contracts.dls_c']
FUNCTIONS = ['tangermeme.deep_lift_shap._nonlinear', 'tangermeme.deep_lift_shap.hypothetical_attributions', 'tangermeme.deep_lift_shap._maxpool', 'tangermeme.deep_lift_shap.deep_lift_shap']
BOUNDED = 'bounded.C05'
BOUNDED_BUDGET = {'quick': 120, 'thorough': 600}
LEVEL = 'other'
EXPLANATION = "deductive: _nonlinear under contract (whole function): returned multiplier = grad_output*(out(x)-out(ref))/(in(x)-in(ref)) of the pair (r mod h) and the ordinary gradient grad_input where |in(x)-in(ref)| < 1e-6; hypothetical_attributions under contract (whole function): value for character k at a position = sum_c (e_k - ref)[c]*m[c], inputs unwritten. _maxpool (whole function, MaxPool1d): the pooling indices are recomputed on the captured input with the own kernel_size / stride / padding / dilation / ceil_mode of the module (one index per window of the captured output), every window contributes grad_output*delta_out at the position of its maximum (shared positions accumulate), halves summed and divided by in(x)-in(ref); deep_lift_shap (whole function): result[e] = mean over the ns pairs of example e of the hypothetical projection of the per-pair multipliers, masked by X[e] (composition of the pieces above, for every batch size). NOT under contract: autograd's propagation through the linear layers and hook dispatch - bounded stand-in: multipliers/attributions against an independent layer-by-layer rescale-rule oracle"
ASSUMPTIONS = ['torch.autograd propagates multipliers through linear layers by their transposes and hands (grad_input, grad_output) to the registered hooks', 'module.input/module.output hold the activations of the concatenated [examples; references] batch (set by _fp_hook/_f_hook)', 'floats treated as reals']
TRUSTED = []
