ID = 'C09'
TITLE = 'Saturation mutagenesis reports each single-character mutant at its own index'
CONTRACT_MODULES = ['contracts.utils_c', 'contracts.predict_c', 'contracts.ism_c']
FUNCTIONS = ['tangermeme.ism._edit_distance_one', 'tangermeme.ism._attribution_score', 'tangermeme.ism.saturation_mutagenesis']
BOUNDED = 'bounded.C09'
BOUNDED_BUDGET = {'quick': 120, 'thorough': 600}
LEVEL = 'other'
EXPLANATION = 'deductive: mutant layout of _edit_distance_one (product-loop invariant, divmod lemma instances), saturation_mutagenesis raw outputs y0 / y_hat[n,c,p-start] for tensor and tuple models through the stack/cat + reshape path, args replicated per example; _attribution_score (whole function, integer target with and without a further trailing output dimension, and a slice of targets = mean over the selected outputs) = difference from y0 at the target, centred across characters, averaged over further output dimensions; saturation_mutagenesis with raw_outputs=False (tensor models, integer target): that function of (y0, y_hat), masked by the observed character unless hypothetical. bounded: slice/None targets, tuple outputs of the attribution path, per-mutant forward passes'
ASSUMPTIONS = ['model row-wise, pure, deterministic', "0 <= start < end' <= L with end' = L+1+end for end<0 (the window of the statement)", 'lemma divmod_unique instances (Lean)']
TRUSTED = []
