ID = 'C08'
TITLE = 'Perturbation wrappers evaluate exactly the input that each output index denotes'
CONTRACT_MODULES = ['contracts.utils_c', 'contracts.predict_c', 'contracts.ersatz_c', 'contracts.wrappers_c', 'contracts.product_c']
FUNCTIONS = ['tangermeme.marginalize.marginalize', 'tangermeme.ablate.ablate', 'tangermeme.marginalize.marginalize_annotations',
             'tangermeme.ablate.ablate_annotations', 'tangermeme.space.space',
             'tangermeme.product.apply_product', 'tangermeme.product.apply_pairwise']
BOUNDED = 'bounded.C08'
BOUNDED_BUDGET = {'quick': 120, 'thorough': 600}
LEVEL = 'other'
EXPLANATION = ("index identity of every wrapper output as a postcondition over an uninterpreted row-wise func/model "
               "(row contents as z3 lambda arrays): marginalize before/after, ablate through reshape(-1), repeat_interleave "
               "and the inverse reshape; callee contracts (substitute, predict) used modularly at call sites; apply_product / apply_pairwise: "
               "entry [i, j1, .., jk] = func on example i with argument rows j1..jk, for every batch size (pending-row lists and the cat-abstracted "
               "output list as loop invariants over the lexicographic nest, divmod_unique instances)")
ASSUMPTIONS = ["func / model row-wise, pure, deterministic; func rejects extra arguments with a different leading dimension",
               "shuffle_fn returns a (batch, n, alphabet, length) tensor that is a function of its arguments",
               "structural enumeration: func opaque or tangermeme.predict; outputs tensor / tuple2; 0-2 extra args"]
TRUSTED = []
