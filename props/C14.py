ID = 'C14'
TITLE = 'TOMTOM scores and p-values match an independent complete-score reference'
CONTRACT_MODULES = ['contracts.tomtom_c']
FUNCTIONS = ['tangermeme.tools.tomtom._merge_rc_results', 'tangermeme.tools.tomtom._pairwise_max', 'tangermeme.tools.tomtom._p_values', 'tangermeme.tools.tomtom._tomtom#nearest']
BOUNDED = 'bounded.C14'
BOUNDED_BUDGET = {'quick': 120, 'thorough': 600}
LEVEL = 'other'
EXPLANATION = ("n_nearest selection of _tomtom (fragment; argsort axiom): the reported rows are the scratch rows of distinct valid targets with non-decreasing p-values, no unselected target is nearer, other queries untouched; deductive: _p_values (t_sums = complete-score alignment sums by a two-level recursive spec, reported score = maximum over all nt+nq-1 alignments, offset/overlap attain it, p-value = B_cdfs[nt, score-1], 1 for score 0); _merge_rc_results (strand merge 1-(1-min p)^2, fields of the higher-scoring strand, ties, flag, frame) and "
               "_pairwise_max (pmf of the maximum of two independent variables with prefix-sum recursive spec, also under the x-is-z "
               "aliasing the caller uses); bounded: null-distribution DP, histogram, alignment scan and end-to-end tomtom against an "
               "independent numpy complete-score reference")
ASSUMPTIONS = ["floats as reals", "null-distribution DP (_p_value_backgrounds, _integer_distances_and_histogram) is not under contract: bounded only (DESIGN 4.5)"]
TRUSTED = []
