ID = 'C02'
TITLE = 'Shuffles preserve composition (mono- or di-nucleotide), flanks and determinism'
CONTRACT_MODULES = ['contracts.utils_c', 'contracts.ersatz_c']
FUNCTIONS = ['tangermeme.ersatz.shuffle', 'tangermeme.ersatz.dinucleotide_shuffle']
BOUNDED = 'bounded.C02'
BOUNDED_BUDGET = {'quick': 120, 'thorough': 900}
LEVEL = 'other'
EXPLANATION = ("deductive: shuffle = per-shuffle permutation of the region (random tape model of the generator; composition then "
               "follows by the Lean lemma sum_perm), flanks identical, raises-iff, frame, determinism in (input, region, n, seed); "
               "dinucleotide_shuffle: flanks, per-example seed random_state+i, frame, independence of other examples. "
               "bounded (never counted as proved): the Euler walk of _fast_shuffle - every sequence up to length 8 x every outcome of "
               "every internal permutation - never strands and preserves dinucleotide counts")
ASSUMPTIONS = ["RandomState(seed).shuffle applies some permutation determined by (seed, draw position) (assumed relation)",
               "_dinucleotide_shuffle(region, n, seed) is a function of its arguments returning (n, alphabet, width) (assumed at the call site; bounded layer checks the walk)",
               "Euler-walk theorem (last-exit tree) is not proved: claimed level is 'other'"]
TRUSTED = ['lean/Lemmas.lean: sum_perm (composition preserved under a permutation)']
