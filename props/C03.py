ID = 'C03'
TITLE = 'predict is transparent to batching and keeps extra arguments aligned'
CONTRACT_MODULES = ['contracts.utils_c', 'contracts.predict_c']
FUNCTIONS = ['tangermeme.predict.predict']
BOUNDED = 'bounded.C03'
BOUNDED_BUDGET = {'quick': 120, 'thorough': 600}
LEVEL = 'proof'
EXPLANATION = ("loop invariant over the abstract cat-view of the output list (first min(it*b, N) rows of the per-example "
               "specification), ghost eval/no-grad state at every model call, raises-iff on leading dimensions, empty frame; "
               "25 structural instances (tensor / tuple1-3 / list outputs x args None/0-3), all sizes and batch sizes symbolic")
ASSUMPTIONS = ["model is row-wise, pure and deterministic: out_o[r] = M_o(X[r], args_0[r], ...) (the property defines the right-hand side per example)",
               "N >= 1, batch_size >= 1 (property's domain)",
               "structural enumeration: outputs tensor/tuple(1..3)/list(2); 0-3 extra args; trailing output rank 0-2"]
TRUSTED = []
