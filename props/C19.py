ID = 'C19'
TITLE = 'Called seqlets are well-formed spans whose reported statistics match the input'
CONTRACT_MODULES = ['contracts.seqlet_c']
FUNCTIONS = ['tangermeme.seqlet._recursive_seqlets#emit']
BOUNDED = 'bounded.C19'
BOUNDED_BUDGET = {'quick': 60, 'thorough': 600}
LEVEL = 'other'
EXPLANATION = ('deductive (emission block of _recursive_seqlets as a fragment contract): appended seqlet fields, 0 <= start < end <= l, attribution = prefix-sum difference with csum[-1] = 0 (no wrapped index). bounded: planted bumps; span / attribution / p-value / sortedness / suppression / frame clauses on the real callers')
ASSUMPTIONS = ['context of the emission block (start from argmin of a length-l row, core extended at least once) is assumed', 'prefix_sum_diff (Lean): csum[b-1]-csum[a-1] = sum over [a,b)']
TRUSTED = []
