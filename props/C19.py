ID = 'C19'
TITLE = 'Called seqlets are well-formed spans whose reported statistics match the input'
CONTRACT_MODULES = ['contracts.seqlet_c']
FUNCTIONS = ['tangermeme.seqlet._recursive_seqlets#emit', 'tangermeme.seqlet._iterative_extract_seqlets#step', 'tangermeme.seqlet.tfmodisco_seqlets#row']
BOUNDED = 'bounded.C19'
BOUNDED_BUDGET = {'quick': 60, 'thorough': 600}
LEVEL = 'other'
EXPLANATION = ('deductive (emission block of _recursive_seqlets as a fragment contract): appended seqlet fields, 0 <= start < end <= l, attribution = prefix-sum difference with csum[-1] = 0 (no wrapped index); one step of _iterative_extract_seqlets as a fragment contract (stops exactly when the maximum of the row is -inf, otherwise appends (i, a - flank, a + window + flank) for the first maximum a and clears exactly the cells within suppress of a, clipped to the row); row construction of tfmodisco_seqlets as a fragment contract (attribution = sum of the input over the central window, input unwritten). bounded: planted bumps; span / attribution / p-value / sortedness / suppression / frame clauses on the real callers')
ASSUMPTIONS = ['the step contract implies that two seqlets of one example have starts more than suppress apart (a later maximum is finite, hence outside every cleared range): argued in the contract docstring, not machine-checked', '-inf modelled as one unspecified huge negative real; numpy.floor / ceil = to_int; argmax = first index of a maximal element (axiom)', 'the seqlets handed to the row construction span window_size + 2*flank positions inside the example (established by the extraction step and the flank masking: bounded)', 'context of the emission block (start from argmin of a length-l row, core extended at least once) is assumed', 'prefix_sum_diff (Lean): csum[b-1]-csum[a-1] = sum over [a,b)']
TRUSTED = []
