ID = 'C15'
TITLE = 'Sequence representations convert losslessly and invert one another'
CONTRACT_MODULES = ['contracts.utils_c', 'contracts.utils_def_c']
FUNCTIONS = ['tangermeme.utils.chunk', 'tangermeme.utils.unchunk']
BOUNDED = 'bounded.C15'
BOUNDED_BUDGET = {'quick': 60, 'thorough': 600}
LEVEL = 'other'
EXPLANATION = ("deductive: chunk (unfold axiom, row offsets per sequence) and unchunk (1, 2 and >= 3 chunk paths, both overlap parities, "
               "running chunk offset over 1-2 sequences): every position covered by a complete chunk is taken from the chunk that owns it - with "
               "chunk's contract this is the round trip. bounded: one_hot_encode / characters round trip on exhaustive short strings and "
               "alphabets, rejection of foreign characters, reverse_complement involution / string-tensor agreement, chunk sizes 1-40 x overlaps")
ASSUMPTIONS = ["unfold / moveaxis / reshape axioms (vf/lib.py)", "lemma ediv_emod_of_decomp instances (Lean) for the merged middle chunks",
               "one_hot_encode, characters, reverse_complement definitions are not under contract (bounded only)"]
TRUSTED = []
