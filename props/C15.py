ID = 'C15'
TITLE = 'Sequence representations convert losslessly and invert one another'
CONTRACT_MODULES = ['contracts.utils_c', 'contracts.utils_def_c']
FUNCTIONS = ['tangermeme.utils.chunk', 'tangermeme.utils.unchunk', 'tangermeme.utils._fast_one_hot_encode', 'tangermeme.utils.one_hot_encode#mapping', 'tangermeme.utils.reverse_complement#tensor']
BOUNDED = 'bounded.C15'
BOUNDED_BUDGET = {'quick': 120, 'thorough': 600}
LEVEL = 'other'
EXPLANATION = ("deductive: chunk (unfold axiom, row offsets per sequence) and unchunk (1, 2 and >= 3 chunk paths, both overlap parities, "
               "running chunk offset over 1-2 sequences): every position covered by a complete chunk is taken from the chunk that owns it - with "
               "chunk's contract this is the round trip; the byte-table kernel _fast_one_hot_encode (whole function: raises exactly on an illegal byte, a letter sets exactly its column, an ignored byte leaves its row zero, no access outside the arrays) and the construction of the byte table in one_hot_encode (fragment: i-th alphabet byte -> i, ignored -> -1, every other byte -> -2); tensor form of reverse_complement (fragment: out[c, l] = seq[idxs[c], L-1-l], input unwritten; lemma over the contract: twice = identity when the index map is an involution). bounded: one_hot_encode / characters round trip on exhaustive short strings and "
               "alphabets, rejection of foreign characters, reverse_complement involution / string-tensor agreement, chunk sizes 1-40 x overlaps")
ASSUMPTIONS = ["unfold / moveaxis / reshape axioms (vf/lib.py)", "lemma ediv_emod_of_decomp instances (Lean) for the merged middle chunks",
               "of one_hot_encode only the byte table and the lookup kernel are under contract (bytes in [0,128): ASCII, as the property quantifies; int8 table entries as mathematical integers); the utf8 conversion, the final transpose / dtype cast, characters and reverse_complement are bounded only"]
TRUSTED = []
