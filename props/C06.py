ID = 'C06'
TITLE = 'Attributions do not depend on batch size, co-batched examples or call order'
CONTRACT_MODULES = ['contracts.dls_c']
FUNCTIONS = ['tangermeme.deep_lift_shap.deep_lift_shap']
BOUNDED = 'bounded.C06'
BOUNDED_BUDGET = {'quick': 120, 'thorough': 600}
LEVEL = 'other'
EXPLANATION = "deductive: deep_lift_shap under contract as a whole function, for every batch size, number of examples, number of references: pairs are processed in order e*ns+j; pair p is evaluated with X[p//ns], its own reference (references[p//ns, p%ns] or references(X[p//ns], random_state + p%ns)) and its own args row; result[e] combines exactly the ns pairs of example e (mean of projected multipliers, masked by X[e] unless hypothetical; raw multipliers with raw_outputs); returned references[e, j] = shuffle j of example e. The result term mentions neither batch_size nor any other example (loop invariants over abstract lists Xi, rj, attr_, attributions, references_; emission while-loop invariant). NOT under contract: what the model/hooks compute per pair (assumed row-wise function DLGRAD), dinucleotide_shuffle's own determinism (C02). bounded: bit-wise / 1e-10 comparison across every batch size, ordered subsets, repeated calls"
ASSUMPTIONS = ['torch.autograd.grad of the batch-summed target column with the DeepLIFT hooks registered is, per example row, a function of that row, its paired reference row (row + h), their extra arguments and the target (row-wise model; this is what _nonlinear/_maxpool rely on through chunk(2))', 'model is row-wise (no cross-example interaction such as BatchNorm in training mode); eval() assumed', 'model.apply(_clear_hooks) does not raise; handle.remove() restores the hook dictionaries', 'floats treated as reals; divmod_unique (Lean) instances for pair index e*ns+j']
TRUSTED = []
