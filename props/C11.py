ID = 'C11'
TITLE = 'FIMO p-value tables are the exact tail distribution of the discretised score'
CONTRACT_MODULES = []
FUNCTIONS = []
BOUNDED = 'bounded.C11'
BOUNDED_BUDGET = {'quick': 60, 'thorough': 600}
LEVEL = 'other'
EXPLANATION = 'bounded stand-in only so far: exact big-integer tail distribution oracle, brute-force 4^w enumeration for w<=7'
ASSUMPTIONS = ['floats as reals in the oracle comparison up to 1e-9']
TRUSTED = []
