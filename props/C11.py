ID = 'C11'
TITLE = 'FIMO p-value tables are the exact tail distribution of the discretised score'
CONTRACT_MODULES = ['contracts.fimo_c']
FUNCTIONS = ['tangermeme.tools.fimo._pwm_to_mapping']
BOUNDED = 'bounded.C11'
BOUNDED_BUDGET = {'quick': 60, 'thorough': 600}
LEVEL = 'other'
EXPLANATION = ('deductive (initialisation only): the table returned by _pwm_to_mapping is written everywhere before it is returned, for every motif length including 1 (ghost init bits on numpy.empty buffers, loop invariants). bounded: exact big-integer tail-distribution oracle (brute force 4^w for w<=7, big-int DP to w=30), NaN / monotone / mass clauses, fimo() p-values')
ASSUMPTIONS = ['index safety and the value of the convolution are not under contract (bounded only)', 'logaddexp2 assumed to return some extended real at call sites; infinities modelled as one unspecified huge real']
TRUSTED = []
