ID = 'C11'
TITLE = 'FIMO p-value tables are the exact tail distribution of the discretised score'
CONTRACT_MODULES = ['contracts.fimo_c']
FUNCTIONS = ['tangermeme.tools.fimo._pwm_to_mapping']
BOUNDED = 'bounded.C11'
BOUNDED_BUDGET = {'quick': 120, 'thorough': 600}
LEVEL = 'other'
EXPLANATION = ('deductive (memory safety and initialisation of the whole function, all 9 loops under invariants): every read and write of the dynamic programme lies inside its array for every PWM (numba performs no bounds checks) - smallest / largest bound every prefix sum of the column minima / maxima, the finite entries of the running pdf after t columns have indices in [CSmin(t) - smallest, CSmax(t) - smallest] - and the table returned is written everywhere before it is returned, for every motif length including 1 (ghost init bits on numpy.empty buffers). An undischarged obligation is replayed by running the kernel as plain Python with every subscript checked (vf/boundscheck.py). The VALUE of the table is bounded only: exact big-integer tail-distribution oracle (brute force 4^w for w<=7, big-int DP to w=30), NaN / monotone / mass clauses, fimo() p-values')
ASSUMPTIONS = ['the value of the table (exactness of the tail distribution) is not under contract (bounded only)', 'precondition: n >= 1 rows, l >= 1 columns, every discretised entry round(log_pwm / bin_size) strictly between the sentinels -9999999 and 9999999; integers are mathematical (no int32 / int64 overflow of the prefix sums)', 'column minima / maxima and their prefix sums are ghost definitions (they exist for n >= 1); sum_range_succ instances', 'logaddexp2 assumed to return some extended real at call sites; infinities modelled as one unspecified huge real']
TRUSTED = []
