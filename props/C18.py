ID = 'C18'
TITLE = 'Annotation and k-mer counting equal direct enumeration'
CONTRACT_MODULES = ['contracts.utils_c', 'contracts.annotate_c']
FUNCTIONS = ['tangermeme.annotate.count_annotations', 'tangermeme.annotate.pairwise_annotations_spacing#pair-body']
BOUNDED = 'bounded.C18'
BOUNDED_BUDGET = {'quick': 60, 'thorough': 600}
LEVEL = 'other'
EXPLANATION = ('deductive: count_annotations entry (e,a) = number of rows (scatter_add / max axioms, mixed-radix index equivalence, dim=0/1, shape rejection, tensor and tuple input); pair body of pairwise_annotations_spacing as a fragment contract (increments exactly (left,right,d) for 0<=d<max_distance, mirrored iff symmetric and distinct, nothing otherwise, no wrapped index). bounded: pair enumeration exactly once, pairwise_annotations, kmers against brute-force counting')
ASSUMPTIONS = ['scatter_add_: y[k] += sum_r [idx_r == k] src_r; tensor.max(dim) bounds every element and is attained (axioms)', 'pair enumeration (each unordered pair of rows of one example visited exactly once) is bounded, not proved']
TRUSTED = []
