ID = 'C18'
TITLE = 'Annotation and k-mer counting equal direct enumeration'
CONTRACT_MODULES = ['contracts.utils_c', 'contracts.annotate_c']
FUNCTIONS = ['tangermeme.annotate.count_annotations', 'tangermeme.annotate.pairwise_annotations_spacing#pair-body', 'tangermeme.annotate.pairwise_annotations#example-pairs', 'tangermeme.annotate.pairwise_annotations_spacing#example-pairs']
BOUNDED = 'bounded.C18'
BOUNDED_BUDGET = {'quick': 60, 'thorough': 600}
LEVEL = 'other'
EXPLANATION = ('deductive: count_annotations entry (e,a) = number of rows (scatter_add / max axioms, mixed-radix index equivalence, dim=0/1, shape rejection, tensor and tuple input); pair body of pairwise_annotations_spacing as a fragment contract (increments exactly (left,right,d) for 0<=d<max_distance, mirrored iff symmetric and distinct, nothing otherwise, no wrapped index); pair enumeration of pairwise_annotations and of pairwise_annotations_spacing as fragment contracts over the two nested loops for an annotation list of any length m (loop invariants over the pair sums, sum_range_succ instances): y gains exactly the number of position pairs p<q<m with the given annotations (and gap), every pair once. bounded: grouping of rows by example, whole functions, kmers against brute-force counting')
ASSUMPTIONS = ['scatter_add_: y[k] += sum_r [idx_r == k] src_r; tensor.max(dim) bounds every element and is attained (axioms)', 'grouping of the table rows into per-example lists (example_annotations) is bounded, not proved; the pair enumeration contract starts from an arbitrary per-example list']
TRUSTED = []
