ID = 'C20'
TITLE = 'Greedy design never worsens the loss and takes the best substitution each step'
CONTRACT_MODULES = ['contracts.design_c', 'contracts.ersatz_c', 'contracts.utils_c']
FUNCTIONS = ['tangermeme.design._fast_tile_substitute', 'tangermeme.design.greedy_substitution#best-candidate',
             'tangermeme.design.greedy_substitution#apply-best']
BOUNDED = 'bounded.C20'
BOUNDED_BUDGET = {'quick': 120, 'thorough': 600}
LEVEL = 'other'
EXPLANATION = 'deductive: _fast_tile_substitute row i = X with the motif at offset i (three nested loop invariants, index safety, prange frame); selection step of greedy_substitution (fragment: the four statements after the per-position losses of one motif): the running best candidate is replaced whenever the smallest loss of this motif is strictly better, never when it is worse, records that minimum and one of its positions, and best_improvement is the running maximum (argmin axiom); application step (fragment: the `if best_motif_idx ...` statement after the motif loop): the new sequence is the old one with exactly motifs[best_motif_idx] at best_pos (contract of ersatz.substitute, verified under C01) and loss_prev becomes the recorded loss, nothing changes when no candidate improved; bounded: brute-force enumeration of all single substitutions with exact-arithmetic models'
ASSUMPTIONS = ['predict contract (C03)', 'loss deterministic']
TRUSTED = []
