ID = 'C17'
TITLE = 'GC-matched background loci are valid, disjoint from the input and GC-balanced'
CONTRACT_MODULES = ['contracts.match_c']
FUNCTIONS = ['tangermeme.match.extract_matching_loci#bin-matching', 'tangermeme.match._extract_and_filter_chrom#signal-window']
BOUNDED = 'bounded.C17'
BOUNDED_BUDGET = {'quick': 120, 'thorough': 600}
LEVEL = 'other'
EXPLANATION = ('deductive: signal window of _extract_and_filter_chrom (fragment: the four statements tiling the bigwig track): values[t] = sum of the track over the centred out_window of tile t, for every 0 < out_window <= in_window incl. in_window == out_window and odd differences, complete tiles only; (fragment contract over the real statements of the exact-bin matching and nearest-bin spill, for any non-negative per-bin counts and any number of bins; two nested loop invariants incl. break): conservation bg + matched = bg0, matched >= min(loci0, bg0), matched <= bg0, unmatched input loci remain only when the eligible background is exhausted (bin 0 included). bounded: tiling, N / signal filters, masks, no duplicates, n_jobs invariance on synthetic genomes')
ASSUMPTIONS = ['the per-bin counts handed to the matching are non-negative (established by the preceding code, bounded)', 'FASTA / bigwig readers, joblib result order, seeded shuffle: bounded only']
TRUSTED = []
