ID = 'C10'
TITLE = 'Variant-effect functions evaluate exactly the string-level edited sequences'
CONTRACT_MODULES = ['contracts.utils_c', 'contracts.variant_c']
FUNCTIONS = ['tangermeme.variant_effect.deletion_effect#keep-mask', 'tangermeme.variant_effect.substitution_effect']
BOUNDED = 'bounded.C10'
BOUNDED_BUDGET = {'quick': 120, 'thorough': 600}
LEVEL = 'other'
EXPLANATION = ('deductive: keep-mask of deletion_effect as a fragment contract over the real statements between the deletion scatter and the mask compaction, for any 0/1 deletion matrix, both trim sides (prefix-sum and max axioms): kept iff undeleted and beyond the equalising trim flank; a deleted position is never kept; substitution_effect (whole function): whenever it returns, y_before = func(X) and y_after = func(X with every table row (e, p, c) applied as the one-hot column c at position p of example e, other positions untouched), X unwritten (advanced stores as existentially quantified updates). bounded: mask compaction, rejection of conflicting substitution tables, insertion_effect, before-trimming, refusal of variant lists that cannot be honoured - string-level oracle with an identity func')
ASSUMPTIONS = ['the deletion scatter yields a 0/1 matrix (bounded)', 'boolean-mask compaction X[mask].reshape keeps rows aligned when every example keeps the same count (bounded)']
TRUSTED = []
