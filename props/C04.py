ID = 'C04'
TITLE = 'DeepLIFT/SHAP attributions sum to the prediction difference from reference'
CONTRACT_MODULES = ['contracts.dls_c']
FUNCTIONS = ['tangermeme.deep_lift_shap._nonlinear', 'tangermeme.deep_lift_shap.hypothetical_attributions', 'tangermeme.deep_lift_shap.deep_lift_shap']
BOUNDED = 'bounded.C04'
BOUNDED_BUDGET = {'quick': 60, 'thorough': 600}
LEVEL = 'other'
EXPLANATION = "deductive: _nonlinear under contract (whole function): for every captured activation batch [examples; references] of 2h rows the multiplier returned for row r satisfies m*delta_in = grad_output*delta_out of the pair r mod h wherever |delta_in| >= 1e-6 (summation-to-delta carried through every registered element-wise non-linearity), and hypothetical_attributions (whole function) = sum_c (e_k - ref)[c]*m[c]. deep_lift_shap (whole function): result[e] = mean over the ns pairs of example e of the hypothetical projection of the per-pair multipliers, masked by X[e] (composition of the pieces above, for every batch size). NOT under contract: the composition through torch.autograd (linear layers' transposes, hook dispatch), _maxpool, the convergence-delta warning - those are the bounded stand-in: completeness of attributions against plain forward passes on seeded random float64 architectures"
ASSUMPTIONS = ['torch.autograd propagates grad_output through linear/conv/avg-pool layers by their transposes and calls the registered backward hooks with (grad_input, grad_output) of the module', 'floats treated as reals', '_maxpool bounded only']
TRUSTED = []
