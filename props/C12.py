ID = 'C12'
TITLE = 'FIMO reports exactly the windows above threshold, both strands, fields correct'
CONTRACT_MODULES = ['contracts.fimo_c']
FUNCTIONS = ['tangermeme.tools.fimo._fast_hits', 'tangermeme.tools.fimo.fimo#threshold', 'tangermeme.tools.fimo._fast_convert', 'tangermeme.tools.fimo.fimo#tensor-to-indices']
BOUNDED = 'bounded.C12'
BOUNDED_BUDGET = {'quick': 120, 'thorough': 600}
LEVEL = 'other'
EXPLANATION = ("deductive: threshold of one motif (fragment: body of the threshold loop of fimo()): the score threshold is the first bin of the table whose log p-value is below log2(threshold), +inf when none, only entry i written; (scanner kernel _fast_hits): membership of hits[k] = exactly the windows 0..len-w inclusive whose score exceeds "
               "the threshold, hit fields, score as recursive sum (unknown characters contribute 0), index safety of every array access "
               "in the numba kernel, prange frame (iteration k appends to hits[k] only); the two input conversions that feed it: _fast_convert (whole function: every byte replaced by its table entry, nothing else written) and the tensor branch of fimo() (fragment: a one-hot column becomes its letter index, an all-zero column -1 - the encoding of an unknown character the scanner relies on). bounded: thresholds/bins, pandas assembly, "
               "strands, FASTA vs tensor, dim=0/1, reverse-complement mirror image, thread counts, against a pure-Python reference scanner")
ASSUMPTIONS = ["table coverage: the p-value table of motif k covers the bin of every above-threshold window score (link to C11, run-time checked by the bounded layer)",
               "numba uint64 arithmetic: casts are the identity on the verified ranges (index-safety obligations keep indices non-negative)",
               "EXP2 (2.0 ** x) uninterpreted", "argmax along a dimension = per slice the first index of a maximal element (axiom, conformance-tested)"]
TRUSTED = []
