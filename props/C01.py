ID = 'C01'
TITLE = 'Edit primitives apply exactly the requested string edit and nothing else'
CONTRACT_MODULES = ['contracts.utils_c', 'contracts.ersatz_c']
FUNCTIONS = ['tangermeme.ersatz.substitute', 'tangermeme.ersatz.insert', 'tangermeme.ersatz.delete',
             'tangermeme.ersatz.multisubstitute', 'tangermeme.ersatz.randomize', 'tangermeme.utils._validate_input']
BOUNDED = 'bounded.C01'
BOUNDED_BUDGET = {'quick': 120, 'thorough': 900}
LEVEL = 'proof'
EXPLANATION = ("three-sided contracts (exact edit / raises-iff / acceptance / one-hot output / empty frame) on the real "
               "ersatz functions, every obligation generated from the current AST and discharged by z3 for all tensor sizes, "
               "alphabet sizes and integer positions; the call-site contract of utils._validate_input that these proofs use is itself verified against "
               "its body (one-hot-structured tensors with an arbitrary index function, plain integer / real tensors; torch.unique and min / max as "
               "assumed relations); bounded layer replays the same contracts on the real functions")
ASSUMPTIONS = ["utils._validate_input: verified on the argument families callers pass; allow_N=True and dtype= are outside the verified subset; torch.unique = strictly increasing vector of the occurring values, tensor.min/max bound every element and are attained (axioms, vf/lib.py)",
               "utils.random_one_hot: draw number k of the generator tape is some one-hot tensor of the requested shape; invalid probabilities are rejected (assumed)",
               "inputs are one-hot with alphabet size >= 2, batch >= 1, length >= 1 (precondition of the property)"]
TRUSTED = []
