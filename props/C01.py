ID = 'C01'
TITLE = 'Edit primitives apply exactly the requested string edit and nothing else'
CONTRACT_MODULES = ['contracts.utils_c', 'contracts.ersatz_c']
FUNCTIONS = ['tangermeme.ersatz.substitute', 'tangermeme.ersatz.insert', 'tangermeme.ersatz.delete',
             'tangermeme.ersatz.multisubstitute', 'tangermeme.ersatz.randomize', 'tangermeme.utils._validate_input',
             'tangermeme.utils.random_one_hot']
BOUNDED = 'bounded.C01'
BOUNDED_BUDGET = {'quick': 120, 'thorough': 900}
LEVEL = 'proof'
EXPLANATION = ("three-sided contracts (exact edit / raises-iff / acceptance / one-hot output / empty frame) on the real "
               "ersatz functions, every obligation generated from the current AST and discharged by z3 for all tensor sizes, "
               "alphabet sizes and integer positions; the call-site contract of utils._validate_input that these proofs use is itself verified against "
               "its body (one-hot-structured tensors with an arbitrary index function, plain integer / real tensors; torch.unique and min / max as "
               "assumed relations), and so is utils.random_one_hot (loop invariant over the buffer, RandomState.choice assumed); bounded layer replays the same contracts on the real functions")
ASSUMPTIONS = ["utils._validate_input: verified on the argument families callers pass; allow_N=True and dtype= are outside the verified subset; torch.unique = strictly increasing vector of the occurring values, tensor.min/max bound every element and are attained (axioms, vf/lib.py)",
               "utils.random_one_hot: verified against its body (row b of the result is draw pos0 + b of the generator, one-hot of exactly the requested shape, generator advanced once per example; rejected exactly when shape is not a 3-tuple or a needed probability row is missing / malformed); what remains assumed is numpy's RandomState.choice(n, size, p): `size` values in [0, n) determined by the generator state, invalid probabilities raise; the call-site form counts generator positions in calls rather than draws (renaming RNDOH(tape, k, b, p) = CHOICE(tape, pos0 + k*B + b, p))",
               "inputs are one-hot with alphabet size >= 2, batch >= 1, length >= 1 (precondition of the property)"]
TRUSTED = []
