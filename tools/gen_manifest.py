#!/usr/bin/env python3
"""regenerate MANIFEST.json from props/Cxx.py (run after changing a plan): tools/gen_manifest.py"""
import json, importlib, sys, os
HERE = os.path.dirname(os.path.dirname(os.path.abspath(__file__)))
sys.path.insert(0, HERE)
props = [json.loads(l) for l in open(os.path.join(HERE, 'properties.jsonl'))]
m = json.load(open(os.path.join(HERE, 'MANIFEST.json')))
checks = []
for p in props:
    pid = p['id']
    plan = importlib.import_module('props.' + pid)
    funcs = [f.replace('tangermeme.', '') for f in plan.FUNCTIONS]
    if funcs:
        tech = ("contracts on the real functions + VC generation over the current AST (pyvc), z3/cvc5 discharge, small-scope refutation "
                "and replay of counter-models on the real code; bounded stand-in layer (never counted as proved)")
    else:
        tech = "bounded stand-in only (run-time oracle on the real functions); no deductive contract for this property yet"
    checks.append({
        "property_id": pid,
        "quick_cmd": "./check %s --tier quick" % pid,
        "thorough_cmd": "./check %s --tier thorough" % pid,
        "evidence_file": "evidence/%s.json" % pid,
        "replay_cmd_template": "./check %s --replay {path}" % pid,
        "engine": "pyvc",
        "technique": tech,
        "level_claimed": {"category": plan.LEVEL, "text": plan.EXPLANATION, "design_ref": "DESIGN.md section 5 %s and section 9" % pid},
        "level_note": "under contract: %s. assumed: %s" % (', '.join(funcs) if funcs else 'none yet', '; '.join(plan.ASSUMPTIONS) if plan.ASSUMPTIONS else 'see evidence.assumptions'),
    })
m['checks'] = checks
m['not_applicable'] = []
json.dump(m, open(os.path.join(HERE, 'MANIFEST.json'), 'w'), indent=1)
print('MANIFEST.json regenerated: %d checks' % len(checks))
