#!/bin/bash
# tools/try_seeded_all.sh [jobs] - every seeded change in seeded/ against its property's quick check, each in its own scratch
# worktree (removed afterwards); one line per change: exit code of the check, and which layer reported
J="${1:-3}"
OUT=/tmp/w/seeded_all; mkdir -p $OUT
one() {
  D="$1"; N=$(basename $D); SCR=/tmp/scr_$N
  PID=$(python3 -c "import json;print(json.load(open('$D/meta.json'))['property'])")
  git -C /repo worktree add -q --detach $SCR HEAD 2>/dev/null
  if ! git -C $SCR apply $D/patch.diff 2>/dev/null; then echo "$N $PID patch-does-not-apply"; git -C /repo worktree remove --force $SCR; return; fi
  (cd /verif && VERIF_REPO=$SCR VERIF_REPLAY_DIR=$OUT/replays_$N ./check $PID --tier quick > $OUT/$N.log 2>&1); rc=$?
  ded=$(grep -c "^VIOLATION" $OUT/$N.log); bnd=$(grep "^VIOLATION" $OUT/$N.log | grep -c "bounded"); und=$(grep -c UNDECIDED $OUT/$N.log)
  echo "$N $PID exit=$rc violations=$ded (bounded-layer $bnd, deductive $((ded-bnd))) undecided=$und"
  git -C /repo worktree remove --force $SCR
}
export -f one; export OUT
ls -d /verif/seeded/${SEEDED_GLOB:-C*} | xargs -P $J -I{} bash -c 'one {}'
git -C /repo worktree prune
