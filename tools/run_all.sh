#!/bin/bash
# tools/run_all.sh [tier] - run every registered check against /repo, print exit codes (refreshes evidence/)
TIER="${1:-quick}"
cd "$(dirname "$0")/.."
for i in $(seq -w 1 20); do
  p=C$i
  s=$(date +%s)
  ./check $p --tier $TIER > .cache/run_$p.log 2>&1
  rc=$?
  echo "$p exit=$rc $(( $(date +%s) - s ))s $(grep -E 'obligations=.*discharged' .cache/run_$p.log | tail -1)"
  grep -E "^VIOLATION|UNDECIDED|checker error" .cache/run_$p.log | head -3
done
