import json,sys
props={json.loads(l)['id']:json.loads(l) for l in open('/verif/properties.jsonl')}
def prompt(pid, wt):
    p=props[pid]
    return f"""You are strengthening one run-time oracle ("bounded driver") of a verification harness for the Python package tangermeme (PyTorch genomics toolkit; the repository is at /repo, read-only for you). The driver is /verif/bounded/{pid}.py; its API is described in /verif/vf/bounded.py (BoundedReport: rep.case / rep.violation / rep.left / rep.out_of_time / rep.note / rep.mark_exhaustive; the module exposes SCOPE, run(rep), replay(case)). It calls the REAL tangermeme functions on enumerated and seeded-random inputs and compares against an independent oracle written from the property statement.

The property ({pid}): {p['title']}
STATEMENT: {p['statement']}
QUANTIFIER: {p['quantifier']['text']}
Anchored code: {json.dumps(p['anchors'])[:1500]}

Goal: find what the driver does NOT exercise or deliberately tolerates, relative to the statement and the quantifier, and extend it - so that a plausible but wrong refactoring or optimisation of the anchored code (one that still passes the repository's tests) is more likely to be caught. Typical gaps: an option or argument combination never passed (rarely used keyword arguments, non-default sizes/parities/strides, dtype variants, tuple vs tensor outputs, empty / length-1 / boundary cases, ties, duplicate entries, unsorted input order, call histories on shared state, more than one example/sequence/motif where only one is used, values at the edges of the stated ranges), a clause of the statement that no assertion checks, an oracle that is too lenient (accepts two behaviours where the statement allows one), time spent on near-duplicate cases while a whole input class is missing.

Rules:
 - Edit ONLY /verif/bounded/{pid}.py (plain Python; keep its structure: SCOPE texts updated to describe the new coverage, run(rep), replay(case) able to re-run every new kind of case). Do not touch any other file under /verif or /repo. Do not commit anything.
 - The driver must report ZERO violations on the unchanged repository: `cd /verif && ./bcheck {pid} --tier quick` (prints a JSON summary and `VIOLATION ...` lines if any; takes about 1-2 min). If a new assertion fires on the unchanged tree, decide carefully: if the statement really demands what you assert and the code breaks it with a concrete input, keep the case but put it behind a clearly named module-level flag set to False and describe it in a comment block at the top titled POSSIBLE DEFECT (with the input) - do not leave a firing assertion enabled; if your oracle was wrong, fix the oracle. Never assert more than the statement says.
 - Keep the quick tier within its time budget (rep.left() / rep.out_of_time(); the budget is 60 s wall in quick, 600 s in thorough): put cheap, high-yield new cases early; make deterministic use of rep.rng (seeded) only.
 - The machine is shared: call torch.set_num_threads(1) where torch is used heavily; do not start more than one bcheck at a time.
 - Known property-breaking changes are in /verif/seeded/{pid}-*/ (patch.diff, meta.json). Your scratch git worktree {wt} (a checkout of /repo HEAD) is for applying them: `git -C {wt} apply <patch>`; `cd /verif && VERIF_REPO={wt} ./bcheck {pid} --tier quick` must print VIOLATION lines for each of them; `git -C {wt} checkout -- .` afterwards. Also invent 3-5 further plausible breaking edits of your own in {wt} (one at a time, never in /repo) targeting the gaps you found, and check that the extended driver catches them while the old behaviour would have missed them; list them in your reply.
Reply with: the gaps found, what you added, the evaluation counts before/after on the unchanged tree, and the breaking edits tried with caught / not caught.
"""
if __name__=='__main__':
    print(prompt(sys.argv[1], sys.argv[2]))
