import sys, time
sys.path.insert(0,'/verif')
from vf.world import World
from vf.contract import verify_fragment
from vf import smt
import importlib
from collections import Counter
mods=sys.argv[1].split(','); key=sys.argv[2]
w=World()
for m in mods: importlib.import_module(m).register(w)
rep=verify_fragment(w, w.contracts[key])
print('paths',rep.paths,'obls',len(rep.obligations),rep.unsupported[:4])
smt.discharge(rep.obligations)
print(Counter(o.result for o in rep.obligations))
for o in rep.obligations:
    if o.result!='unsat' or '-v' in sys.argv: print(o.result,o.name,str(o.goal)[:200].replace('\n',' '))
