import sys, time, importlib
sys.path.insert(0,'/verif')
from vf.world import World
from vf.contract import verify_function
from vf import smt
import z3
mods=sys.argv[1].split(','); name=sys.argv[2]; cfg=sys.argv[3]; pat=sys.argv[4]; which=int(sys.argv[5]) if len(sys.argv)>5 else 0
w=World()
for m in mods: importlib.import_module(m).register(w)
rep=verify_function(w, w.contracts[name], only_cfg=cfg)
obs=[o for o in rep.obligations if pat in o.name]
print(len(obs),'matching'); 
o=obs[which]
print(o.name)
print('HYPS:')
for h in o.hyps: print('  ', str(h)[:3000])
print('GOAL:'); print(o.goal)
t=time.time()
open('/tmp/w/ob.smt2','w').write(smt.to_smt2(o))
