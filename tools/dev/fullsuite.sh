#!/bin/bash
# run the full test suite on a scratch worktree with a seeded patch applied
D=$1; W=/tmp/fs_$(basename $D)
git -C /repo worktree add -q --detach $W HEAD
git -C $W apply $D/patch.diff
cd $W && PYTHONPATH=$W timeout 3000 /venv/bin/python -m pytest -q -p no:cacheprovider --timeout=1800 --continue-on-collection-errors > $D/fullsuite.log 2>&1
grep -E "^FAILED" $D/fullsuite.log | sed 's/ - .*//' | sort > $D/fullsuite_failed.txt
tail -1 $D/fullsuite.log
cd /; git -C /repo worktree remove --force $W
