import sys, importlib, json
sys.path.insert(0,'/verif')
from vf.world import World
from vf.contract import verify_fragment
from vf import smt
from vf.mutate import *
from collections import Counter
spec=json.load(open(sys.argv[1]))
for q,key,old,new in spec['mutants']:
    w=World()
    for mod in spec['modules']: importlib.import_module(mod).register(w)
    f,node=mutated_world_function(w,q,old,new)
    w.bind=MutantBinder(w.bind,q,f,node)
    rep=verify_fragment(w,w.contracts[key]); smt.discharge(rep.obligations)
    bad=[o for o in rep.obligations if o.result!='unsat']
    print(key.split('.')[-1], repr(new)[:50], 'KILLED' if bad else ('UNSUPPORTED' if rep.unsupported else 'SURVIVED'), dict(Counter(o.result for o in rep.obligations)), rep.unsupported[:1], sorted(set(o.name.split('/')[-1] for o in bad))[:4])
