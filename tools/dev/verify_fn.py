import sys, time
sys.path.insert(0,'/verif')
from vf.world import World
from vf.contract import verify_function
from vf import smt
import importlib
from collections import Counter
mods=sys.argv[1].split(','); names=sys.argv[2].split(','); only=sys.argv[3] if len(sys.argv)>3 else None
w=World()
for m in mods: importlib.import_module(m).register(w)
for name in names:
    t=time.time()
    rep=verify_function(w, w.contracts[name], only_cfg=only)
    print(name,'cfgs',len(rep.configs),'paths',rep.paths,'ret',rep.returns,'raise',rep.raises,'obls',len(rep.obligations),'gen %.1fs'%(time.time()-t), 'unsupported',rep.unsupported[:6])
    t=time.time(); smt.discharge(rep.obligations)
    print(' discharge %.1fs'%(time.time()-t), Counter(o.result for o in rep.obligations))
    for o in rep.obligations:
        if o.result!='unsat': print('   ',o.result,o.name,o.detail, str(o.goal)[:300].replace('\n',' '))
    if '-v' in sys.argv:
        for o in rep.obligations: print('   ',o.result,o.backend,'%.2f'%o.seconds,o.name)
