#!/bin/bash
# tools/dev/import_seeded.sh <Cxx> <worktree> <k> - confirm a sub-agent's seeded change (demo fails with it, passes without) and keep it as seeded/<Cxx>-<k>
PID="$1"; WT="$2"; K="$3"; D=/verif/seeded/$PID-$K
[ -f $WT/seeded_out/patch.diff ] || { echo "$PID: no patch"; exit 2; }
mkdir -p $D && cp $WT/seeded_out/patch.diff $WT/seeded_out/demo.py $WT/seeded_out/meta.json $D/
git -C $WT checkout -q -- tangermeme
(cd /tmp && PYTHONPATH=$WT timeout 900 /venv/bin/python $D/demo.py > /tmp/w/imp_$PID.u.log 2>&1); u=$?
git -C $WT apply $D/patch.diff || { echo "$PID: patch does not apply"; exit 2; }
(cd /tmp && PYTHONPATH=$WT timeout 900 /venv/bin/python $D/demo.py > /tmp/w/imp_$PID.c.log 2>&1); c=$?
echo "$PID-$K demo: unchanged exit=$u changed exit=$c  ($(python3 -c "import json;print(json.load(open('$D/meta.json'))['summary'][:160])"))"
