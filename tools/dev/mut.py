import sys, time, importlib, json
sys.path.insert(0,'/verif')
from vf.world import World
from vf.contract import verify_function
from vf import smt
from vf.mutate import *
from collections import Counter
spec=json.load(open(sys.argv[1]))
for m in spec['mutants']:
    q,old,new=m
    w=World()
    for mod in spec['modules']: importlib.import_module(mod).register(w)
    f,node=mutated_world_function(w,q,old,new)
    w.bind=MutantBinder(w.bind,q,f,node)
    t=time.time()
    rep=verify_function(w,w.contracts[spec.get('verify',q)]); smt.discharge(rep.obligations)
    bad=[o for o in rep.obligations if o.result!='unsat']
    print(q.split('.')[-1], repr(new)[:60], 'KILLED' if bad else ('UNSUPPORTED' if rep.unsupported else 'SURVIVED'), dict(Counter(o.result for o in rep.obligations)), rep.unsupported[:1], sorted(set(o.name.split('/',1)[1].split('/')[-1] for o in bad))[:4], '%.0fs'%(time.time()-t), flush=True)
