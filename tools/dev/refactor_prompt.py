import json,sys
props={json.loads(l)['id']:json.loads(l) for l in open('/verif/properties.jsonl')}
def prompt(pid, wt):
    p=props[pid]
    return f"""You are helping to test a verification tool for FALSE ALARMS. You have your own scratch git worktree of the Python package tangermeme (a PyTorch genomics toolkit) at {wt} (a checkout of its current HEAD). Work ONLY inside {wt}. Never touch /repo or /verif, and do not read anything under /verif.

A semantic property of the package ({pid}): {p['title']}

STATEMENT: {p['statement']}

Relevant files: {p['anchors']['files']}

Your task: produce THREE independent, realistic, BEHAVIOUR-PRESERVING changes to the code that this property is about (the files above, under {wt}/tangermeme) - the kind of harmless edit a maintainer merges every week. The property must still hold after each change, for every input, and the observable behaviour of every public function must be unchanged (same results bit for bit where the code is deterministic, same exceptions on the same inputs, same in-place/no-in-place behaviour on arguments, same random stream consumption where seeds are used).
  patch1: cosmetic / local: rename local variables, reorder statements that are independent of each other, add or remove a temporary, rewrite comments, `a if c else b` <-> if/else, `x += 1` <-> `x = x + 1`.
  patch2: structural: express the same computation with a different but equivalent construct (e.g. a different but equivalent loop form, an equivalent torch/numpy call, an extracted private helper function, a merged or split condition, early return vs nested if).
  patch3: a correct optimisation or robustness tweak that does not change results (e.g. avoid a redundant copy that is provably not needed, hoist an invariant computation out of a loop, preallocate, compute a quantity once).
Each patch is made from the clean HEAD (not stacked): make the edit, save `git -C {wt} diff -- tangermeme > {wt}/refactor_out/patchN.diff`, then `git -C {wt} checkout -- tangermeme` before the next one. Keep each patch focused on the functions that implement the property (10-60 changed lines is typical).

For each patch verify, with the patch applied: (1) `cd {wt} && PYTHONPATH={wt} /venv/bin/python -m pytest -q -p no:cacheprovider tests/<the test files that touch the code you changed>` passes exactly as on the clean tree (the 7 test_captum_* tests and 2 test_cmd_tomtom* tests fail on the clean tree for offline reasons; tests/tools/test_tomtom.py::test_tomtom_homomotifs is flaky; ignore those); (2) write a small script {wt}/refactor_out/equivN.py that compares the patched functions against the ORIGINAL implementation on a few hundred random and edge-case inputs (import the original from a pristine copy: `git -C {wt} show HEAD:tangermeme/<file>.py > {wt}/refactor_out/orig_<file>.py` and load it with importlib under another module name; for modules with relative imports set `__package__ = 'tangermeme'` / load via importlib.util.spec_from_file_location with name 'tangermeme.<something>_orig' after importing tangermeme) and prints EQUIVALENT or the first difference; it must print EQUIVALENT. Always run python as `OMP_NUM_THREADS=1 PYTHONPATH={wt} /venv/bin/python` (the machine is shared: call torch.set_num_threads(1) in your scripts) and use device="cpu". NEVER use git stash. Do not run the full test suite (the machine is shared); the relevant test files are enough.

Deliverables in {wt}/refactor_out/: patch1.diff, patch2.diff, patch3.diff, equiv1.py, equiv2.py, equiv3.py, and notes.json = {{"property": "{pid}", "patches": [{{"file": "patch1.diff", "what": "<one sentence>", "tests": "<command and result>"}}, ...]}}. Leave the worktree clean (git checkout) at the end. Reply with a short summary of the three changes.
"""
if __name__=='__main__':
    print(prompt(sys.argv[1], sys.argv[2]))
