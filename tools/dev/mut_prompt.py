import json,sys
props={json.loads(l)['id']:json.loads(l) for l in open('/verif/properties.jsonl')}
def prompt(pid, wt):
    p=props[pid]
    return f"""You are testing how well a semantic property of the Python package tangermeme (a PyTorch genomics toolkit) is guarded. You have your own scratch git worktree of the repository at {wt} (a checkout of its current HEAD). Work ONLY inside {wt} (and scratch files under {wt}/../{pid}_tmp if you need them). Never touch /repo or /verif, and do not read anything under /verif.

The property ({pid}): {p['title']}

STATEMENT: {p['statement']}

QUANTIFIER (the inputs / configurations it ranges over): {p['quantifier']['text']}

Relevant files: {p['anchors']['files']}

Your task: devise ONE realistic change to the tangermeme source under {wt}/tangermeme that BREAKS this property while
  (1) the package still imports / compiles, and
  (2) the existing test suite still passes exactly as before: run  cd {wt} && PYTHONPATH={wt} /venv/bin/python -m pytest -q -p no:cacheprovider tests/<relevant test files>  (run at least the test files that touch the code you change; the full suite takes ~3 minutes: `cd {wt} && PYTHONPATH={wt} /venv/bin/python -m pytest -q -p no:cacheprovider --timeout=900`; 9 tests fail already on the unchanged tree for offline reasons - test_captum_* (7), test_cmd_tomtom* (2) - those do not count (tests/tools/test_tomtom.py::test_tomtom_homomotifs is flaky on the unchanged tree, ignore it); nothing else may fail), and
  (3) the breakage needs something specific to manifest - an unusual input, a particular configuration or size relation (e.g. batch size not dividing, window parity, a boundary position, a rarely used argument combination, a multi-step sequence of calls, two cooperating code sites that each look fine alone, a particular thread count / history of earlier calls) - NOT something that ordinary use or the obvious happy path would expose at once. Think like a plausible but wrong refactoring, optimisation or "simplification" a maintainer might merge.

IMPORTANT: always run python with PYTHONPATH={wt} so that `import tangermeme` picks up YOUR worktree (check with: PYTHONPATH={wt} /venv/bin/python -c "import tangermeme; print(tangermeme.__file__)"). Use device='cpu' for tangermeme calls.

Deliverables (write them into {wt}/seeded_out/):
  - patch.diff : `git -C {wt} diff -- tangermeme > {wt}/seeded_out/patch.diff` (source changes only, no tests, no caches)
  - demo.py    : a small self-contained program (plain python, run as `PYTHONPATH=<tree> /venv/bin/python demo.py`) that exits 0 and prints PASS when the property holds on the tree it runs against and exits 1 and prints FAIL (with the concrete violating input/output) when it does not. It must PASS on the unchanged tree and FAIL on your changed tree. It must judge the property from its statement (an independent computation), not compare against a stored copy of the old code.
  - meta.json  : {{"property": "{pid}", "summary": "<one sentence: what was changed>", "needs": "<what specific input/configuration/sequence is needed for the breakage to manifest>", "tests_run": "<the pytest command(s) you ran and their pass/fail counts>", "files_changed": [...]}}

Verify before you finish: (a) demo.py FAILS with your change applied, (b) NEVER use git stash (it is shared between worktrees); instead `git -C {wt} apply -R {wt}/seeded_out/patch.diff`, check demo.py PASSES on the unchanged tree, then `git -C {wt} apply {wt}/seeded_out/patch.diff`, (c) the relevant existing tests pass with your change. Leave the worktree with your change applied. Reply with a short summary of the change, what it needs to manifest, and the exact test command results.
"""
if __name__=='__main__':
    print(prompt(sys.argv[1], sys.argv[2]))
