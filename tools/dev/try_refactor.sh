#!/bin/bash
# tools/dev/try_refactor.sh <dir with patchN.diff + notes.json> <Cxx> - behaviour-preserving patches must leave the check at exit 0
D="$1"; PID="$2"; SCR=/tmp/scr2
for P in "$D"/patch*.diff; do
  git -C $SCR checkout -q -- . ; git -C $SCR checkout -q --detach $(git -C /repo rev-parse HEAD)
  git -C $SCR apply "$P" || { echo "$P does not apply"; continue; }
  cd /verif && VERIF_REPO=$SCR ./check $PID --tier quick > /tmp/w/refactor_check.log 2>&1; rc=$?
  echo "$(basename $D)/$(basename $P) $PID exit=$rc $(grep -E 'obligations=.*discharged' /tmp/w/refactor_check.log | tail -1)"
  grep -E "^VIOLATION|checker error" -A1 /tmp/w/refactor_check.log | head -6 | cut -c1-300
  grep -c UNDECIDED /tmp/w/refactor_check.log | sed 's/^/   undecided lines: /'
done
git -C $SCR checkout -q -- .
rm -rf /verif/replays
