import sys, time, importlib, traceback
sys.path.insert(0,'/verif')
from vf.world import World
from vf.contract import verify_function
from vf import smt
from collections import Counter
mods=sys.argv[1].split(','); name=sys.argv[2]; cfg=sys.argv[3]
w=World()
for m in mods: importlib.import_module(m).register(w)
c=w.contracts[name]
for scope in c.scopes({}):
    t=time.time()
    try:
        rep=verify_function(w,c,only_cfg=cfg,scope=scope)
    except Exception:
        traceback.print_exc(); continue
    smt.discharge(rep.obligations)
    print(scope,'paths',rep.paths,'obls',len(rep.obligations),Counter(o.result for o in rep.obligations),'unsupported',rep.unsupported[:3],'%.0fs'%(time.time()-t))
    for o in rep.obligations:
        if o.result!='unsat': print('   ',o.result,o.kind,o.name)
