#!/bin/bash
# tools/try_seeded.sh <seeded dir> [tier]  - apply a seeded change to a scratch worktree, confirm its demo, run our check against it
D="$1"; TIER="${2:-quick}"
PID=$(python3 -c "import json;print(json.load(open('$D/meta.json'))['property'])")
SCR=/tmp/scr
if [ ! -d $SCR ]; then git -C /repo worktree add -q --detach $SCR HEAD; fi
git -C $SCR checkout -q -- . ; git -C $SCR checkout -q --detach $(git -C /repo rev-parse HEAD)
echo "== $D ($PID) demo on unchanged tree:"; (cd /tmp && PYTHONPATH=$SCR timeout 900 /venv/bin/python $D/demo.py 2>&1 | tail -2; echo "exit=${PIPESTATUS[0]}")
git -C $SCR apply $D/patch.diff || { echo "patch does not apply"; exit 2; }
echo "== demo on changed tree:"; (cd /tmp && PYTHONPATH=$SCR timeout 900 /venv/bin/python $D/demo.py 2>&1 | tail -3; echo "exit=${PIPESTATUS[0]}")
echo "== our check:"; cd /verif && VERIF_REPO=$SCR ./check $PID --tier $TIER > /tmp/w/seeded_check.log 2>&1; echo "check exit=$?"
grep -E "obligations=|UNDECIDED" /tmp/w/seeded_check.log | head -5
grep -A1 "^VIOLATION" /tmp/w/seeded_check.log | head -12 | cut -c1-260
git -C $SCR checkout -q -- .
rm -rf /verif/replays
