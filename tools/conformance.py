#!/usr/bin/env python3
"""tools/conformance.py - differential check of the library theory (vf/lib.py) against the real torch / numpy.

Every rule of vf/lib.py can be evaluated in the concrete interpretation (real tensors wrapped as Tn, NullCtx).
For each operation below the rule's result on random small inputs is materialised and compared with what the
real library computes (values, shape; exceptions must agree in kind: raise vs return).  A disagreement means an
axiom of the engine misstates the library - the kind of error that could make a correct rewrite of the code look
like a violation or a wrong one look fine.  Exit 0 = all agree.  (DESIGN 2.4 / 9.8)"""
import itertools
import os
import random
import sys
import warnings

warnings.filterwarnings('ignore')
HERE = os.path.dirname(os.path.dirname(os.path.abspath(__file__)))
sys.path.insert(0, HERE)
import numpy
import torch

from vf import lib as L
from vf import ops as O
from vf.tensor import Tn, Unsupported
from vf.values import SymRaise

FR = L.NullFrame()


def wrap(x):
    if isinstance(x, (torch.Tensor, numpy.ndarray)):
        return Tn.of_real(x.clone() if isinstance(x, torch.Tensor) else x.copy())
    if isinstance(x, (list, tuple)):
        return type(x)(wrap(y) for y in x)
    return x


def materialise(t):
    if isinstance(t, Tn):
        shp = [int(O.simp(d)) for d in t.shape]
        out = numpy.zeros(shp, dtype='float64')
        for idx in itertools.product(*[range(d) for d in shp]):
            v = t.elem(*idx)
            v = O.simp(v)
            if isinstance(v, bool):
                v = float(v)
            out[idx] = float(v)
        return out
    if isinstance(t, (list, tuple)):
        return [materialise(x) for x in t]
    if isinstance(t, (int, float, bool)):
        return numpy.array(float(t))
    v = O.simp(t)
    return numpy.array(float(v))


def real(x):
    if isinstance(x, torch.Tensor):
        return x.detach().double().numpy()
    if isinstance(x, numpy.ndarray):
        return x.astype('float64')
    if isinstance(x, (list, tuple)):
        return [real(y) for y in x]
    return numpy.array(float(x))


def same(a, b):
    if isinstance(a, list) or isinstance(b, list):
        return isinstance(a, list) and isinstance(b, list) and len(a) == len(b) and all(same(x, y) for x, y in zip(a, b))
    return a.shape == b.shape and numpy.allclose(a, b, rtol=1e-9, atol=1e-9, equal_nan=True)


RNG = random.Random(int(os.environ.get('VERIF_SEED', '0')))


def rt(*shape, kind='int'):
    g = torch.Generator().manual_seed(RNG.randrange(10 ** 6))
    if kind == 'int':
        return torch.randint(-3, 4, shape, generator=g)
    if kind == 'real':
        return (torch.randint(-8, 9, shape, generator=g).double() / 4)
    if kind == 'bool':
        return torch.randint(0, 2, shape, generator=g).bool()


def dims(rank, lo=1, hi=4):
    return [RNG.randint(lo, hi) for _ in range(rank)]


CASES = []


def case(name):
    def deco(f):
        CASES.append((name, f))
        return f
    return deco


def lib(name):
    return L.LIB[name]


def meth(name):
    return L.METHODS[name]


# each case returns (symbolic_thunk, real_thunk)
@case('torch.cat')
def _():
    d = RNG.randint(0, 1)
    a, b = rt(2, 3, kind='real'), rt(2 if d == 1 else RNG.randint(1, 3), 3 if d == 0 else RNG.randint(1, 3), kind='real')
    return (lambda: lib('torch.cat')(FR, [wrap(a), wrap(b)], d)), (lambda: torch.cat([a, b], d))


@case('torch.stack')
def _():
    a, b = rt(2, 3), rt(2, 3)
    d = RNG.randint(0, 2)
    return (lambda: lib('torch.stack')(FR, [wrap(a), wrap(b)], d)), (lambda: torch.stack([a, b], d))


@case('Tn.repeat')
def _():
    a = rt(*dims(2))
    reps = [RNG.randint(1, 3) for _ in range(RNG.choice([2, 3]))]
    return (lambda: meth('Tn.repeat')(FR, wrap(a), *reps)), (lambda: a.repeat(*reps))


@case('Tn.repeat_interleave')
def _():
    a = rt(*dims(2))
    n, d = RNG.randint(1, 3), RNG.randint(0, 1)
    return (lambda: meth('Tn.repeat_interleave')(FR, wrap(a), n, dim=d)), (lambda: a.repeat_interleave(n, dim=d))


@case('Tn.reshape')
def _():
    a = rt(2, 3, 4)
    shp = RNG.choice([(6, 4), (2, 12), (24,), (-1, 4), (2, -1), (3, 2, 4), (4, 3, 2)])
    return (lambda: meth('Tn.reshape')(FR, wrap(a), *shp)), (lambda: a.reshape(*shp))


@case('Tn.permute')
def _():
    a = rt(2, 3, 4)
    p = RNG.choice(list(itertools.permutations(range(3))))
    return (lambda: meth('Tn.permute')(FR, wrap(a), *p)), (lambda: a.permute(*p))


@case('Tn.transpose')
def _():
    a = rt(2, 3, 4)
    i, j = RNG.sample(range(3), 2)
    return (lambda: meth('Tn.transpose')(FR, wrap(a), i, j)), (lambda: a.transpose(i, j))


@case('Tn.unsqueeze')
def _():
    a = rt(2, 3)
    d = RNG.randint(-3, 2)
    return (lambda: meth('Tn.unsqueeze')(FR, wrap(a), d)), (lambda: a.unsqueeze(d))


@case('Tn.flip')
def _():
    a = rt(2, 3, 2)
    d = RNG.choice([(0,), (1,), (-1,), (0, 2)])
    return (lambda: meth('Tn.flip')(FR, wrap(a), d)), (lambda: torch.flip(a, dims=d))


@case('Tn.unfold')
def _():
    a = rt(2, RNG.randint(3, 8), kind='real')
    size = RNG.randint(1, 3)
    step = RNG.randint(1, 3)
    return (lambda: meth('Tn.unfold')(FR, wrap(a), -1, size, step)), (lambda: a.unfold(-1, size, step))


@case('Tn.sum')
def _():
    a = rt(2, 3, 2, kind='real')
    d = RNG.choice([None, 0, 1, -1, (1, 2)])
    return (lambda: meth('Tn.sum')(FR, wrap(a), dim=d) if d is not None else meth('Tn.sum')(FR, wrap(a))), \
           (lambda: a.sum(dim=d) if d is not None else a.sum())


@case('Tn.mean')
def _():
    a = rt(2, 3, 2, kind='real')
    d = RNG.choice([0, 1, -1, (1, 2)])
    k = RNG.choice([False, True])
    return (lambda: meth('Tn.mean')(FR, wrap(a), dim=d, keepdim=k)), (lambda: a.mean(dim=d, keepdim=k))


@case('torch.cumsum')
def _():
    a = rt(2, 4, kind='real')
    d = RNG.choice([0, 1, -1])
    return (lambda: lib('torch.cumsum')(FR, wrap(a), dim=d)), (lambda: torch.cumsum(a, dim=d))


@case('torch.where')
def _():
    c, a, b = rt(2, 3, kind='bool'), rt(2, 3, kind='real'), rt(2, 3, kind='real')
    return (lambda: lib('torch.where')(FR, wrap(c), wrap(a), wrap(b))), (lambda: torch.where(c, a, b))


@case('torch.chunk')
def _():
    a = rt(RNG.choice([2, 4, 5]), 3)
    return (lambda: list(lib('torch.chunk')(FR, wrap(a), 2))), (lambda: list(torch.chunk(a, 2)))


@case('torch.sub(*chunk)')
def _():
    a = rt(4, 2, kind='real')
    return (lambda: lib('torch.sub')(FR, *lib('torch.chunk')(FR, wrap(a), 2))), (lambda: torch.sub(*torch.chunk(a, 2)))


@case('torch.nn.functional.conv1d')
def _():
    N, C, Lx, Oc, K = RNG.randint(1, 2), RNG.randint(1, 3), RNG.randint(1, 5), RNG.randint(1, 2), RNG.randint(1, 4)
    x, w_ = rt(N, C, Lx, kind='real'), rt(Oc, RNG.choice([C, C, C + 1]), K, kind='real')
    return (lambda: lib('torch.nn.functional.conv1d')(FR, wrap(x), wrap(w_))), (lambda: torch.nn.functional.conv1d(x, w_))


@case('int ** arange')
def _():
    n, k = RNG.randint(1, 4), RNG.randint(1, 4)
    a = torch.arange(k)
    return (lambda: lib('binop')(FR, 'Pow', n, wrap(a))), (lambda: n ** a)


@case('torch.maximum')
def _():
    a, b = rt(2, 3, kind='real'), rt(2, 3, kind='real')
    return (lambda: lib('torch.maximum')(FR, wrap(a), wrap(b))), (lambda: torch.maximum(a, b))


@case('torch.abs')
def _():
    a = rt(2, 3, kind='real')
    return (lambda: lib('torch.abs')(FR, wrap(a))), (lambda: torch.abs(a))


@case('basic slicing')
def _():
    a = rt(3, 5, kind='real')
    s0 = slice(RNG.choice([None, 0, 1, -2]), RNG.choice([None, 2, -1, 7]))
    s1 = slice(RNG.choice([None, 0, 2, -3, 6]), RNG.choice([None, 1, 4, -1, 9]))
    return (lambda: lib('getitem')(FR, wrap(a), (s0, s1))), (lambda: a[s0, s1])


@case('negative int index')
def _():
    a = rt(3, 4)
    i = RNG.randint(-3, 2)
    return (lambda: lib('getitem')(FR, wrap(a), (i,))), (lambda: a[i])


@case('advanced index (tensor)')
def _():
    a = rt(4, 3, kind='real')
    idx = torch.tensor([RNG.randint(-4, 3) for _ in range(RNG.randint(1, 4))])
    return (lambda: lib('getitem')(FR, wrap(a), wrap(idx))), (lambda: a[idx])


@case('advanced index (two tensors)')
def _():
    a = rt(3, 4, 2, kind='real')
    n = RNG.randint(1, 3)
    i0 = torch.tensor([RNG.randint(0, 2) for _ in range(n)])
    i1 = torch.tensor([RNG.randint(0, 3) for _ in range(n)])
    return (lambda: lib('getitem')(FR, wrap(a), (wrap(i0), wrap(i1)))), (lambda: a[i0, i1])


@case('advanced store (scalar)')
def _():
    a = rt(3, 4, 2)
    n = RNG.randint(1, 3)
    i0 = torch.tensor([RNG.randint(0, 2) for _ in range(n)])
    i2 = torch.tensor([RNG.randint(0, 1) for _ in range(n)])

    def sym():
        t = wrap(a)
        lib('setitem')(FR, t, (wrap(i0), slice(None), wrap(i2)), 7)
        return t

    def re():
        b = a.clone()
        b[i0, :, i2] = 7
        return b
    return sym, re


@case('broadcast store')
def _():
    a = rt(2, 3, 4)
    v = rt(RNG.choice([1, 2]), 1, 4)

    def sym():
        t = wrap(a)
        lib('setitem')(FR, t, (slice(None), slice(0, 1)), wrap(v))
        return t

    def re():
        b = a.clone()
        b[:, 0:1] = v
        return b
    return sym, re


@case('scatter_add_ rank 1')
def _():
    y = torch.zeros(5, dtype=torch.float64)
    n = RNG.randint(1, 6)
    idx = torch.tensor([RNG.randint(0, 4) for _ in range(n)])
    src = rt(n + RNG.randint(0, 2), kind='real')

    def sym():
        t = wrap(y)
        meth('Tn.scatter_add_')(FR, t, 0, wrap(idx), wrap(src))
        return t
    return sym, (lambda: y.clone().scatter_add_(0, idx, src))


@case('scatter_add_ last dim')
def _():
    y = torch.zeros(2, 2, 4, dtype=torch.float64)
    R = RNG.randint(1, 3)
    g = torch.Generator().manual_seed(RNG.randrange(10 ** 6))
    idx = torch.randint(0, 4, (2, 2, R), generator=g)
    src = rt(2, 2, R + RNG.randint(0, 1), kind='real')

    def sym():
        t = wrap(y)
        meth('Tn.scatter_add_')(FR, t, 2, wrap(idx), wrap(src))
        return t
    return sym, (lambda: y.clone().scatter_add_(2, idx, src))


@case('Tn.flatten(start)')
def _():
    a = rt(2, 3, 2)
    return (lambda: meth('Tn.flatten')(FR, wrap(a), 2)), (lambda: a.flatten(2))


@case('Tn.flatten()')
def _():
    a = rt(2, 3, 2)
    return (lambda: meth('Tn.flatten')(FR, wrap(a))), (lambda: a.flatten())


@case('numpy.nansum')
def _():
    a = rt(3, 4, kind='real').numpy()
    return (lambda: lib('numpy.nansum')(FR, wrap(a), axis=-1)), (lambda: numpy.nansum(a, axis=-1))


@case('builtins.range')
def _():
    lo, hi, st = RNG.randint(-2, 3), RNG.randint(-1, 7), RNG.choice([1, 2, 3])
    return (lambda: [numpy.array(float(x)) for x in lib('builtins.range')(FR, lo, hi, st)]), (lambda: [numpy.array(float(x)) for x in range(lo, hi, st)])


@case('elementwise arithmetic with broadcasting')
def _():
    a, b = rt(2, 1, 3, kind='real'), rt(3, 1, kind='real')
    op = RNG.choice(['Add', 'Sub', 'Mult'])
    import operator
    f = {'Add': operator.add, 'Sub': operator.sub, 'Mult': operator.mul}[op]
    return (lambda: lib('binop')(FR, op, wrap(a), wrap(b))), (lambda: f(a, b))


# ---- axiomatised operations (uninterpreted results constrained by assumed relations): the relation itself is
# ---- restated over the real library's output
AXIOMS = []


def axiom(name):
    def deco(f):
        AXIOMS.append((name, f))
        return f
    return deco


@axiom('argsort: permutation with non-decreasing values')
def _():
    for libname in ('np', 'torch'):
        x = rt(RNG.randint(0, 7), kind='real')
        p = numpy.argsort(x.numpy()) if libname == 'np' else torch.argsort(x).numpy()
        n = len(x)
        assert sorted(p.tolist()) == list(range(n))
        assert all(x[p[a]] <= x[p[a + 1]] for a in range(n - 1))


@axiom('argmin/argmax: first index of an extremal element; empty raises')
def _():
    x = rt(RNG.randint(1, 6))
    for f, better in ((torch.argmin, lambda u, v: u < v), (torch.argmax, lambda u, v: u > v)):
        a = int(f(x))
        assert 0 <= a < len(x) and not any(better(x[i], x[a]) for i in range(len(x))) and all(better(x[a], x[i]) for i in range(a))
    xn = x.numpy()
    assert int(numpy.argmin(xn)) == int(torch.argmin(x)) and int(numpy.argmax(xn)) == int(torch.argmax(x))
    for f, e in ((lambda: torch.argmin(torch.zeros(0)), (RuntimeError, IndexError)), (lambda: numpy.argmin(numpy.zeros(0)), ValueError)):
        try:
            f()
            raise AssertionError('argmin of an empty vector returned')
        except e:
            pass


@axiom('argmax / argmin along a dimension: per slice the first index of an extremal element (torch and numpy)')
def _():
    x = rt(2, RNG.randint(1, 4), 3)
    d = RNG.randint(0, 2)
    for f, g, better in ((torch.argmax, numpy.argmax, lambda u, v: u > v), (torch.argmin, numpy.argmin, lambda u, v: u < v)):
        a = f(x, dim=d)
        assert torch.equal(a, torch.from_numpy(g(x.numpy(), axis=d)))
        xs = x.movedim(d, -1).reshape(-1, x.shape[d])
        for row, ai in zip(xs, a.flatten()):
            ai = int(ai)
            assert not any(better(row[k], row[ai]) for k in range(len(row))) and all(better(row[ai], row[k]) for k in range(ai))


@axiom('max/min: bound every element and are attained (with dim: per slice, index returned attains)')
def _():
    x = rt(2, RNG.randint(1, 4), 3, kind='real')
    assert all(v <= x.max() for v in x.flatten()) and (x == x.max()).any()
    assert all(v >= x.min() for v in x.flatten()) and (x == x.min()).any()
    d = RNG.randint(0, 2)
    v, i = x.max(dim=d)
    assert (x <= v.unsqueeze(d)).all() and torch.equal(torch.gather(x, d, i.unsqueeze(d)).squeeze(d), v)
    v, i = x.min(dim=d)
    assert (x >= v.unsqueeze(d)).all() and torch.equal(torch.gather(x, d, i.unsqueeze(d)).squeeze(d), v)


@axiom('numpy.where(cond)[0]: ascending indices of the true entries')
def _():
    c = rt(RNG.randint(0, 7), kind='bool').numpy()
    w = numpy.where(c)[0]
    assert len(w) == int(c.sum()) and 0 <= len(w) <= len(c)
    if len(w):
        assert c[w[0]] and not c[:w[0]].any()


@axiom('max_pool1d: number of windows a function of (length, kernel, stride, padding, dilation, ceil_mode); indices are row positions of maximal window elements')
def _():
    Lx = RNG.randint(4, 12)
    k = RNG.randint(1, 4)
    st = RNG.randint(1, 3)
    pad = RNG.randint(0, k // 2)
    dil = RNG.randint(1, 2)
    cm = RNG.choice([False, True])
    if dil * (k - 1) + 1 > Lx + 2 * pad:
        return
    a, b = rt(2, 3, Lx, kind='real'), rt(1, 2, Lx, kind='real')
    F = torch.nn.functional.max_pool1d
    ya, ia = F(a, k, st, pad, dil, cm, return_indices=True)
    yb = F(b, k, st, pad, dil, cm)
    assert ya.shape[-1] == yb.shape[-1] and ya.shape[:2] == a.shape[:2]
    assert int(ia.min()) >= 0 and int(ia.max()) < Lx
    assert torch.equal(torch.gather(a, 2, ia), ya)
    m = torch.nn.MaxPool1d(k, st, pad, dil, ceil_mode=cm)
    assert torch.equal(m(a), ya)


@axiom('torch.unique: strictly increasing vector of exactly the occurring values; min/max of an empty tensor raise')
def _():
    x = rt(RNG.randint(0, 3), RNG.randint(0, 4), kind=RNG.choice(['int', 'real']))
    u = torch.unique(x)
    assert all(u[i] < u[i + 1] for i in range(len(u) - 1))
    assert set(u.tolist()) == set(x.flatten().tolist())
    if x.numel() == 0:
        for f in (x.min, x.max):
            try:
                f()
                raise AssertionError('min/max of an empty tensor returned')
            except RuntimeError:
                pass


def run_axioms(n_rounds):
    bad = []
    for name, f in AXIOMS:
        for r in range(n_rounds):
            try:
                f()
            except AssertionError as e:
                bad.append((name, 'assumed relation does not hold of the real library: %r' % (e,)))
                break
    return bad


def run(n_rounds=25):
    bad, total, skipped = [], 0, 0
    for name, mk in CASES:
        for r in range(n_rounds):
            sym, re = mk()
            try:
                rv = real(re())
                rraise = None
            except Exception as e:
                rv, rraise = None, type(e).__name__
            try:
                sv = materialise(sym())
                sraise = None
            except SymRaise as e:
                sv, sraise = None, e.kind
            except Unsupported as e:
                skipped += 1
                continue
            except Exception as e:
                bad.append((name, 'engine rule crashed: %r' % (e,)))
                total += 1
                continue
            total += 1
            if (rraise is None) != (sraise is None):
                bad.append((name, 'real %s vs engine %s' % (rraise or 'returns', sraise or 'returns')))
            elif rraise is None and not same(sv, rv):
                bad.append((name, 'values differ: engine %s real %s' % (str(sv)[:120].replace('\n', ' '), str(rv)[:120].replace('\n', ' '))))
    return total, skipped, bad


if __name__ == '__main__':
    nr = int(sys.argv[1]) if len(sys.argv) > 1 else 25
    total, skipped, bad = run(nr)
    bad += run_axioms(nr * 4)
    print('conformance: %d comparisons over %d operations, %d outside the modelled fragment (skipped); %d assumed relations x %d inputs; %d disagreements' % (total, len(CASES), skipped, len(AXIOMS), nr * 4, len(bad)))
    seen = set()
    for name, what in bad:
        if name not in seen:
            seen.add(name)
            print('  DISAGREE %-32s %s' % (name, what[:300]))
    sys.exit(1 if bad else 0)
