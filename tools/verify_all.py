#!/usr/bin/env python3
"""development regression: deductive part of every plan (no bounded layer). usage: tools/verify_all.py [Cxx ...]"""
import sys, os, importlib, json, time, warnings
warnings.filterwarnings('ignore')
HERE = os.path.dirname(os.path.dirname(os.path.abspath(__file__)))
sys.path.insert(0, HERE)
from collections import Counter
from vf import run, smt
from vf.contract import verify_function, verify_fragment
props = sys.argv[1:] or [json.loads(l)['id'] for l in open(os.path.join(HERE, 'properties.jsonl'))]
tot = Counter()
for pid in props:
    plan = importlib.import_module('props.' + pid)
    if not plan.FUNCTIONS:
        continue
    w = run.build_world(plan)
    for q in plan.FUNCTIONS:
        c = w.contracts[q]
        t = time.time()
        rep = verify_fragment(w, c) if getattr(c, 'is_fragment', False) else verify_function(w, c)
        g = time.time() - t
        t = time.time()
        smt.discharge(rep.obligations)
        cnt = Counter(o.result for o in rep.obligations)
        tot.update(cnt)
        bad = [o for o in rep.obligations if o.result != 'unsat']
        print('%s %-62s obls=%4d %s gen=%.1fs smt=%.1fs %s' % (pid, q.replace('tangermeme.', ''), len(rep.obligations), dict(cnt), g, time.time() - t,
                                                           ('UNSUPPORTED %s' % rep.unsupported[:2]) if rep.unsupported else ''), flush=True)
        for o in bad[:4]:
            print('      ', o.result, o.name)
print('TOTAL', dict(tot))
