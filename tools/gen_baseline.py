#!/usr/bin/env python3
"""tools/gen_baseline.py - names of the obligations that are discharged on the current (unchanged, repaired) tree, per
property: baseline/obligations.json.  The checks use it for one decision only: an obligation refuted by the solver on
an entry path whose counter-model could NOT be replayed is reported as `VIOLATION ... no-failing-input-found` only if it
is one that was discharged on the unchanged tree (it "passed and now fails"); any other unreplayed refutation is
undecided.  Regenerate after changing contracts: PYTHONHASHSEED=0 .venv/bin/python tools/gen_baseline.py"""
import sys, os, importlib, json, warnings
warnings.filterwarnings('ignore')
HERE = os.path.dirname(os.path.dirname(os.path.abspath(__file__)))
sys.path.insert(0, HERE)
from vf import run, smt
from vf.contract import verify_function, verify_fragment
out = {}
only = set(sys.argv[1:])
if only:
    # tools/gen_baseline.py Cxx ... : refresh the listed properties only
    out = json.load(open(os.path.join(HERE, 'baseline', 'obligations.json')))
for l in open(os.path.join(HERE, 'properties.jsonl')):
    pid = json.loads(l)['id']
    if only and pid not in only:
        continue
    plan = importlib.import_module('props.' + pid)
    w = run.build_world(plan)
    names = set()
    for q in plan.FUNCTIONS:
        c = w.contracts[q]
        rep = verify_fragment(w, c) if getattr(c, 'is_fragment', False) else verify_function(w, c)
        smt.discharge(rep.obligations)
        names |= {o.name for o in rep.obligations if o.result == 'unsat'}
    out[pid] = sorted(names)
    print(pid, len(names), flush=True)
os.makedirs(os.path.join(HERE, 'baseline'), exist_ok=True)
json.dump(out, open(os.path.join(HERE, 'baseline', 'obligations.json'), 'w'))
