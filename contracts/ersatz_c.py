"""Contracts of tangermeme.ersatz (property C01, C02).  Top-level clauses are transcribed from the
property statements; helper preconditions come from the code's own guards (DESIGN §2.3, §5 C01)."""
import z3
from vf import ops as O
from vf.ops import And, Or, Not, ite, Implies
from vf.tensor import Tn, Unsupported
from vf.values import SStr, Opaque
from vf.contract import Contract
from vf.world import LoopSpec
from vf.spec import spec_tensor, is_onehot, bsel, onehot_from_idx


def motif_tensor(a):
    """the motif as a (batch, alphabet, length) tensor, whatever form it was given in"""
    m = a.motif
    if isinstance(m, SStr):
        alpha = a.alphabet
        n = alpha.attrs['n'] if isinstance(alpha, Opaque) else len(alpha)
        return onehot_from_idx([1, n, m.length], lambda b, i: m.code(i), ohe_dim=1)
    return m


def motif_ok(a):
    """motif is a valid one-hot motif for X: alphabet sizes agree, every character is in the alphabet"""
    m = a.motif
    M = motif_tensor(a)
    conds = [O.eq(M.shape[1], a.X.shape[1])]
    if isinstance(m, SStr):
        conds.append(Not(O.exists_box([m.length], lambda i: m.code(i) < 0)))
        conds.append(m.length >= 1)
    return And(*conds)


class _EditBase(Contract):
    props = ('C01',)
    motif_forms = ('tensor', 'str')

    def configs(self):
        return [dict(motif=mf, start=st) for mf in self.motif_forms for st in ('int', 'none')]

    def mk_common(self, cfg, A):
        X = A.onehot('X', 3)
        A.assume(X.shape[1] >= 2)
        kw = {}
        if cfg['motif'] == 'tensor':
            motif = A.onehot('motif', 3)
        else:
            motif = SStr('motif')
            n = z3.Int('alphabet.n')
            A.assume(n >= 1, motif.length >= 0)
            q = z3.Int('cq')
            A.assume(z3.ForAll([q], And(motif.code(q) >= -2, motif.code(q) < n), patterns=[motif.code(q)]))
            kw['alphabet'] = Opaque('alphabet', 'alphabet', {'n': n})
        start = A.int('start') if cfg['start'] == 'int' else None
        return X, motif, start, kw


class Substitute(_EditBase):
    """C01: substitute returns the input with exactly positions [p, p+len(motif)) overwritten by the
    motif; a span not wholly inside the sequence is rejected; the caller's tensors are not modified."""
    qualname = 'tangermeme.ersatz.substitute'

    def make_args(self, cfg, A):
        X, motif, start, kw = self.mk_common(cfg, A)
        return [X, motif], dict(start=start, **kw)

    def call_cfg(self, a, fr):
        return dict(motif='str' if isinstance(a.motif, SStr) else 'tensor', start='none' if a.start is None else 'int')

    def start_of(self, a):
        M = motif_tensor(a)
        L, n = a.X.shape[2], M.shape[2]
        if a.start is None:
            return O.floordiv(L, 2) - O.floordiv(n, 2)
        return a.start

    def inside(self, a):
        M = motif_tensor(a)
        X = a.X
        s, n, L = self.start_of(a), M.shape[2], X.shape[2]
        return And(0 <= s, s + n <= L, Or(O.eq(M.shape[0], 1), O.eq(M.shape[0], X.shape[0])), motif_ok(a))

    def rejects(self, a, cfg):
        return Not(self.inside(a))

    def result(self, a, cfg):
        X, M = a.X, motif_tensor(a)
        s, n = self.start_of(a), M.shape[2]
        return spec_tensor(X.shape, lambda b, c, p: ite(And(s <= p, p < s + n), M[bsel(M, b), c, p - s], X[b, c, p]))

    def post(self, a, r, cfg):
        return [('valid-one-hot', is_onehot(r))]


class Insert(_EditBase):
    """C01: insert returns prefix + motif + suffix (length L + n).  The pinned code refuses
    start in (L-n, L] although the insertion point lies inside the sequence: in that gap either an
    error or the exact edit satisfies the contract (DESIGN §2.3), outside [0, L] it must raise."""
    qualname = 'tangermeme.ersatz.insert'

    def make_args(self, cfg, A):
        X, motif, start, kw = self.mk_common(cfg, A)
        return [X, motif], dict(start=start, **kw)

    def call_cfg(self, a, fr):
        return dict(motif='str' if isinstance(a.motif, SStr) else 'tensor', start='none' if a.start is None else 'int')

    def start_of(self, a):
        if a.start is None:
            return O.floordiv(a.X.shape[2], 2)
        return a.start

    def shapes_ok(self, a):
        M, X = motif_tensor(a), a.X
        return And(Or(O.eq(M.shape[0], 1), O.eq(M.shape[0], X.shape[0])), motif_ok(a))

    def rejects(self, a, cfg):
        s, L = self.start_of(a), a.X.shape[2]
        return Not(And(0 <= s, s <= L, self.shapes_ok(a)))

    def accepts(self, a, cfg):
        s, L, n = self.start_of(a), a.X.shape[2], motif_tensor(a).shape[2]
        if a.start is None:
            return self.shapes_ok(a)
        return And(0 <= s, s <= L - n, self.shapes_ok(a))

    def result(self, a, cfg):
        X, M = a.X, motif_tensor(a)
        s, n = self.start_of(a), M.shape[2]
        return spec_tensor([X.shape[0], X.shape[1], X.shape[2] + n],
                           lambda b, c, p: ite(p < s, X[b, c, p], ite(p < s + n, M[bsel(M, b), c, p - s], X[b, c, p - n])))

    def post(self, a, r, cfg):
        return [('valid-one-hot', is_onehot(r))]


class Delete(Contract):
    """C01: delete removes exactly [start, end); rejects any span not wholly inside."""
    qualname = 'tangermeme.ersatz.delete'
    props = ('C01',)

    def make_args(self, cfg, A):
        X = A.onehot('X', 3)
        A.assume(X.shape[1] >= 2)
        return [X, A.int('start'), A.int('end')], {}

    def rejects(self, a, cfg):
        L = a.X.shape[2]
        # deleting the whole sequence leaves nothing to encode: an empty result is not a valid one-hot
        return Not(And(0 <= a.start, a.start < a.end, a.end <= L))

    def result(self, a, cfg):
        X, s, e = a.X, a.start, a.end
        return spec_tensor([X.shape[0], X.shape[1], X.shape[2] - (e - s)],
                           lambda b, c, p: ite(p < s, X[b, c, p], X[b, c, p + (e - s)]))

    def post(self, a, r, cfg):
        return [('valid-one-hot', is_onehot(r))]


def register(world):
    for c in (Substitute(), Insert(), Delete()):
        world.register(c)
