"""Contracts of tangermeme.ersatz (property C01, C02).  Top-level clauses are transcribed from the
property statements; helper preconditions come from the code's own guards (DESIGN §2.3, §5 C01)."""
import z3
from vf import ops as O
from vf.ops import And, Or, Not, ite, Implies
from vf.tensor import Tn, Unsupported
from vf.values import SStr, Opaque
from vf.contract import Contract
from vf.world import LoopSpec
from vf.spec import spec_tensor, is_onehot, bsel, onehot_from_idx


def is_concrete(t):
    from vf.spec import _symbolic_content
    return not O.any_sym(*t.shape) and not _symbolic_content(t)


def motif_tensor(a):
    """the motif as a (batch, alphabet, length) tensor, whatever form it was given in"""
    m = a.motif
    if isinstance(m, SStr):
        alpha = a.alphabet
        n = alpha.attrs['n'] if isinstance(alpha, Opaque) else len(alpha)
        return onehot_from_idx([1, n, m.length], lambda b, i: m.code(i), ohe_dim=1)
    return m


def motif_ok(a):
    """motif is a valid one-hot motif for X: alphabet sizes agree, every character is in the alphabet"""
    m = a.motif
    M = motif_tensor(a)
    conds = [O.eq(M.shape[1], a.X.shape[1])]
    if isinstance(m, SStr):
        conds.append(Not(O.exists_box([m.length], lambda i: m.code(i) < 0)))
        conds.append(m.length >= 1)
    return And(*conds)


class _EditBase(Contract):
    props = ('C01',)
    motif_forms = ('tensor', 'str')

    def configs(self):
        return [dict(motif=mf, start=st) for mf in self.motif_forms for st in ('int', 'none')]

    def mk_common(self, cfg, A):
        X = A.onehot('X', 3)
        A.assume(X.shape[1] >= 2)
        kw = {}
        if cfg['motif'] == 'tensor':
            motif = A.onehot('motif', 3)
        else:
            motif = SStr('motif')
            n = z3.Int('alphabet.n')
            A.assume(n >= 1, motif.length >= 0)
            q = z3.Int('cq')
            A.assume(z3.ForAll([q], And(motif.code(q) >= -2, motif.code(q) < n), patterns=[motif.code(q)]))
            kw['alphabet'] = Opaque('alphabet', 'alphabet', {'n': n})
        start = A.int('start') if cfg['start'] == 'int' else None
        return X, motif, start, kw


class Substitute(_EditBase):
    """C01: substitute returns the input with exactly positions [p, p+len(motif)) overwritten by the
    motif; a span not wholly inside the sequence is rejected; the caller's tensors are not modified."""
    qualname = 'tangermeme.ersatz.substitute'

    def make_args(self, cfg, A):
        X, motif, start, kw = self.mk_common(cfg, A)
        return [X, motif], dict(start=start, **kw)

    def call_cfg(self, a, fr):
        return dict(motif='str' if isinstance(a.motif, SStr) else 'tensor', start='none' if a.start is None else 'int')

    def start_of(self, a):
        M = motif_tensor(a)
        L, n = a.X.shape[2], M.shape[2]
        if a.start is None:
            return O.floordiv(L, 2) - O.floordiv(n, 2)
        return a.start

    def inside(self, a):
        M = motif_tensor(a)
        X = a.X
        s, n, L = self.start_of(a), M.shape[2], X.shape[2]
        return And(0 <= s, s + n <= L, Or(O.eq(M.shape[0], 1), O.eq(M.shape[0], X.shape[0])), motif_ok(a))

    def rejects(self, a, cfg):
        return Not(self.inside(a))

    def result(self, a, cfg):
        X, M = a.X, motif_tensor(a)
        s, n = self.start_of(a), M.shape[2]
        return spec_tensor(X.shape, lambda b, c, p: ite(And(s <= p, p < s + n), M[bsel(M, b), c, p - s], X[b, c, p]))

    def post(self, a, r, cfg):
        return [('valid-one-hot', is_onehot(r))]


class Insert(_EditBase):
    """C01: insert returns prefix + motif + suffix (length L + n).  The pinned code refuses
    start in (L-n, L] although the insertion point lies inside the sequence: in that gap either an
    error or the exact edit satisfies the contract (DESIGN §2.3), outside [0, L] it must raise."""
    qualname = 'tangermeme.ersatz.insert'

    def make_args(self, cfg, A):
        X, motif, start, kw = self.mk_common(cfg, A)
        return [X, motif], dict(start=start, **kw)

    def call_cfg(self, a, fr):
        return dict(motif='str' if isinstance(a.motif, SStr) else 'tensor', start='none' if a.start is None else 'int')

    def start_of(self, a):
        if a.start is None:
            return O.floordiv(a.X.shape[2], 2)
        return a.start

    def shapes_ok(self, a):
        M, X = motif_tensor(a), a.X
        return And(Or(O.eq(M.shape[0], 1), O.eq(M.shape[0], X.shape[0])), motif_ok(a))

    def rejects(self, a, cfg):
        s, L = self.start_of(a), a.X.shape[2]
        return Not(And(0 <= s, s <= L, self.shapes_ok(a)))

    def accepts(self, a, cfg):
        s, L, n = self.start_of(a), a.X.shape[2], motif_tensor(a).shape[2]
        if a.start is None:
            return self.shapes_ok(a)
        return And(0 <= s, s <= L - n, self.shapes_ok(a))

    def result(self, a, cfg):
        X, M = a.X, motif_tensor(a)
        s, n = self.start_of(a), M.shape[2]
        return spec_tensor([X.shape[0], X.shape[1], X.shape[2] + n],
                           lambda b, c, p: ite(p < s, X[b, c, p], ite(p < s + n, M[bsel(M, b), c, p - s], X[b, c, p - n])))

    def post(self, a, r, cfg):
        return [('valid-one-hot', is_onehot(r))]


class Delete(Contract):
    """C01: delete removes exactly [start, end); rejects any span not wholly inside."""
    qualname = 'tangermeme.ersatz.delete'
    props = ('C01',)

    def make_args(self, cfg, A):
        X = A.onehot('X', 3)
        A.assume(X.shape[1] >= 2)
        return [X, A.int('start'), A.int('end')], {}

    def rejects(self, a, cfg):
        L = a.X.shape[2]
        # deleting the whole sequence leaves nothing to encode: an empty result is not a valid one-hot
        return Not(And(0 <= a.start, a.start < a.end, a.end <= L))

    def result(self, a, cfg):
        X, s, e = a.X, a.start, a.end
        return spec_tensor([X.shape[0], X.shape[1], X.shape[2] - (e - s)],
                           lambda b, c, p: ite(p < s, X[b, c, p], X[b, c, p + (e - s)]))

    def post(self, a, r, cfg):
        return [('valid-one-hot', is_onehot(r))]


class MultiSubstitute(Contract):
    """C01: multisubstitute equals the sequential substitution of each motif `spacing` positions
    after the previous one ends; any span not wholly inside (or a negative spacing) is rejected."""
    qualname = 'tangermeme.ersatz.multisubstitute'
    props = ('C01',)

    def configs(self):
        return [dict(k=k, motif=m, spacing=sp, start=st) for k in (1, 2, 3) for m in ('tensor', 'str')
                for sp in ('int', 'list') for st in ('int', 'none')]

    def make_args(self, cfg, A):
        X = A.onehot('X', 3)
        A.assume(X.shape[1] >= 2)
        k = cfg['k']
        kw = {}
        motifs = []
        if cfg['motif'] == 'str':
            n = z3.Int('alphabet.n')
            A.assume(n >= 1)
            kw['alphabet'] = Opaque('alphabet', 'alphabet', {'n': n})
        for i in range(k):
            if cfg['motif'] == 'tensor':
                motifs.append(A.onehot('motif%d' % i, 3))
            else:
                m = SStr('motif%d' % i)
                A.assume(m.length >= 0)
                q = z3.Int('cq')
                A.assume(z3.ForAll([q], And(m.code(q) >= -2, m.code(q) < n), patterns=[m.code(q)]))
                motifs.append(m)
        spacing = A.int('spacing') if cfg['spacing'] == 'int' else [A.int('spacing%d' % i) for i in range(k - 1)]
        start = A.int('start') if cfg['start'] == 'int' else None
        return [X, motifs, spacing], dict(start=start, **kw)

    sub = Substitute()

    def plan(self, a):
        """(list of per-motif argument namespaces for substitute, list of starts)"""
        from vf.contract import NS
        k = len(a.motifs)
        sp = a.spacing if isinstance(a.spacing, list) else [a.spacing] * (k - 1)
        lens = [motif_tensor(NS(motif=m, alphabet=a.alphabet)).shape[2] for m in a.motifs]
        L = a.X.shape[2]
        if a.start is None:
            total = sum(sp) + sum(lens)
            s0 = O.floordiv(L, 2) - O.floordiv(total, 2)
        else:
            s0 = a.start
        starts = [s0]
        for i in range(k - 1):
            starts.append(starts[-1] + lens[i] + sp[i])
        return sp, lens, starts

    def rejects(self, a, cfg):
        from vf.contract import NS
        sp, lens, starts = self.plan(a)
        ok = [s >= 0 for s in sp]
        X = a.X
        for m, s in zip(a.motifs, starts):
            ns = NS(X=X, motif=m, start=s, alphabet=a.alphabet)
            ok.append(Not(self.sub.rejects(ns, {})))
        return Not(And(*ok))

    def accepts(self, a, cfg):
        # the pinned guard additionally refuses spacing >= L, which never yields a wrong result;
        # with every span inside such a spacing is impossible for k >= 2 non-empty motifs anyway
        sp, lens, starts = self.plan(a)
        return And(Not(self.rejects(a, cfg)), *[s < a.X.shape[2] for s in sp])

    def result(self, a, cfg):
        from vf.contract import NS
        sp, lens, starts = self.plan(a)
        X = a.X
        for m, s in zip(a.motifs, starts):
            X = self.sub.result(NS(X=X, motif=m, start=s, alphabet=a.alphabet), {})
        return X

    def post(self, a, r, cfg):
        return [('valid-one-hot', is_onehot(r))]


class Randomize(Contract):
    """C01: randomize alters only [start, end); every output is a valid one-hot encoding of the
    input's length; a span not wholly inside is rejected; the input is not modified.  The pinned
    guard also refuses end == L: in that gap an error or the exact behaviour both satisfy the
    contract (DESIGN 2.3)."""
    qualname = 'tangermeme.ersatz.randomize'
    props = ('C01',)

    def configs(self):
        return [dict(rs=r) for r in ('int', 'rng', 'none')]

    def make_args(self, cfg, A):
        X = A.onehot('X', 3)
        A.assume(X.shape[1] >= 2)
        probs = A.tensor('probs', 2, 'real')
        rs = {'int': lambda: A.int('seed'), 'none': lambda: None,
              'rng': lambda: Opaque('rng', 'rng', {'tape': A.int('tape'), 'pos': A.int('pos0', lo=0), 'types': ['numpy.random.RandomState']})}[cfg['rs']]()
        return [X, A.int('start'), A.int('end')], dict(probs=probs, n=A.int('n', lo=1), random_state=rs)

    def probs_ok(self, a):
        P, X = a.probs, a.X
        in01 = Not(Or(O.exists_box(P.shape, lambda *i: P.elem(*i) < 0), O.exists_box(P.shape, lambda *i: P.elem(*i) > 1)))
        return And(in01, z3.Bool('probs.valid') if O.any_sym(*P.shape) or True else True, O.eq(P.shape[1], X.shape[1]),
                   Or(O.eq(P.shape[0], 1), O.eq(P.shape[0], X.shape[0])))

    def rejects(self, a, cfg):
        L = a.X.shape[2]
        return Not(And(0 <= a.start, a.start < a.end, a.end <= L, self.probs_ok(a)))

    def accepts(self, a, cfg):
        L = a.X.shape[2]
        return And(0 <= a.start, a.start < a.end, a.end < L, self.probs_ok(a))

    def tape_pos(self, a):
        rs = a.random_state
        if isinstance(rs, Opaque):
            return rs.attrs['tape'], rs.attrs.get('_pos0', rs.attrs['pos'])
        if rs is None:
            return None, 0
        return rs, 0

    def result(self, a, cfg):
        from contracts.utils_c import RNDOH
        X, s, e = a.X, a.start, a.end
        tape, pos0 = self.tape_pos(a)
        if tape is None or is_concrete(X):
            return NotImplemented
        # proof artefact (witness): the region of shuffle j is draw pos0+j of the generator tape
        return spec_tensor([X.shape[0], a.n, X.shape[1], X.shape[2]],
                           lambda b, j, c, p: ite(And(s <= p, p < e),
                                                  ite(O.eq(c, RNDOH(O.to_z3(tape), O.to_z3(pos0 + j), O.to_z3(b), O.to_z3(p - s))), 1, 0), X[b, c, p]))

    def post(self, a, r, cfg):
        X, s, e = a.X, a.start, a.end
        out = [('shape', And(*[O.eq(x, y) for x, y in zip(r.shape, [X.shape[0], a.n, X.shape[1], X.shape[2]])]))]
        out.append(('outside-region-identical', O.forall(r.shape, lambda b, j, c, p: Implies(Not(And(s <= p, p < e)), O.eq(r[b, j, c, p], X[b, c, p])))))
        out.append(('valid-one-hot', is_onehot(r, ohe_dim=2)))
        return out

    def loops(self):
        from vf.world import defined_loop
        from vf.values import StackList
        from contracts.utils_c import RNDOH

        def state(fr):
            env = fr.env
            rs = env['random_state']
            if '_pos0' not in rs.attrs:
                rs.attrs['_pos0'] = rs.attrs['pos']
            return env['X'], env['start'], env['end'], rs

        def rands(fr, it):
            X, s, e, rs = state(fr)
            tape, pos0 = rs.attrs['tape'], rs.attrs['_pos0']
            V = spec_tensor([it, X.shape[0], X.shape[1], X.shape[2]],
                            lambda j, b, c, p: ite(And(s <= p, p < e),
                                                   ite(O.eq(c, RNDOH(O.to_z3(tape), O.to_z3(pos0 + j), O.to_z3(b), O.to_z3(p - s))), 1, 0), X[b, c, p]))
            return StackList(it, [V])

        def rng_state(fr, v, it):
            X, s, e, rs = state(fr)
            rs.attrs['pos'] = rs.attrs['_pos0'] + it
            # range facts of the draws made so far
            q0, q1, qj = z3.Ints('rq0 rq1 rqj')
            tape, pos0 = O.to_z3(rs.attrs['tape']), O.to_z3(rs.attrs['_pos0'])
            fr.ctx.assume(z3.ForAll([qj, q0, q1], z3.Implies(z3.And(qj >= 0, qj < it),
                                                            z3.And(RNDOH(tape, pos0 + qj, q0, q1) >= 0, RNDOH(tape, pos0 + qj, q0, q1) < O.to_z3(X.shape[1])))))
            return rs

        def extra(E, fr):
            rs = E.random_state
            p0 = rs.attrs.get('_pos0', rs.attrs['pos'])
            P, X = E.probs, E.X
            # a completed iteration means the generator accepted the probabilities and substitute
            # accepted the drawn motif
            passed = And(z3.Bool('probs.valid'), O.eq(P.shape[1], X.shape[1]), Or(O.eq(P.shape[0], 1), O.eq(P.shape[0], X.shape[0])))
            return [('rng-position', O.eq(rs.attrs['pos'], p0 + E.it)), ('iterations-passed-validation', Implies(E.it >= 1, passed))]
        spec = defined_loop({'X_rands': rands}, extra=extra, extra_mutated=['random_state'])
        spec.abstract['random_state'] = rng_state
        return {1: spec}


class Shuffle(Contract):
    """C02: inside [start, end) every output is a permutation of the input region (hence the same
    number of each character, Lean lemma sum_perm), outside it is identical to the input; the result
    is a deterministic function of (input, region, n, seed); the input is not modified; a region not
    inside the sequence is rejected."""
    qualname = 'tangermeme.ersatz.shuffle'
    props = ('C02',)

    def configs(self):
        return [dict(rs=r, end=e) for r in ('int', 'rng', 'none') for e in ('nonneg', 'neg')]

    def make_args(self, cfg, A):
        from vf.world import make_rng
        X = A.onehot('X', 3)
        A.assume(X.shape[1] >= 2)
        end = A.int('end')
        A.assume(end >= 0 if cfg['end'] == 'nonneg' else end < 0)
        rs = {'int': lambda: A.int('seed'), 'none': lambda: None,
              'rng': lambda: Opaque('rng', 'rng', {'tape': A.int('tape'), 'pos': A.int('pos0', lo=0), 'types': ['numpy.random.RandomState']})}[cfg['rs']]()
        return [X], dict(start=A.int('start'), end=end, n=A.int('n', lo=1), random_state=rs)

    def window(self, a):
        L = a.X.shape[2]
        return a.start, ite(a.end < 0, L + 1 + a.end, a.end)

    def rejects(self, a, cfg):
        s, e = self.window(a)
        return Not(And(0 <= s, s < e, e <= a.X.shape[2]))

    def tape_pos(self, a, cfg):
        rs = a.random_state
        if isinstance(rs, Opaque):
            return rs.attrs['tape'], rs.attrs['_pos0'] if '_pos0' in rs.attrs else rs.attrs['pos']
        if rs is None:
            return None, 0
        return rs, 0

    def result(self, a, cfg):
        from vf.world import PERM
        X = a.X
        s, e = self.window(a)
        tape, pos0 = self.tape_pos(a, cfg)
        if tape is None or is_concrete(X):
            # unseeded: nothing is claimed about which permutation is used.  Concrete interpretation:
            # the existential "region is some permutation of the input region" is checked through
            # its consequence same-composition (post), the witness below is a proof artefact.
            return NotImplemented
        # witness of "exists a permutation pi_j of the region": draw pos0+j of the generator tape
        return spec_tensor([X.shape[0], a.n, X.shape[1], X.shape[2]],
                           lambda b, j, c, p: ite(And(s <= p, p < e),
                                                  X[b, c, s + PERM(O.to_z3(tape), O.to_z3(pos0 + j), O.to_z3(e - s), O.to_z3(p - s))], X[b, c, p]))

    def post(self, a, r, cfg):
        X = a.X
        s, e = self.window(a)
        out = [('shape', And(*[O.eq(x, y) for x, y in zip(r.shape, [X.shape[0], a.n, X.shape[1], X.shape[2]])]))]
        out.append(('outside-region-identical', O.forall(r.shape, lambda b, j, c, p: Implies(Not(And(s <= p, p < e)), O.eq(r[b, j, c, p], X[b, c, p])))))
        out.append(('valid-one-hot', is_onehot(r, ohe_dim=2)))
        if is_concrete(X):
            # same number of each character inside the region (symbolically: Lean lemma sum_perm
            # applied to the permutation witness of result())
            out.append(('same-composition', O.forall(r.shape[:3], lambda b, j, c: O.eq(
                sum(r[b, j, c, p] for p in range(int(s), int(e))), sum(X[b, c, p] for p in range(int(s), int(e)))))))
        return out

    def path_post(self, a, cfg, ctx):
        if cfg.get('rs') == 'none':
            return []
        return [('deterministic:no-unseeded-random-source', not any(e[0] == 'unseeded_random_source' for e in ctx.events))]

    def loops(self):
        from vf.world import PERM, defined_loop
        from vf.values import StackList

        def state(fr):
            env = fr.env
            rs = env['random_state']
            if '_pos0' not in rs.attrs:
                rs.attrs['_pos0'] = rs.attrs['pos']
            return env['X'], env['start'], env['end'], rs

        def shufs(fr, it):
            X, s, e, rs = state(fr)
            tape, pos0 = rs.attrs['tape'], rs.attrs['_pos0']
            V = spec_tensor([it, X.shape[0], X.shape[1], X.shape[2]],
                            lambda j, b, c, p: ite(And(s <= p, p < e),
                                                   X[b, c, s + PERM(O.to_z3(tape), O.to_z3(pos0 + j), O.to_z3(e - s), O.to_z3(p - s))], X[b, c, p]))
            return StackList(it, [V])

        def rng_state(fr, it):
            X, s, e, rs = state(fr)
            rs.attrs['pos'] = rs.attrs['_pos0'] + it
            return rs

        def extra(E, fr):
            rs = E.random_state
            p0 = rs.attrs.get('_pos0', rs.attrs['pos'])
            return [('rng-position', O.eq(rs.attrs['pos'], p0 + E.it))]
        spec = defined_loop({'X_shufs': shufs}, extra=extra, extra_mutated=['random_state'])
        spec.abstract['random_state'] = lambda fr, v, it: rng_state(fr, it)
        return {1: spec}


def dn_value(region, n, seed):
    """assumed: _dinucleotide_shuffle(region, n_shuffles=n, random_state=seed) is a function DN of
    the region's content, n and the seed, of shape (n, alphabet, width).
    Concrete interpretation: DN is the real function (run on the materialised region)."""
    from vf.world import row_lambda
    from vf.spec import _symbolic_content
    A_, W = region.shape[0], region.shape[1]
    if not O.any_sym(A_, W, n, seed) and not _symbolic_content(region):
        import torch
        from tangermeme import ersatz as _e
        t = torch.tensor([[region.elem(c, p) for p in range(int(W))] for c in range(int(A_))], dtype=torch.float32).reshape(int(A_), int(W))
        try:
            out = _e._dinucleotide_shuffle(t, n_shuffles=int(n), random_state=int(seed))
        except Exception:
            out = torch.zeros(int(n), int(A_), int(W))
        return Tn.of_real(out, 'DN')
    if not O.any_sym(A_, W):
        # small scope: explicit element arguments (quantifier-free, refutations come back sat)
        elems = [O.to_z3(region.elem(c, p)) for c in range(int(A_)) for p in range(int(W))]
        f = z3.Function('DN_%d_%d' % (int(A_), int(W)), *([z3.IntSort()] * (len(elems) + 5)), z3.IntSort())
        return spec_tensor([n, A_, W], lambda j, c, p: f(*elems, O.to_z3(n), O.to_z3(seed), O.to_z3(j), O.to_z3(c), O.to_z3(p)))
    arr, dims = row_lambda(region.unsqueeze(0), 0)
    f = z3.Function('DN', arr.sort(), z3.IntSort(), z3.IntSort(), z3.IntSort(), z3.IntSort(), z3.IntSort(), z3.IntSort(), z3.IntSort(), z3.IntSort())
    return spec_tensor([n, A_, W], lambda j, c, p: f(arr, O.to_z3(A_), O.to_z3(W), O.to_z3(n), O.to_z3(seed), O.to_z3(j), O.to_z3(c), O.to_z3(p)))


class InnerDinucleotideShuffle(Contract):
    """ersatz._dinucleotide_shuffle as seen from dinucleotide_shuffle — ASSUMED (the Euler walk is
    out of deductive reach, DESIGN 4.5; bounded layer C02 enumerates it): returns DN(region, n, seed)
    or raises (all shuffles identical)."""
    qualname = 'tangermeme.ersatz._dinucleotide_shuffle'
    props = ('C02',)
    assumed = True

    def accepts(self, a, cfg):
        return False

    def result(self, a, cfg):
        if a.random_state is None:
            return NotImplemented
        return dn_value(a.X, a.n_shuffles, a.random_state)

    def fresh_result(self, a, cfg, fr):
        return dn_value(a.X, a.n_shuffles, O.fresh_int('unseeded'))


class DinucleotideShuffle(Contract):
    """C02 (deductive part): all positions outside the region are identical to the input, the output
    has shape (batch, n, alphabet, length), the input is not modified, and with an integer seed no
    unseeded random source is consulted (the result is then a function of (input, region, n, seed)).
    The composition / never-stranded claims about the walk are bounded (bounded/C02.py)."""
    qualname = 'tangermeme.ersatz.dinucleotide_shuffle'
    props = ('C02',)

    def make_args(self, cfg, A):
        X = A.onehot('X', 3)
        A.assume(X.shape[1] >= 2)
        return [X], dict(start=A.int('start'), end=A.int('end'), n=A.int('n', lo=1), random_state=A.int('seed'))

    def region(self, a):
        from vf.tensor import norm_slice
        return norm_slice(a.start, a.end, a.X.shape[2])

    def accepts(self, a, cfg):
        return False   # the inner shuffle may refuse low-diversity sequences

    def post(self, a, r, cfg):
        X = a.X
        lo, ln = self.region(a)
        out = [('is-tensor', isinstance(r, Tn) and r.rank == 4)]
        if not (isinstance(r, Tn) and r.rank == 4):
            return out
        out.append(('shape', And(*[O.eq(x, y) for x, y in zip(r.shape, [X.shape[0], a.n, X.shape[1], X.shape[2]])])))
        out.append(('outside-region-identical', O.forall(r.shape, lambda b, j, c, p: Implies(Not(And(lo <= p, p < lo + ln)), O.eq(r[b, j, c, p], X[b, c, p])))))
        return out

    def path_post(self, a, cfg, ctx):
        return [('deterministic:no-unseeded-random-source', not any(e[0] == 'unseeded_random_source' for e in ctx.events))]

    def loops(self):
        from vf.world import LoopSpec
        from vf.tensor import norm_slice

        def shape_of(fr, o):
            env = fr.env
            X, n = env['X'], env['n']
            return [z3.Int(O.fresh_name('cnt')), n, X.shape[1], X.shape[2]]

        def inv(E, fr):
            X = E.X
            lo, ln = norm_slice(E.start, E.end, X.shape[2])
            L = E.X_shufs
            if isinstance(L, list):
                return [('count', O.eq(len(L), E.it))] if len(L) == 0 else [('count', False)]
            V = L.views[0]
            out = [('count', O.eq(L.count, E.it)), ('rows', O.eq(V.shape[0], E.it)),
                   ('item-shape', And(O.eq(V.shape[1], E.n), O.eq(V.shape[2], X.shape[1]), O.eq(V.shape[3], X.shape[2])))]
            out.append(('outside-region-identical', E.forall(V.shape, lambda b, j, c, p: Implies(Not(And(lo <= p, p < lo + ln)), O.eq(V[b, j, c, p], X[b, c, p])))))
            return out
        return {1: LoopSpec(inv, abstract={'X_shufs': 'stack'}, lists={'X_shufs': dict(k=None, kind='int', shape=shape_of)})}


def register(world):
    for c in (Substitute(), Insert(), Delete(), MultiSubstitute(), Randomize(), Shuffle(), InnerDinucleotideShuffle(), DinucleotideShuffle()):
        world.register(c)
