"""Contracts of tangermeme.product (property C08): apply_product / apply_pairwise."""
import z3
from vf import ops as O
from vf.ops import And, Or, Not, ite, Implies
from vf.tensor import Tn, Unsupported
from vf.values import Opaque, CatList, StackList
from vf.contract import Contract, same
from vf.world import LoopSpec, RowWise
from vf.spec import spec_tensor
from contracts.predict_c import OUTS, prefix
from contracts.wrappers_c import make_func


def radix(p, counts):
    """indices (i0, i1, .., ik) of flat position p of the lexicographic nest with the given factor
    sizes, in the division form used by itertools.product's ghost facts"""
    idx = [None] * len(counts)
    rest = p
    for q in range(len(counts) - 1, 0, -1):
        idx[q] = O.mod(rest, counts[q])
        rest = O.floordiv(rest, counts[q])
    idx[0] = rest
    return idx


class ApplyProduct(Contract):
    """C08 (products): entry [i, j1, .., jk] of every output equals func applied to example i combined with
    argument rows j1, .., jk - for every batch size (also one not dividing the product size), for
    tensor- and multi-output funcs; X and the argument tensors are not written."""
    qualname = 'tangermeme.product.apply_product'
    props = ('C08',)
    pairwise = False

    def configs(self):
        return [dict(out=o, k=k) for o in ('tensor', 'tuple2') for k in (1, 2)]

    def scopes(self, cfg):
        return [{'default': 2, 'batch_size': 3}, {'default': 2, 'batch_size': 1}, {'default': 2, 'X.d0': 3, 'batch_size': 4},
                {'default': 3, 'batch_size': 2}]

    def make_args(self, cfg, A):
        func = make_func('F', cfg['out'], A)
        model = Opaque('model', 'model', {'rowwise': RowWise('Munused'), 'training': z3.Bool('tr0'), 'n_args': 0, 'types': ['model']})
        X = A.tensor('X', 3, 'int', min_dims=1)
        if self.pairwise:
            n = A.dim('n_pairs', 1)
            args = [A.tensor('arg%d' % i, 2, 'real', shape=[n, A.dim('arg%d.d1' % i, 1)]) for i in range(cfg['k'])]
        else:
            args = [A.tensor('arg%d' % i, 2, 'real', min_dims=1) for i in range(cfg['k'])]
        return [func, model, X, args], dict(batch_size=A.int('batch_size', lo=1), device='cpu', additional_func_kwargs={})

    # ---- specification: the flat row p of the nest and what func makes of it
    @classmethod
    def counts(cls, env):
        X, args = env['X'], env['args']
        return [X.shape[0]] + ([args[0].shape[0]] if cls.pairwise else [a.shape[0] for a in args])

    @classmethod
    def flat_inputs(cls, env, P):
        """the P x ... tensors whose row p is (X[i0(p)], args[q][i_q(p)])"""
        X, args = env['X'], env['args']
        counts = cls.counts(env)
        ts = [spec_tensor([P] + list(X.shape[1:]), lambda p, *r: X.elem(radix(p, counts)[0], *r), X.kind)]
        for q, a_ in enumerate(args):
            qq = 1 if cls.pairwise else q + 1
            ts.append(spec_tensor([P] + list(a_.shape[1:]), lambda p, *r, a_=a_, qq=qq: a_.elem(radix(p, counts)[qq], *r), a_.kind))
        return ts

    @classmethod
    def flat_outputs(cls, env, P):
        rw = env['func'].attrs['rowwise']
        return rw, rw.apply_rows(cls.flat_inputs(env, P))

    def result(self, a, cfg):
        env = a.__dict__
        X, args = a.X, a.args
        counts = self.counts(env)
        rw = a.func.attrs['rowwise']
        lead = counts
        outs = []
        for o in range(1 if rw.k is None else rw.k):
            def elem(*idx, o=o):
                ii, t = idx[:len(lead)], idx[len(lead):]
                rows = [spec_tensor(list(X.shape[1:]), lambda *r: X.elem(ii[0], *r), X.kind)]
                for q, a_ in enumerate(args):
                    j = ii[1] if self.pairwise else ii[q + 1]
                    rows.append(spec_tensor(list(a_.shape[1:]), lambda *r, a_=a_, j=j: a_.elem(j, *r), a_.kind))
                return rw.at(o, rows, t)
            outs.append(spec_tensor(list(lead) + list(rw.trailing[o]), elem, 'real'))
        return outs[0] if rw.k is None else list(outs)

    # ---- loop invariant: f = it - len(X_) rows evaluated; pending rows are rows f .. it-1 of the nest
    def loops(self):
        cls = type(self)

        def length(v):
            return len(v) if isinstance(v, list) else v.count

        def ghosts(fr, it):
            g = fr.ctx.ghost.setdefault('prod_loop', {})
            key = str(it)
            if key not in g:
                g[key] = (O.fresh_int('c'), O.fresh_int('nb'))
            return g[key]

        def defs(fr, it, c, nb):
            env = fr.env
            X, args = env['X'], env['args']
            f = it - c
            ins = cls.flat_inputs(env, it)
            d = {'X_': StackList(c, [spec_tensor([c] + list(X.shape[1:]), lambda k, *r: ins[0].elem(f + k, *r), X.kind)])}
            d['args_'] = [StackList(c, [spec_tensor([c] + list(a_.shape[1:]), lambda k, *r, q=q: ins[q + 1].elem(f + k, *r), a_.kind)]) for q, a_ in enumerate(args)]
            rw, outs = cls.flat_outputs(env, f)
            d['y'] = CatList(nb, [prefix(t, f) for t in outs], None if rw.k is None else rw.tuple_kind)
            return d

        def make_abs(name):
            def ab(fr, v, it):
                c, nb = ghosts(fr, it)
                return defs(fr, it, c, nb)[name]
            return ab

        def inv(E, fr):
            env = fr.env
            it, bs = E.it, env['batch_size']
            c = length(env['X_'])
            y = env['y']
            nb = length(y)
            f = it - c
            out = [('pending-rows-below-batch-size', And(0 <= c, c < bs, c <= it)),
                   ('a-batch-was-evaluated-iff-rows-were', And(nb >= 0, O.Iff(nb > 0, f > 0)))]
            d = defs(fr, it, c, nb)
            out.extend(same(env['X_'], d['X_'], 'X_'))
            for q, (x, y_) in enumerate(zip(env['args_'], d['args_'])):
                out.extend(same(x, y_, 'args_[%d]' % q))
            out.extend(same(y, d['y'], 'y'))
            return out
        return {1: LoopSpec(inv, abstract={k: make_abs(k) for k in ('X_', 'args_', 'y')})}


class ApplyPairwise(ApplyProduct):
    """C08 (pairs): entry [i, j] of every output equals func applied to example i combined with row j of
    every argument (the arguments are zipped)."""
    qualname = 'tangermeme.product.apply_pairwise'
    pairwise = True


def register(world):
    world.register(ApplyProduct())
    world.register(ApplyPairwise())
