"""Contracts of tangermeme.seqlet (property C19)."""
import z3
from vf import ops as O
from vf.ops import And, Or, Not, ite, Implies
from vf.tensor import Tn, Unsupported
from vf.contract import Contract, FragmentContract, same
from vf.world import LoopSpec, defined_loop
from vf.spec import spec_tensor

PSX = z3.Function('PSX', z3.IntSort(), z3.IntSort(), z3.RealSort())   # prefix sums of X: PSX(i, j) = sum_{k<=j} X[i,k]


class RecursiveSeqletEmit(FragmentContract):
    """C19 (emission block of _recursive_seqlets): the seqlet appended for a core [start, end] found in
    example i is (i, s, e, attr, p) with s = max(start - flanks, 0), e = min(end + min_len + flanks
    - 1, l), it lies inside the example (0 <= s < e <= l), and attr is exactly the sum of the input
    over [s, e) (prefix-sum difference csum[e-1] - csum[s-1] with csum[-1] = 0, Lean lemma
    prefix_sum_diff) - in particular no index of the prefix-sum table wraps around."""
    qualname = 'tangermeme.seqlet._recursive_seqlets'
    props = ('C19',)
    stmt_block = ('start = max(start - additional_flanks, 0)', ('until', 'seqlets.append('))
    key = 'tangermeme.seqlet._recursive_seqlets#emit'

    def make_env(self, cfg, A):
        n, l = A.dim('n', 1), A.dim('l', 1)
        X = A.tensor('X', 2, 'real', lib='np', shape=[n, l])
        fx = z3.Function('X', z3.IntSort(), z3.IntSort(), z3.RealSort())
        i_, j_ = z3.Ints('pi_ pj_')
        A.assume(z3.ForAll([i_], PSX(i_, -1) == 0))
        A.assume(z3.ForAll([i_, j_], z3.Implies(j_ >= 0, PSX(i_, j_) == PSX(i_, j_ - 1) + fx(i_, j_)), patterns=[PSX(i_, j_)]))
        X_csum = spec_tensor([n, l], lambda i, j: PSX(O.to_z3(i), O.to_z3(j)), 'real', lib='np')
        X_csum.cell.origin = 'fresh:X_csum'
        env = dict(X=X, X_csum=X_csum, l=l, n=n, i=A.int('i', lo=0), start=A.int('start', lo=0), end=A.int('end'),
                   additional_flanks=A.int('additional_flanks', lo=0), min_seqlet_len=A.int('min_seqlet_len', lo=1),
                   p=A.real('p'), seqlets=[])
        # context established by the enclosing scan (assumed here): the core was extended at least once
        # (j > min_seqlet_len iterations without break), start comes from argmin over a row of length l
        A.assume(env['i'] < n, env['start'] + 1 <= env['end'], env['end'] < l)
        return env

    def post_env(self, b, a, outcome, cfg):
        out = [('no-exception', not outcome.startswith('raise'))]
        S = a.seqlets
        out.append(('one-seqlet-appended', isinstance(S, list) and len(S) == 1 and isinstance(S[0], tuple) and len(S[0]) == 5))
        if not (out[0][1] and out[1][1]):
            return out
        i, s, e, attr, p = S[0]
        af, ml, l = b.additional_flanks, b.min_seqlet_len, b.l
        s_exp = O.vmax(b.start - af, 0)
        e_exp = O.vmin(b.end + ml + af - 1, l)
        out.append(('fields', And(O.eq(i, b.i), O.eq(s, s_exp), O.eq(e, e_exp), O.eq(p, b.p))))
        out.append(('inside-example', And(0 <= s, s < e, e <= l)))
        if not O.any_sym(b.i, s_exp, e_exp, attr):
            from vf.contract import num_eq
            span = sum(float(b.X[b.i, k]) for k in range(int(s_exp), int(e_exp)))
            out.append(('attribution-is-span-sum', num_eq(float(attr), span)))
        else:
            out.append(('attribution-is-span-sum', O.eq(attr, PSX(O.to_z3(b.i), O.to_z3(e_exp - 1)) - ite(s_exp > 0, PSX(O.to_z3(b.i), O.to_z3(s_exp - 1)), 0))))
        return out

    def replay_fragment(self, cfg, st):
        """the real statements of the emission block on a concrete track (prefix sums computed by numpy)"""
        import numpy
        from vf.contract import replay_fragment_generic
        n, l = st.get('X.shape', [1, 8])
        if n < 1 or l < 1 or n * l > 4096:
            return []
        rs = numpy.random.RandomState(0)
        X = numpy.round(rs.normal(0, 1, (n, l)) * 64) / 64
        env = dict(X=X, X_csum=numpy.cumsum(X, axis=1), l=l, n=n, i=st['i'], start=st['start'], end=st['end'],
                   additional_flanks=st['additional_flanks'], min_seqlet_len=st['min_seqlet_len'], p=0.001, seqlets=[])
        if not (0 <= env['i'] < n and 0 <= env['start'] < env['end'] < l):
            return []
        return replay_fragment_generic(self._world, self, cfg, env)


class _KernelInputs:
    """inputs of the whole kernel _recursive_seqlets for the bounds-checked replay (vf/boundscheck.py): small random
    tracks with planted bumps, every argument inside the kernel's domain (threshold < 1, 1 <= min <= max < l)"""

    def random_inputs(self, cfg, rng):
        import numpy
        n, l = rng.randint(1, 3), rng.randint(8, 40)
        lo = rng.randint(1, 4)
        hi = rng.randint(lo, min(lo + 6, l - 2))
        X = numpy.array([[rng.choice([-1.0, -0.5, -0.25, 0.25, 0.5, 1.0]) for _ in range(l)] for _ in range(n)])
        for _ in range(rng.randint(0, 3)):
            r, c = rng.randrange(n), rng.randrange(l)
            w = rng.randint(2, 6)
            X[r, max(0, c - w):c + w] += rng.choice([-3.0, 3.0, 5.0])
        if rng.random() < 0.3:
            X[:, :3] += 4.0      # a bump at position 0
        if rng.random() < 0.3:
            X[:, -3:] += 4.0     # and at the end
        return [X], dict(threshold=rng.choice([0.01, 0.05, 0.2, 0.5]), min_seqlet_len=lo, max_seqlet_len=hi, additional_flanks=rng.choice([0, 0, 1, 3, 5]))

    def show_inputs(self, args, kwargs):
        return '_recursive_seqlets(X=%s, %s)' % (args[0].tolist(), ', '.join('%s=%s' % kv for kv in sorted(kwargs.items())))


class RecursiveSeqletCsum(_KernelInputs, FragmentContract):
    """C19 (prefix-sum table of _recursive_seqlets, its first statements): X_csum[i, j] is the sum of X[i, 0..j] for
    every row and position (the table the emission block reads the reported attribution from - there it is an
    assumption, here it is the postcondition), every cell of the numpy.empty_like buffer is written, every access
    is inside its array (numba), X is not written.  (That nothing writes X_csum afterwards is a syntactic fact of
    the function: the contract refuses to apply when a store to X_csum appears outside these statements.)"""
    qualname = 'tangermeme.seqlet._recursive_seqlets'
    props = ('C19',)
    stmt_range = ('n, l = X.shape', 'xmins = numpy.empty(')
    key = 'tangermeme.seqlet._recursive_seqlets#csum'

    def scopes(self, cfg):
        return [{'default': 2, 'X.d1': 3}, {'default': 1, 'X.d1': 1}]

    def make_env(self, cfg, A):
        import ast as _ast
        # frame, syntactically: X_csum is stored to only inside the prefix-sum loops
        w = getattr(self, '_world', None)
        if w is not None:
            fd = w.bind.function_ast(w.bind.resolve(self.qualname))
            from vf.contract import fragment_statements
            _, stmts = fragment_statements(w, self)
            lo_, hi_ = min(st.lineno for st in stmts), max(getattr(st, 'end_lineno', st.lineno) for st in stmts)
            stores = [n for n in _ast.walk(fd) if isinstance(n, _ast.Subscript) and isinstance(n.ctx, _ast.Store) and isinstance(n.value, _ast.Name) and n.value.id == 'X_csum']
            rebinds = [n for n in _ast.walk(fd) if isinstance(n, _ast.Name) and isinstance(n.ctx, _ast.Store) and n.id == 'X_csum']
            outside = [n for n in stores + rebinds if not (lo_ <= n.lineno <= hi_)]
            if outside or len(rebinds) != 1:
                raise Unsupported("X_csum is written outside its prefix-sum statements (%d stores / bindings outside, %d bindings)" % (len(outside), len(rebinds)))
        n, l = A.dim('n', 0), A.dim('l', 1)
        X = A.tensor('X', 2, 'real', lib='np', shape=[n, l])
        fx = z3.Function('X', z3.IntSort(), z3.IntSort(), z3.RealSort())
        i_, j_ = z3.Ints('pi_ pj_')
        A.assume(z3.ForAll([i_], PSX(i_, -1) == 0))
        A.assume(z3.ForAll([i_, j_], z3.Implies(j_ >= 0, PSX(i_, j_) == PSX(i_, j_ - 1) + fx(i_, j_)), patterns=[PSX(i_, j_)]))
        return dict(X=X)

    def loops(self):
        def psx_rows(E, fr, rows, cols_of_current=None):
            C = fr.env['X_csum']
            out = [('rows-done-are-prefix-sums-and-written', E.forall([rows, C.shape[1]], lambda i, j: And(O.eq(C.elem(i, j), PSX(O.to_z3(i), O.to_z3(j))), C.init_at(i, j))))]
            return out

        def outer(E, fr):
            return psx_rows(E, fr, E.it)

        def inner(E, fr):
            C, i = fr.env['X_csum'], fr.env['i']
            return psx_rows(E, fr, i) + [('current-row-up-to-j', E.forall([E.it + 1], lambda j: And(O.eq(C.elem(i, j), PSX(O.to_z3(i), O.to_z3(j))), C.init_at(i, j))))]
        return {1: LoopSpec(outer), 2: LoopSpec(inner)}

    def post_env(self, b, a, outcome, cfg):
        out = [('no-exception', not outcome.startswith('raise'))]
        if not out[0][1]:
            return out
        C = a.X_csum
        out.append(('X_csum-is-a-table-like-X', isinstance(C, Tn) and C.rank == 2))
        if not out[-1][1]:
            return out
        out.append(('shape', And(O.eq(C.shape[0], b.X.shape[0]), O.eq(C.shape[1], b.X.shape[1]))))
        if not O.any_sym(*b.X.shape) and not __import__('vf.spec', fromlist=['x'])._symbolic_content(b.X):
            from vf.contract import num_eq
            ok = all(num_eq(float(C.elem(i, j)), sum(float(b.X.elem(i, k)) for k in range(j + 1))) for i in range(int(C.shape[0])) for j in range(int(C.shape[1])))
            out.append(('X_csum[i, j] = sum of X[i, 0..j]', ok))
        else:
            out.append(('X_csum[i, j] = sum of X[i, 0..j]', O.forall(C.shape, lambda i, j: And(O.eq(C.elem(i, j), PSX(O.to_z3(i), O.to_z3(j))), C.init_at(i, j)))))
        out.extend(same(a.X, b.X, 'X-unwritten'))
        return out

    def replay_fragment(self, cfg, st):
        import numpy
        from vf.contract import replay_fragment_generic
        n, l = st.get('X.shape', [1, 4])
        if n < 0 or l < 1 or n * l > 2048:
            return []
        rs = numpy.random.RandomState(1)
        X = numpy.round(rs.normal(0, 1, (n, l)) * 16) / 16
        return replay_fragment_generic(self._world, self, cfg, dict(X=X))


class RecursiveSeqletCdf(_KernelInputs, FragmentContract):
    """C19 (null-distribution tables of _recursive_seqlets, the statements between the prefix-sum table and the
    p-value matrix): for every seqlet length j in [min_seqlet_len, max_seqlet_len], xmins[j] <= s <= xmaxs[j] for the
    sum s of EVERY window of length j of every row (and xmins[j] <= 0 <= xmaxs[j]); every array access is inside its
    array - in particular the histogram cell floor(999 * s / xmax) (resp. xmin) lies in [0, 999] because s is one of
    the sums the extremum was taken over (numba: no bounds checks); the prefix-sum table is not written.  The block
    raises ZeroDivisionError when some length has no positive or no non-positive window (nothing is claimed then)."""
    qualname = 'tangermeme.seqlet._recursive_seqlets'
    props = ('C19',)
    stmt_range = ('xmins = numpy.empty(', 'p_value = numpy.ones(')
    key = 'tangermeme.seqlet._recursive_seqlets#cdf'

    def scopes(self, cfg):
        return []

    def make_env(self, cfg, A):
        n, l = A.dim('n', 0), A.dim('l', 1)
        C = A.tensor('X_csum', 2, 'real', lib='np', shape=[n, l])
        lo, hi = A.int('min_seqlet_len', lo=1), A.int('max_seqlet_len', lo=1)
        A.assume(lo <= hi)
        return dict(X_csum=C, n=n, l=l, min_seqlet_len=lo, max_seqlet_len=hi)

    @staticmethod
    def W(C, i, k, j):
        return C.elem(i, k + j) - C.elem(i, k)

    def loops(self):
        W = self.W

        def bounded(E, fr, lo_, hi_, rows, upto_in_row=None, j=None):
            """lo_ <= W(i, k, j) <= hi_ for all windows of rows < rows (and the first `upto_in_row` windows of row `rows`)"""
            env = fr.env
            C, l = env['X_csum'], env['l']
            j = env['j'] if j is None else j
            out = [('extrema-straddle-zero', And(lo_ <= 0, hi_ >= 0)),
                   ('extrema-bound-the-windows-of-the-rows-done', E.forall([rows, l - j], lambda i, k: And(lo_ <= W(C, i, k, j), W(C, i, k, j) <= hi_)))]
            if upto_in_row is not None:
                out.append(('extrema-bound-the-windows-of-this-row-so-far', E.forall([upto_in_row], lambda k: And(lo_ <= W(C, rows, k, j), W(C, rows, k, j) <= hi_))))
            return out

        def shapes(E, fr):
            env = fr.env
            out = []
            for nm in ('xmins', 'xmaxs'):
                if nm in env:
                    out.append((nm + '-shape', O.eq(env[nm].shape[0], env['max_seqlet_len'] + 1)))
            if 'X_cdfs' in env:
                t = env['X_cdfs']
                out.append(('X_cdfs-shape', And(O.eq(t.shape[0], 2), O.eq(t.shape[1], env['max_seqlet_len'] + 1), O.eq(t.shape[2], 1000))))
            return out

        def l3(E, fr):
            env = fr.env
            C, l, n = env['X_csum'], env['l'], env['n']
            lo = env['min_seqlet_len']
            mins, maxs = env['xmins'], env['xmaxs']
            done = E.forall([E.it], lambda t: And(mins.elem(lo + t) <= 0, maxs.elem(lo + t) >= 0, mins.init_at(lo + t), maxs.init_at(lo + t)))
            allw = E.forall([E.it, n, l], lambda t, i, k: Implies(k < l - (lo + t), And(mins.elem(lo + t) <= W(C, i, k, lo + t), W(C, i, k, lo + t) <= maxs.elem(lo + t))))
            return shapes(E, fr) + [('lengths-done:extrema-straddle-zero', done), ('lengths-done:extrema-bound-every-window', allw)]

        def l4(E, fr):
            env = fr.env
            return shapes(E, fr) + bounded(E, fr, env['xmin'], env['xmax'], E.it)

        def l5(E, fr):
            env = fr.env
            return shapes(E, fr) + bounded(E, fr, env['xmin'], env['xmax'], env['i'], E.it)

        def plain(E, fr):
            return shapes(E, fr)
        return {3: LoopSpec(l3), 4: LoopSpec(l4), 5: LoopSpec(l5), 6: LoopSpec(plain), 7: LoopSpec(plain), 8: LoopSpec(plain)}

    def post_env(self, b, a, outcome, cfg):
        if outcome.startswith('raise'):
            return [('only-a-division-by-zero-may-stop-the-block', outcome == 'raise:ZeroDivisionError')]
        C, l, n = b.X_csum, b.l, b.n
        lo, hi = b.min_seqlet_len, b.max_seqlet_len
        mins, maxs = a.xmins, a.xmaxs
        out = [('tables-exist', all(isinstance(t, Tn) for t in (mins, maxs, a.X_cdfs)))]
        if not out[0][1]:
            return out
        out.append(('every-window-sum-lies-between-the-recorded-extrema', O.forall([hi - lo + 1, n, l], lambda t, i, k: Implies(
            k < l - (lo + t), And(mins.elem(lo + t) <= self.W(C, i, k, lo + t), self.W(C, i, k, lo + t) <= maxs.elem(lo + t), mins.elem(lo + t) <= 0, maxs.elem(lo + t) >= 0)))))
        out.extend(same(a.X_csum, b.X_csum, 'X_csum-unwritten'))
        return out

    def replay_fragment(self, cfg, st):
        return []


class RecursiveSeqletPvalueRow(_KernelInputs, FragmentContract):
    """C19 (p-value matrix of _recursive_seqlets, the body of the loop over seqlet lengths inside the per-example loop):
    given tables whose extrema bound every window sum of length j (the postcondition of the table construction), the
    look-up cell floor(999 * s / extremum) of every window lies in [0, 999] and every other access is inside its array
    (numba: no bounds checks); only cells p_value[j, 1 .. l-j-1] are written - the other lengths' rows, column 0 and
    the columns from l-j on keep their values - and no other array is written.  A window sum of exactly 0 against a
    zero minimum raises ZeroDivisionError (nothing is claimed then)."""
    qualname = 'tangermeme.seqlet._recursive_seqlets'
    props = ('C19',)
    loop_ordinal = 10
    key = 'tangermeme.seqlet._recursive_seqlets#pvalue-row'

    def scopes(self, cfg):
        return []

    def make_env(self, cfg, A):
        n, l = A.dim('n', 1), A.dim('l', 1)
        lo, hi = A.int('min_seqlet_len', lo=1), A.int('max_seqlet_len', lo=1)
        A.assume(lo <= hi)
        C = A.tensor('X_csum', 2, 'real', lib='np', shape=[n, l])
        mins = A.tensor('xmins', 1, 'real', lib='np', shape=[hi + 1])
        maxs = A.tensor('xmaxs', 1, 'real', lib='np', shape=[hi + 1])
        cdfs = A.tensor('X_cdfs', 3, 'real', lib='np', shape=[2, hi + 1, 1000])
        pv = A.tensor('p_value', 2, 'real', lib='np', shape=[hi + 1, l])
        i, j = A.int('i', lo=0), A.int('j', lo=1)
        A.assume(i < n, lo <= j, j <= hi)
        W = RecursiveSeqletCdf.W
        # what the table construction established for this length
        A.assume(And(mins[j] <= 0, maxs[j] >= 0))
        A.assume(O.forall_hyp([n, l], lambda r, k: Implies(k < l - j, And(mins[j] <= W(C, r, k, j), W(C, r, k, j) <= maxs[j]))))
        return dict(X_csum=C, xmins=mins, xmaxs=maxs, X_cdfs=cdfs, p_value=pv, i=i, j=j, n=n, l=l, min_seqlet_len=lo, max_seqlet_len=hi)

    def loops(self):
        def inner(E, fr):
            env = fr.env
            pv, old = env['p_value'], E.old.p_value
            j, l = env['j'], env['l']
            return [('p_value-shape', And(O.eq(pv.shape[0], old.shape[0]), O.eq(pv.shape[1], old.shape[1]))),
                    ('only-this-row-columns-1..k-written', E.forall(pv.shape, lambda r, c: Implies(Or(O.ne(r, j), c < 1, c >= 1 + E.it), O.eq(pv.elem(r, c), old.elem(r, c)))))]
        return {11: LoopSpec(inner)}

    def post_env(self, b, a, outcome, cfg):
        if outcome.startswith('raise'):
            return [('only-a-division-by-zero-may-stop-the-row', outcome == 'raise:ZeroDivisionError')]
        pv0, pv1 = b.p_value, a.p_value
        j, l = b.j, b.l
        out = [('p_value-shape', And(O.eq(pv1.shape[0], pv0.shape[0]), O.eq(pv1.shape[1], pv0.shape[1]))),
               ('only-cells-[j, 1..l-j-1]-written', O.forall(pv0.shape, lambda r, c: Implies(Or(O.ne(r, j), c < 1, c >= l - j), O.eq(pv1.elem(r, c), pv0.elem(r, c)))))]
        for nm in ('X_csum', 'xmins', 'xmaxs', 'X_cdfs'):
            out.extend(same(getattr(a, nm), getattr(b, nm), nm + '-unwritten'))
        return out

    def replay_fragment(self, cfg, st):
        return []


def _sink_append(fr, sink, item):
    """`seqlets.append((i, start, end, attr, p))` inside the calling loop: the list is a sink here; what is appended
    must be a well-formed seqlet (obligations at the append site, i.e. for every seqlet ever appended)"""
    ctx, env = fr.ctx, fr.env
    ok_shape = isinstance(item, tuple) and len(item) == 5
    ctx.oblige('appended:is-a-5-tuple', ok_shape, 'ensures')
    if not ok_shape:
        return None
    i, s, e, attr, p = [v.elem() if isinstance(v, Tn) and v.rank == 0 else v for v in item]
    l, j, af = env['l'], env['j'], env['additional_flanks']
    lo, hi = env['min_seqlet_len'], env['max_seqlet_len']
    C = env['X_csum']
    ctx.oblige('appended:example-index', O.eq(i, env['i']), 'ensures')
    ctx.oblige('appended:inside-the-example', And(0 <= s, s < e, e <= l), 'ensures')
    ctx.oblige('appended:p-value-not-above-the-threshold', p <= env['threshold'], 'ensures')
    ctx.oblige('appended:length-before-flanks-between-min-and-max', And(lo <= j - 1, j - 1 <= hi, j - 1 <= e - s, e - s <= j - 1 + 2 * af), 'ensures')
    ctx.oblige('appended:attribution-is-the-span-sum', O.eq(attr, C.elem(env['i'], e - 1) - ite(s > 0, C.elem(env['i'], ite(s > 0, s - 1, 0)), 0)), 'ensures')
    sink.attrs['n'] = sink.attrs.get('n', 0) + 1
    return None


class RecursiveSeqletCalls(_KernelInputs, FragmentContract):
    """C19 (seqlet calling of _recursive_seqlets, the body of the loop over lengths j = max .. min+1 inside the
    per-example loop): EVERY seqlet appended lies inside its example (0 <= start < end <= l), has p <= threshold,
    spans j - 1 positions before flanks (min_seqlet_len <= j - 1 <= max_seqlet_len; with flanks at most 2*flanks
    more) and reports the prefix-sum difference of its span; every access of p_value and X_csum is inside its array
    (numba) - the extension step reads p_value[j-k, end+1] with end+1 < l because a called start lies in the written
    range [1, l-j) - and the representation invariant of the p-value matrix (cells outside [1, l-r) of row r hold 1)
    is preserved.  Precondition: threshold < 1."""
    qualname = 'tangermeme.seqlet._recursive_seqlets'
    props = ('C19',)
    loop_ordinal = 12
    key = 'tangermeme.seqlet._recursive_seqlets#calls'

    def scopes(self, cfg):
        return []

    @staticmethod
    def I1(fa, pv, l):
        return fa(pv.shape, lambda r, c: Implies(Or(c < 1, c >= l - r), O.eq(pv.elem(r, c), 1)))

    def make_env(self, cfg, A):
        from vf.values import Opaque
        n, l = A.dim('n', 1), A.dim('l', 1)
        lo, hi = A.int('min_seqlet_len', lo=1), A.int('max_seqlet_len', lo=1)
        A.assume(lo <= hi)
        C = A.tensor('X_csum', 2, 'real', lib='np', shape=[n, l])
        pv = A.tensor('p_value', 2, 'real', lib='np', shape=[hi + 1, l])
        thr = A.real('threshold')
        A.assume(thr < 1)
        i = A.int('i', lo=0)
        jj = A.int('j', lo=0)           # the loop variable of `for j in range(max - min)` (re-bound to max - j by the body)
        A.assume(i < n, jj < hi - lo)
        A.assume(self.I1(O.forall_hyp, pv, l))
        return dict(X_csum=C, p_value=pv, threshold=thr, i=i, j=jj, n=n, l=l, min_seqlet_len=lo, max_seqlet_len=hi,
                    additional_flanks=A.int('additional_flanks', lo=0), seqlets=Opaque('seqlets', 'seqlet_sink', {}))

    def loops(self):
        I1 = self.I1

        def base(E, fr):
            env = fr.env
            pv = env['p_value']
            return [('p_value-shape', And(O.eq(pv.shape[0], env['max_seqlet_len'] + 1), O.eq(pv.shape[1], env['l']))),
                    ('cells-outside-the-written-range-hold-1', I1(E.forall, pv, env['l']))]

        def ext(E, fr):
            env = fr.env
            return base(E, fr) + [('end = start + k', O.eq(env['end'], env['start'] + E.it)),
                                  ('called-start-lies-in-the-written-range', And(1 <= env['start'], env['start'] < env['l'] - env['j'])),
                                  ('p <= threshold', env['p'] <= env['threshold'])]

        def ext_break(E, fr):
            return base(E, fr)
        return {13: LoopSpec(base, on_break=base), 14: LoopSpec(ext, on_break=ext_break), 15: LoopSpec(base), 16: LoopSpec(base)}

    def post_env(self, b, a, outcome, cfg):
        out = [('no-exception', not outcome.startswith('raise'))]
        if not out[0][1]:
            return out
        pv = a.p_value
        out.append(('p_value-shape', And(O.eq(pv.shape[0], b.p_value.shape[0]), O.eq(pv.shape[1], b.p_value.shape[1]))))
        out.append(('cells-outside-the-written-range-hold-1', self.I1(O.forall, pv, b.l)))
        out.extend(same(a.X_csum, b.X_csum, 'X_csum-unwritten'))
        return out

    def replay_fragment(self, cfg, st):
        return []


class TfmodiscoSeqletRow(FragmentContract):
    """C19 (row construction of tfmodisco_seqlets, the body of its last loop): for a seqlet (example, start, end) that
    spans window_size + 2*flank positions, the row appended is (example, start, end, attr) with attr exactly the sum
    of the input over the central window [start + flank, start + flank + window_size) - whatever the flank, the
    window size and the position; the attribution tensor is not written."""
    qualname = 'tangermeme.seqlet.tfmodisco_seqlets'
    props = ('C19',)
    stmt_block = ('attr_flank = int(0.5', ('until', 'seqlets_.append('))
    key = 'tangermeme.seqlet.tfmodisco_seqlets#row'

    def scopes(self, cfg):
        return [{'default': 3, 'X_attr.d1': 6}, {'default': 2, 'X_attr.d1': 4}]

    def make_env(self, cfg, A):
        n, L = A.dim('n', 1), A.dim('L', 1)
        X = A.tensor('X_attr', 2, 'real', shape=[n, L])
        e = A.int('example_id', lo=0)
        st, w, fl = A.int('start_', lo=0), A.int('window_size', lo=1), A.int('flank', lo=0)
        A.assume(e < n, st + w + 2 * fl <= L)
        start = spec_tensor([], lambda: st, 'int')
        end = spec_tensor([], lambda: st + w + 2 * fl, 'int')
        return dict(X_attr=X, example_id=e, start=start, end=end, window_size=w, seqlets_=[], _st=st, _fl=fl)

    def post_env(self, b, a, outcome, cfg):
        from vf.lib import Sum
        out = [('no-exception', not outcome.startswith('raise'))]
        S = a.seqlets_
        out.append(('one-row-appended', isinstance(S, list) and len(S) == 1 and isinstance(S[0], tuple) and len(S[0]) == 4))
        if not (out[0][1] and out[1][1]):
            return out
        e, s, en, attr = S[0]
        st, fl, w = b._st, b._fl, b.window_size
        out.append(('fields', And(O.eq(e, b.example_id), O.eq(s, st), O.eq(en, st + w + 2 * fl))))
        X = b.X_attr
        if not O.any_sym(st, fl, w, attr):
            from vf.contract import num_eq
            out.append(('attribution-is-the-central-window-sum', num_eq(float(attr), sum(float(X[b.example_id, k]) for k in range(int(st + fl), int(st + fl + w))))))
        else:
            out.append(('attribution-is-the-central-window-sum', O.smart_eq(O.to_z3(attr), O.to_z3(Sum(0, w, lambda k: X.elem(b.example_id, st + fl + k), 'real')))))
        out.extend(same(a.X_attr, b.X_attr, 'X_attr-unwritten'))
        return out

    def replay_fragment(self, cfg, st):
        import torch
        from vf.contract import replay_fragment_generic
        n, L = st.get('X_attr.shape', [1, 8])
        if n < 1 or L < 1 or n * L > 4096:
            return []
        s0, fl, w = int(st.get('_st', 0)), int(st.get('_fl', 0)), int(st.get('window_size', 1))
        if not (0 <= s0 and w >= 1 and fl >= 0 and s0 + w + 2 * fl <= L and 0 <= st['example_id'] < n):
            return []
        g = torch.Generator().manual_seed(0)
        X = torch.randint(-64, 65, (n, L), generator=g).double() / 64
        env = dict(X_attr=X, example_id=int(st['example_id']), start=torch.tensor(s0), end=torch.tensor(s0 + w + 2 * fl), window_size=w, seqlets_=[],
                   _st=s0, _fl=fl)
        return replay_fragment_generic(self._world, self, cfg, env)


class IterativeExtractStep(FragmentContract):
    """C19 (one step of _iterative_extract_seqlets, the body of its `while True`): with a the first position of the
    maximum of row i, the step stops (break) exactly when that maximum is -inf; otherwise it appends the seqlet
    (i, a - flank, a + window_size + flank) and sets to -inf exactly the cells of row i within `suppress` of a
    (clipped to the row: [max(a - suppress, 0), min(a + suppress + 1, d))), nothing else.  Consequence (argued, not
    machine-checked): a later maximum of the same row is finite, hence outside every suppressed range - two seqlets
    of one example have starts more than `suppress` apart."""
    qualname = 'tangermeme.seqlet._iterative_extract_seqlets'
    props = ('C19',)
    stmt_block = ('argmax = ', ('until', 'X_sum['))
    key = 'tangermeme.seqlet._iterative_extract_seqlets#step'

    def scopes(self, cfg):
        return [{'default': 2, 'X_sum.d1': 4}, {'default': 1, 'X_sum.d1': 3}]

    def make_env(self, cfg, A):
        n, d = A.dim('n', 1), A.dim('d', 1)
        X = A.tensor('X_sum', 2, 'real', shape=[n, d])
        i = A.int('i', lo=0)
        A.assume(i < n)
        return dict(X_sum=X, n=n, d=d, i=i, window_size=A.int('window_size', lo=1), flank=A.int('flank', lo=0), suppress=A.int('suppress', lo=0), seqlets=[])

    def post_env(self, b, a, outcome, cfg):
        from vf.ops import PINF
        from vf.spec import _symbolic_content
        X0, X1 = b.X_sum, a.X_sum
        i, d = b.i, b.d
        if not O.any_sym(i, d) and not _symbolic_content(X0):
            PINF = float('inf')          # concrete interpretation (replay on real tensors)
        allinf = O.forall([d], lambda c: X0.elem(i, c) <= -PINF)     # no cell above -inf (in IEEE arithmetic: every cell is -inf)
        out = [('no-exception', not outcome.startswith('raise'))]
        if outcome == 'break':
            out.append(('stops-only-when-the-row-is-exhausted', allinf))
            out.append(('nothing-appended', isinstance(a.seqlets, list) and len(a.seqlets) == 0))
            out.extend(same(X1, X0, 'X_sum-unchanged'))
            return out
        out.append(('continues-only-with-a-finite-maximum', O.exists_box([d], lambda c: O.ne(X0.elem(i, c), -PINF))))
        S = a.seqlets
        out.append(('one-seqlet-appended', isinstance(S, list) and len(S) == 1 and isinstance(S[0], tuple) and len(S[0]) == 3))
        if not out[-1][1]:
            return out
        sc = lambda v: v.elem() if isinstance(v, Tn) and v.rank == 0 else v
        e, s, en = [sc(v) for v in S[0]]
        am = s + b.flank
        out.append(('seqlet-is-(i, a - flank, a + window + flank)', And(O.eq(e, i), O.eq(en, am + b.window_size + b.flank))))
        out.append(('a-is-the-first-maximum-of-the-row', And(0 <= am, am < d, O.forall([d], lambda c: And(X0.elem(i, c) <= X0.elem(i, am), Implies(c < am, X0.elem(i, c) < X0.elem(i, am)))))))
        lo = O.vmax(am - b.suppress, 0)
        hi = O.vmin(am + b.suppress + 1, d)
        out.append(('exactly-the-cells-within-suppress-are-cleared', O.forall(X0.shape, lambda r, c: O.eq(X1.elem(r, c), ite(And(O.eq(r, i), lo <= c, c < hi), -PINF, X0.elem(r, c))))))
        return out

    def replay_fragment(self, cfg, st):
        import torch
        from vf.contract import replay_fragment_generic
        n, d = st.get('X_sum.shape', [1, 6])
        if n < 1 or d < 1 or n * d > 4096:
            return []
        vals = st.get('X_sum')
        if vals is None:
            g = torch.Generator().manual_seed(1)
            X = torch.randint(-3, 4, (n, d), generator=g).double()
        else:
            X = torch.tensor([[float('-inf') if abs(float(v)) > 1e29 else float(int(round(float(v))) % 5) for v in r] for r in vals], dtype=torch.float64)
        env = dict(X_sum=X, n=n, d=d, i=int(st['i']) % n, window_size=max(1, int(st.get('window_size', 1)) % 4), flank=abs(int(st.get('flank', 0))) % 3,
                   suppress=abs(int(st.get('suppress', 0))) % 4, seqlets=[])
        return replay_fragment_generic(self._world, self, cfg, env)


def register(world):
    world.register_fragment(RecursiveSeqletEmit())
    world.register_fragment(RecursiveSeqletCsum())
    world.register_fragment(RecursiveSeqletCdf())
    world.register_fragment(RecursiveSeqletPvalueRow())
    world.register_fragment(RecursiveSeqletCalls())
    world.methods['seqlet_sink.append'] = _sink_append
    world.register_fragment(TfmodiscoSeqletRow())
    world.register_fragment(IterativeExtractStep())
