"""Contracts of tangermeme.seqlet (property C19)."""
import z3
from vf import ops as O
from vf.ops import And, Or, Not, ite, Implies
from vf.tensor import Tn, Unsupported
from vf.contract import Contract, FragmentContract, same
from vf.world import LoopSpec, defined_loop
from vf.spec import spec_tensor

PSX = z3.Function('PSX', z3.IntSort(), z3.IntSort(), z3.RealSort())   # prefix sums of X: PSX(i, j) = sum_{k<=j} X[i,k]


class RecursiveSeqletEmit(FragmentContract):
    """C19 (emission block of _recursive_seqlets): the seqlet appended for a core [start, end] found in
    example i is (i, s, e, attr, p) with s = max(start - flanks, 0), e = min(end + min_len + flanks
    - 1, l), it lies inside the example (0 <= s < e <= l), and attr is exactly the sum of the input
    over [s, e) (prefix-sum difference csum[e-1] - csum[s-1] with csum[-1] = 0, Lean lemma
    prefix_sum_diff) - in particular no index of the prefix-sum table wraps around."""
    qualname = 'tangermeme.seqlet._recursive_seqlets'
    props = ('C19',)
    stmt_block = ('start = max(start - additional_flanks, 0)', ('until', 'seqlets.append('))
    key = 'tangermeme.seqlet._recursive_seqlets#emit'

    def make_env(self, cfg, A):
        n, l = A.dim('n', 1), A.dim('l', 1)
        X = A.tensor('X', 2, 'real', lib='np', shape=[n, l])
        fx = z3.Function('X', z3.IntSort(), z3.IntSort(), z3.RealSort())
        i_, j_ = z3.Ints('pi_ pj_')
        A.assume(z3.ForAll([i_], PSX(i_, -1) == 0))
        A.assume(z3.ForAll([i_, j_], z3.Implies(j_ >= 0, PSX(i_, j_) == PSX(i_, j_ - 1) + fx(i_, j_)), patterns=[PSX(i_, j_)]))
        X_csum = spec_tensor([n, l], lambda i, j: PSX(O.to_z3(i), O.to_z3(j)), 'real', lib='np')
        X_csum.cell.origin = 'fresh:X_csum'
        env = dict(X=X, X_csum=X_csum, l=l, n=n, i=A.int('i', lo=0), start=A.int('start', lo=0), end=A.int('end'),
                   additional_flanks=A.int('additional_flanks', lo=0), min_seqlet_len=A.int('min_seqlet_len', lo=1),
                   p=A.real('p'), seqlets=[])
        # context established by the enclosing scan (assumed here): the core was extended at least once
        # (j > min_seqlet_len iterations without break), start comes from argmin over a row of length l
        A.assume(env['i'] < n, env['start'] + 1 <= env['end'], env['end'] < l)
        return env

    def post_env(self, b, a, outcome, cfg):
        out = [('no-exception', not outcome.startswith('raise'))]
        S = a.seqlets
        out.append(('one-seqlet-appended', isinstance(S, list) and len(S) == 1 and isinstance(S[0], tuple) and len(S[0]) == 5))
        if not (out[0][1] and out[1][1]):
            return out
        i, s, e, attr, p = S[0]
        af, ml, l = b.additional_flanks, b.min_seqlet_len, b.l
        s_exp = O.vmax(b.start - af, 0)
        e_exp = O.vmin(b.end + ml + af - 1, l)
        out.append(('fields', And(O.eq(i, b.i), O.eq(s, s_exp), O.eq(e, e_exp), O.eq(p, b.p))))
        out.append(('inside-example', And(0 <= s, s < e, e <= l)))
        if not O.any_sym(b.i, s_exp, e_exp, attr):
            from vf.contract import num_eq
            span = sum(float(b.X[b.i, k]) for k in range(int(s_exp), int(e_exp)))
            out.append(('attribution-is-span-sum', num_eq(float(attr), span)))
        else:
            out.append(('attribution-is-span-sum', O.eq(attr, PSX(O.to_z3(b.i), O.to_z3(e_exp - 1)) - ite(s_exp > 0, PSX(O.to_z3(b.i), O.to_z3(s_exp - 1)), 0))))
        return out

    def replay_fragment(self, cfg, st):
        """the real statements of the emission block on a concrete track (prefix sums computed by numpy)"""
        import numpy
        from vf.contract import replay_fragment_generic
        n, l = st.get('X.shape', [1, 8])
        if n < 1 or l < 1 or n * l > 4096:
            return []
        rs = numpy.random.RandomState(0)
        X = numpy.round(rs.normal(0, 1, (n, l)) * 64) / 64
        env = dict(X=X, X_csum=numpy.cumsum(X, axis=1), l=l, n=n, i=st['i'], start=st['start'], end=st['end'],
                   additional_flanks=st['additional_flanks'], min_seqlet_len=st['min_seqlet_len'], p=0.001, seqlets=[])
        if not (0 <= env['i'] < n and 0 <= env['start'] < env['end'] < l):
            return []
        return replay_fragment_generic(self._world, self, cfg, env)


def register(world):
    world.register_fragment(RecursiveSeqletEmit())
