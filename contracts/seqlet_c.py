"""Contracts of tangermeme.seqlet (property C19)."""
import z3
from vf import ops as O
from vf.ops import And, Or, Not, ite, Implies
from vf.tensor import Tn, Unsupported
from vf.contract import Contract, FragmentContract, same
from vf.world import LoopSpec, defined_loop
from vf.spec import spec_tensor

PSX = z3.Function('PSX', z3.IntSort(), z3.IntSort(), z3.RealSort())   # prefix sums of X: PSX(i, j) = sum_{k<=j} X[i,k]


class RecursiveSeqletEmit(FragmentContract):
    """C19 (emission block of _recursive_seqlets): the seqlet appended for a core [start, end] found in
    example i is (i, s, e, attr, p) with s = max(start - flanks, 0), e = min(end + min_len + flanks
    - 1, l), it lies inside the example (0 <= s < e <= l), and attr is exactly the sum of the input
    over [s, e) (prefix-sum difference csum[e-1] - csum[s-1] with csum[-1] = 0, Lean lemma
    prefix_sum_diff) - in particular no index of the prefix-sum table wraps around."""
    qualname = 'tangermeme.seqlet._recursive_seqlets'
    props = ('C19',)
    stmt_block = ('start = max(start - additional_flanks, 0)', ('until', 'seqlets.append('))
    key = 'tangermeme.seqlet._recursive_seqlets#emit'

    def make_env(self, cfg, A):
        n, l = A.dim('n', 1), A.dim('l', 1)
        X = A.tensor('X', 2, 'real', lib='np', shape=[n, l])
        fx = z3.Function('X', z3.IntSort(), z3.IntSort(), z3.RealSort())
        i_, j_ = z3.Ints('pi_ pj_')
        A.assume(z3.ForAll([i_], PSX(i_, -1) == 0))
        A.assume(z3.ForAll([i_, j_], z3.Implies(j_ >= 0, PSX(i_, j_) == PSX(i_, j_ - 1) + fx(i_, j_)), patterns=[PSX(i_, j_)]))
        X_csum = spec_tensor([n, l], lambda i, j: PSX(O.to_z3(i), O.to_z3(j)), 'real', lib='np')
        X_csum.cell.origin = 'fresh:X_csum'
        env = dict(X=X, X_csum=X_csum, l=l, n=n, i=A.int('i', lo=0), start=A.int('start', lo=0), end=A.int('end'),
                   additional_flanks=A.int('additional_flanks', lo=0), min_seqlet_len=A.int('min_seqlet_len', lo=1),
                   p=A.real('p'), seqlets=[])
        # context established by the enclosing scan (assumed here): the core was extended at least once
        # (j > min_seqlet_len iterations without break), start comes from argmin over a row of length l
        A.assume(env['i'] < n, env['start'] + 1 <= env['end'], env['end'] < l)
        return env

    def post_env(self, b, a, outcome, cfg):
        out = [('no-exception', not outcome.startswith('raise'))]
        S = a.seqlets
        out.append(('one-seqlet-appended', isinstance(S, list) and len(S) == 1 and isinstance(S[0], tuple) and len(S[0]) == 5))
        if not (out[0][1] and out[1][1]):
            return out
        i, s, e, attr, p = S[0]
        af, ml, l = b.additional_flanks, b.min_seqlet_len, b.l
        s_exp = O.vmax(b.start - af, 0)
        e_exp = O.vmin(b.end + ml + af - 1, l)
        out.append(('fields', And(O.eq(i, b.i), O.eq(s, s_exp), O.eq(e, e_exp), O.eq(p, b.p))))
        out.append(('inside-example', And(0 <= s, s < e, e <= l)))
        if not O.any_sym(b.i, s_exp, e_exp, attr):
            from vf.contract import num_eq
            span = sum(float(b.X[b.i, k]) for k in range(int(s_exp), int(e_exp)))
            out.append(('attribution-is-span-sum', num_eq(float(attr), span)))
        else:
            out.append(('attribution-is-span-sum', O.eq(attr, PSX(O.to_z3(b.i), O.to_z3(e_exp - 1)) - ite(s_exp > 0, PSX(O.to_z3(b.i), O.to_z3(s_exp - 1)), 0))))
        return out

    def replay_fragment(self, cfg, st):
        """the real statements of the emission block on a concrete track (prefix sums computed by numpy)"""
        import numpy
        from vf.contract import replay_fragment_generic
        n, l = st.get('X.shape', [1, 8])
        if n < 1 or l < 1 or n * l > 4096:
            return []
        rs = numpy.random.RandomState(0)
        X = numpy.round(rs.normal(0, 1, (n, l)) * 64) / 64
        env = dict(X=X, X_csum=numpy.cumsum(X, axis=1), l=l, n=n, i=st['i'], start=st['start'], end=st['end'],
                   additional_flanks=st['additional_flanks'], min_seqlet_len=st['min_seqlet_len'], p=0.001, seqlets=[])
        if not (0 <= env['i'] < n and 0 <= env['start'] < env['end'] < l):
            return []
        return replay_fragment_generic(self._world, self, cfg, env)


class TfmodiscoSeqletRow(FragmentContract):
    """C19 (row construction of tfmodisco_seqlets, the body of its last loop): for a seqlet (example, start, end) that
    spans window_size + 2*flank positions, the row appended is (example, start, end, attr) with attr exactly the sum
    of the input over the central window [start + flank, start + flank + window_size) - whatever the flank, the
    window size and the position; the attribution tensor is not written."""
    qualname = 'tangermeme.seqlet.tfmodisco_seqlets'
    props = ('C19',)
    stmt_block = ('attr_flank = int(0.5', ('until', 'seqlets_.append('))
    key = 'tangermeme.seqlet.tfmodisco_seqlets#row'

    def scopes(self, cfg):
        return [{'default': 3, 'X_attr.d1': 6}, {'default': 2, 'X_attr.d1': 4}]

    def make_env(self, cfg, A):
        n, L = A.dim('n', 1), A.dim('L', 1)
        X = A.tensor('X_attr', 2, 'real', shape=[n, L])
        e = A.int('example_id', lo=0)
        st, w, fl = A.int('start_', lo=0), A.int('window_size', lo=1), A.int('flank', lo=0)
        A.assume(e < n, st + w + 2 * fl <= L)
        start = spec_tensor([], lambda: st, 'int')
        end = spec_tensor([], lambda: st + w + 2 * fl, 'int')
        return dict(X_attr=X, example_id=e, start=start, end=end, window_size=w, seqlets_=[], _st=st, _fl=fl)

    def post_env(self, b, a, outcome, cfg):
        from vf.lib import Sum
        out = [('no-exception', not outcome.startswith('raise'))]
        S = a.seqlets_
        out.append(('one-row-appended', isinstance(S, list) and len(S) == 1 and isinstance(S[0], tuple) and len(S[0]) == 4))
        if not (out[0][1] and out[1][1]):
            return out
        e, s, en, attr = S[0]
        st, fl, w = b._st, b._fl, b.window_size
        out.append(('fields', And(O.eq(e, b.example_id), O.eq(s, st), O.eq(en, st + w + 2 * fl))))
        X = b.X_attr
        if not O.any_sym(st, fl, w, attr):
            from vf.contract import num_eq
            out.append(('attribution-is-the-central-window-sum', num_eq(float(attr), sum(float(X[b.example_id, k]) for k in range(int(st + fl), int(st + fl + w))))))
        else:
            out.append(('attribution-is-the-central-window-sum', O.smart_eq(O.to_z3(attr), O.to_z3(Sum(0, w, lambda k: X.elem(b.example_id, st + fl + k), 'real')))))
        out.extend(same(a.X_attr, b.X_attr, 'X_attr-unwritten'))
        return out

    def replay_fragment(self, cfg, st):
        import torch
        from vf.contract import replay_fragment_generic
        n, L = st.get('X_attr.shape', [1, 8])
        if n < 1 or L < 1 or n * L > 4096:
            return []
        s0, fl, w = int(st.get('_st', 0)), int(st.get('_fl', 0)), int(st.get('window_size', 1))
        if not (0 <= s0 and w >= 1 and fl >= 0 and s0 + w + 2 * fl <= L and 0 <= st['example_id'] < n):
            return []
        g = torch.Generator().manual_seed(0)
        X = torch.randint(-64, 65, (n, L), generator=g).double() / 64
        env = dict(X_attr=X, example_id=int(st['example_id']), start=torch.tensor(s0), end=torch.tensor(s0 + w + 2 * fl), window_size=w, seqlets_=[],
                   _st=s0, _fl=fl)
        return replay_fragment_generic(self._world, self, cfg, env)


class IterativeExtractStep(FragmentContract):
    """C19 (one step of _iterative_extract_seqlets, the body of its `while True`): with a the first position of the
    maximum of row i, the step stops (break) exactly when that maximum is -inf; otherwise it appends the seqlet
    (i, a - flank, a + window_size + flank) and sets to -inf exactly the cells of row i within `suppress` of a
    (clipped to the row: [max(a - suppress, 0), min(a + suppress + 1, d))), nothing else.  Consequence (argued, not
    machine-checked): a later maximum of the same row is finite, hence outside every suppressed range - two seqlets
    of one example have starts more than `suppress` apart."""
    qualname = 'tangermeme.seqlet._iterative_extract_seqlets'
    props = ('C19',)
    stmt_block = ('argmax = ', ('until', 'X_sum['))
    key = 'tangermeme.seqlet._iterative_extract_seqlets#step'

    def scopes(self, cfg):
        return [{'default': 2, 'X_sum.d1': 4}, {'default': 1, 'X_sum.d1': 3}]

    def make_env(self, cfg, A):
        n, d = A.dim('n', 1), A.dim('d', 1)
        X = A.tensor('X_sum', 2, 'real', shape=[n, d])
        i = A.int('i', lo=0)
        A.assume(i < n)
        return dict(X_sum=X, n=n, d=d, i=i, window_size=A.int('window_size', lo=1), flank=A.int('flank', lo=0), suppress=A.int('suppress', lo=0), seqlets=[])

    def post_env(self, b, a, outcome, cfg):
        from vf.ops import PINF
        from vf.spec import _symbolic_content
        X0, X1 = b.X_sum, a.X_sum
        i, d = b.i, b.d
        if not O.any_sym(i, d) and not _symbolic_content(X0):
            PINF = float('inf')          # concrete interpretation (replay on real tensors)
        allinf = O.forall([d], lambda c: X0.elem(i, c) <= -PINF)     # no cell above -inf (in IEEE arithmetic: every cell is -inf)
        out = [('no-exception', not outcome.startswith('raise'))]
        if outcome == 'break':
            out.append(('stops-only-when-the-row-is-exhausted', allinf))
            out.append(('nothing-appended', isinstance(a.seqlets, list) and len(a.seqlets) == 0))
            out.extend(same(X1, X0, 'X_sum-unchanged'))
            return out
        out.append(('continues-only-with-a-finite-maximum', O.exists_box([d], lambda c: O.ne(X0.elem(i, c), -PINF))))
        S = a.seqlets
        out.append(('one-seqlet-appended', isinstance(S, list) and len(S) == 1 and isinstance(S[0], tuple) and len(S[0]) == 3))
        if not out[-1][1]:
            return out
        sc = lambda v: v.elem() if isinstance(v, Tn) and v.rank == 0 else v
        e, s, en = [sc(v) for v in S[0]]
        am = s + b.flank
        out.append(('seqlet-is-(i, a - flank, a + window + flank)', And(O.eq(e, i), O.eq(en, am + b.window_size + b.flank))))
        out.append(('a-is-the-first-maximum-of-the-row', And(0 <= am, am < d, O.forall([d], lambda c: And(X0.elem(i, c) <= X0.elem(i, am), Implies(c < am, X0.elem(i, c) < X0.elem(i, am)))))))
        lo = O.vmax(am - b.suppress, 0)
        hi = O.vmin(am + b.suppress + 1, d)
        out.append(('exactly-the-cells-within-suppress-are-cleared', O.forall(X0.shape, lambda r, c: O.eq(X1.elem(r, c), ite(And(O.eq(r, i), lo <= c, c < hi), -PINF, X0.elem(r, c))))))
        return out

    def replay_fragment(self, cfg, st):
        import torch
        from vf.contract import replay_fragment_generic
        n, d = st.get('X_sum.shape', [1, 6])
        if n < 1 or d < 1 or n * d > 4096:
            return []
        vals = st.get('X_sum')
        if vals is None:
            g = torch.Generator().manual_seed(1)
            X = torch.randint(-3, 4, (n, d), generator=g).double()
        else:
            X = torch.tensor([[float('-inf') if abs(float(v)) > 1e29 else float(int(round(float(v))) % 5) for v in r] for r in vals], dtype=torch.float64)
        env = dict(X_sum=X, n=n, d=d, i=int(st['i']) % n, window_size=max(1, int(st.get('window_size', 1)) % 4), flank=abs(int(st.get('flank', 0))) % 3,
                   suppress=abs(int(st.get('suppress', 0))) % 4, seqlets=[])
        return replay_fragment_generic(self._world, self, cfg, env)


def register(world):
    world.register_fragment(RecursiveSeqletEmit())
    world.register_fragment(TfmodiscoSeqletRow())
    world.register_fragment(IterativeExtractStep())
