"""Contracts of tangermeme.deep_lift_shap (properties C04, C05, C06, C07)."""
import z3
from vf import ops as O
from vf.ops import And, Or, Not, ite, Implies
from vf.tensor import Tn, Unsupported
from vf.values import Opaque
from vf.contract import Contract, same
from vf.world import LoopSpec, defined_loop
from vf.spec import spec_tensor
from vf.lib import Sum


class HypotheticalAttributions(Contract):
    """C05 (projection): for every reference row b, character k and position p the returned value is
    sum_c (e_k - ref[b])[c, p] * m[b, c, p]; the inputs are not written."""
    qualname = 'tangermeme.deep_lift_shap.hypothetical_attributions'
    props = ('C05', 'C04')

    def make_args(self, cfg, A):
        shape = [A.dim('n', 0), A.dim('A', 0), A.dim('L', 0)]
        m = A.tensor('m', 3, 'real', shape=shape)
        X = A.tensor('X', 3, 'real', shape=shape)
        ref = A.tensor('ref', 3, 'real', shape=shape)
        return [(m,), (X,), (ref,)], {}

    @staticmethod
    def spec(m, ref, upto=None):
        Ad = m.shape[1]

        def elem(b, k, p):
            v = Sum(0, Ad, lambda c: (ite(O.eq(c, k), 1, 0) - ref[b, c, p]) * m[b, c, p], 'real')
            return v if upto is None else ite(k < upto, v, 0)
        return spec_tensor(m.shape, elem, 'real')

    def result(self, a, cfg):
        return (self.spec(a.multipliers[0], a.references[0]),)

    def loops(self):
        def d(fr, it):
            env = fr.env
            return HypotheticalAttributions.spec(env['multipliers'][0], env['references'][0], upto=it)
        return {2: defined_loop({'projected_contribs': d})}


class Nonlinear(Contract):
    """C05 (rescale rule) / C04 (local completeness): with the captured activations of the
    concatenated [examples; references] batch (2h rows), the multiplier handed upstream for row r is
    grad_output * (out(x) - out(ref)) / (in(x) - in(ref)) of the *pair* r mod h, and the ordinary
    gradient where |in(x) - in(ref)| < 1e-6; hence (m_in * delta_in)[r] = (m_out * delta_out)[r]
    wherever the rule applies (summation-to-delta carried through the layer)."""
    qualname = 'tangermeme.deep_lift_shap._nonlinear'
    props = ('C05', 'C04')

    def configs(self):
        return [dict(rank=2), dict(rank=3)]

    def make_args(self, cfg, A):
        h = A.dim('h', 0)
        shape = [2 * h] + [A.dim('d%d' % i, 0) for i in range(1, cfg['rank'])]
        inp, out = A.tensor('input', cfg['rank'], 'real', shape=shape), A.tensor('output', cfg['rank'], 'real', shape=shape)

        def conc(model):
            from vf.concrete import concretize_tensor
            from vf.models import AttrObject
            return AttrObject('nn_module', input=concretize_tensor(model, inp), output=concretize_tensor(model, out))
        mod = Opaque('module', 'nn_module', attrs={'input': inp, 'output': out, 'concretize': conc})
        gi = A.tensor('grad_input', cfg['rank'], 'real', shape=shape)
        go = A.tensor('grad_output', cfg['rank'], 'real', shape=shape)
        return [mod, (gi,), (go,)], {}

    def deltas(self, a):
        inp, out = a.module.attrs['input'], a.module.attrs['output']
        h = O.floordiv(inp.shape[0], 2)

        def pair(t, idx):
            r = idx[0]
            q = ite(r < h, r, r - h)
            return t[(q,) + tuple(idx[1:])] - t[(q + h,) + tuple(idx[1:])]
        return (lambda *idx: pair(inp, idx)), (lambda *idx: pair(out, idx))

    def result(self, a, cfg):
        din, dout = self.deltas(a)
        gi, go = a.grad_input[0], a.grad_output[0]

        def elem(*idx):
            d = din(*idx)
            return ite(And(d < 1e-6, -d < 1e-6), gi[idx], go[idx] * (dout(*idx) / d))
        return (spec_tensor(gi.shape, elem, 'real'),)

    def post(self, a, r, cfg):
        if not (isinstance(r, tuple) and len(r) == 1 and isinstance(r[0], Tn)):
            return [('one-tensor-tuple', False)]
        din, dout = self.deltas(a)
        go = a.grad_output[0]
        m = r[0]

        def complete(*idx):
            d = din(*idx)
            return Implies(Not(And(d < 1e-6, -d < 1e-6)), O.eq(m[idx] * d, go[idx] * dout(*idx)))
        return [('summation-to-delta', O.forall(m.shape, complete))]


def register(world):
    world.register(HypotheticalAttributions())
    world.register(Nonlinear())
