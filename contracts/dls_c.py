"""Contracts of tangermeme.deep_lift_shap (properties C04, C05, C06, C07)."""
import z3
from vf import ops as O
from vf.ops import And, Or, Not, ite, Implies
from vf.tensor import Tn, Unsupported
from vf.values import Opaque, StackList
from vf.contract import Contract, same, num_eq
from vf.world import LoopSpec, defined_loop
from vf.spec import spec_tensor
from vf.lib import Sum


class HypotheticalAttributions(Contract):
    """C05 (projection): for every reference row b, character k and position p the returned value is
    sum_c (e_k - ref[b])[c, p] * m[b, c, p]; the inputs are not written."""
    qualname = 'tangermeme.deep_lift_shap.hypothetical_attributions'
    props = ('C05', 'C04')

    def make_args(self, cfg, A):
        shape = [A.dim('n', 0), A.dim('A', 0), A.dim('L', 0)]
        m = A.tensor('m', 3, 'real', shape=shape)
        X = A.tensor('X', 3, 'real', shape=shape)
        ref = A.tensor('ref', 3, 'real', shape=shape)
        return [(m,), (X,), (ref,)], {}

    @staticmethod
    def spec(m, ref, upto=None):
        Ad = m.shape[1]

        def elem(b, k, p):
            v = Sum(0, Ad, lambda c: (ite(O.eq(c, k), 1, 0) - ref[b, c, p]) * m[b, c, p], 'real')
            return v if upto is None else ite(k < upto, v, 0)
        return spec_tensor(m.shape, elem, 'real')

    def result(self, a, cfg):
        return (self.spec(a.multipliers[0], a.references[0]),)

    def loops(self):
        def d(fr, it):
            env = fr.env
            return HypotheticalAttributions.spec(env['multipliers'][0], env['references'][0], upto=it)
        return {2: defined_loop({'projected_contribs': d})}


class Nonlinear(Contract):
    """C05 (rescale rule) / C04 (local completeness): with the captured activations of the
    concatenated [examples; references] batch (2h rows), the multiplier handed upstream for row r is
    grad_output * (out(x) - out(ref)) / (in(x) - in(ref)) of the *pair* r mod h, and the ordinary
    gradient where |in(x) - in(ref)| < 1e-6; hence (m_in * delta_in)[r] = (m_out * delta_out)[r]
    wherever the rule applies (summation-to-delta carried through the layer)."""
    qualname = 'tangermeme.deep_lift_shap._nonlinear'
    props = ('C05', 'C04')

    def configs(self):
        return [dict(rank=2), dict(rank=3)]

    def make_args(self, cfg, A):
        h = A.dim('h', 0)
        shape = [2 * h] + [A.dim('d%d' % i, 0) for i in range(1, cfg['rank'])]
        inp, out = A.tensor('input', cfg['rank'], 'real', shape=shape), A.tensor('output', cfg['rank'], 'real', shape=shape)

        def conc(model):
            from vf.concrete import concretize_tensor
            from vf.models import AttrObject
            return AttrObject('nn_module', input=concretize_tensor(model, inp), output=concretize_tensor(model, out))
        mod = Opaque('module', 'nn_module', attrs={'input': inp, 'output': out, 'concretize': conc})
        gi = A.tensor('grad_input', cfg['rank'], 'real', shape=shape)
        go = A.tensor('grad_output', cfg['rank'], 'real', shape=shape)
        return [mod, (gi,), (go,)], {}

    def deltas(self, a):
        inp, out = a.module.attrs['input'], a.module.attrs['output']
        h = O.floordiv(inp.shape[0], 2)

        def pair(t, idx):
            r = idx[0]
            q = ite(r < h, r, r - h)
            return t[(q,) + tuple(idx[1:])] - t[(q + h,) + tuple(idx[1:])]
        return (lambda *idx: pair(inp, idx)), (lambda *idx: pair(out, idx))

    def result(self, a, cfg):
        din, dout = self.deltas(a)
        gi, go = a.grad_input[0], a.grad_output[0]

        def elem(*idx):
            d = din(*idx)
            return ite(And(d < 1e-6, -d < 1e-6), gi[idx], go[idx] * (dout(*idx) / d))
        return (spec_tensor(gi.shape, elem, 'real'),)

    def post(self, a, r, cfg):
        if not (isinstance(r, tuple) and len(r) == 1 and isinstance(r[0], Tn)):
            return [('one-tensor-tuple', False)]
        din, dout = self.deltas(a)
        go = a.grad_output[0]
        m = r[0]

        def complete(*idx):
            d = din(*idx)
            return Implies(Not(And(d < 1e-6, -d < 1e-6)), O.eq(m[idx] * d, go[idx] * dout(*idx)))
        return [('summation-to-delta', O.forall(m.shape, complete))]


# ------------------------------------------------------------------------------------------------
# deep_lift_shap: the scheduling loop (C06), the hook protocol (C07) and the composition of the
# per-pair multipliers into attributions (C04/C05) — whole function under contract.

def _row(t, e):
    """row e of t as a tensor with leading dimension 1"""
    return spec_tensor([1] + list(t.shape[1:]), lambda b, *i: t.elem(e, *i), t.kind)


class DeepLiftShap(Contract):
    """For every batch size, number of examples and number of references: the pairs (example e,
    reference j) are processed in the order e*ns + j; pair p is evaluated with X[p // ns], its own
    reference (references[p // ns, p % ns], or references(X[p // ns], random_state + p % ns)) and its own
    extra arguments; result[e] combines exactly the ns pairs of example e (mean of the projected
    multipliers, masked by X[e] unless hypothetical; the raw multipliers with raw_outputs).  Hence the
    result does not mention the batch size or any other example.  On every exit, normal or exceptional
    (model forward, backward, reference generator, hook registration), the DeepLIFT hooks are removed."""
    qualname = 'tangermeme.deep_lift_shap.deep_lift_shap'
    props = ('C06', 'C07', 'C04', 'C05')
    use_at_calls = False

    def configs(self):
        return [dict(refs='tensor', na=0, mode='processed', rr=False),
                dict(refs='tensor', na=1, mode='raw', rr=False),
                dict(refs='seeded', na=0, mode='hypothetical', rr=True),
                dict(refs='seeded', na=1, mode='processed', rr=True),
                dict(refs='unseeded', na=0, mode='processed', rr=False),
                dict(refs='tensor', na=0, mode='raw', rr=False, extra_ops=True)]

    def cfg_name(self, cfg):
        return '%s,args=%d,%s%s%s' % (cfg['refs'], cfg['na'], cfg['mode'], ',return_references' if cfg['rr'] else '',
                                      ',additional_nonlinear_ops' if cfg.get('extra_ops') else '')

    def scopes(self, cfg):
        return [{'default': 2, 'n_shuffles': 2, 'ns': 2, 'batch_size': 3}, {'default': 2, 'N': 3, 'n_shuffles': 2, 'ns': 2, 'batch_size': 1},
                {'default': 2, 'n_shuffles': 3, 'ns': 3, 'batch_size': 2}, {'default': 2, 'n_shuffles': 2, 'ns': 2, 'batch_size': 5}]

    def make_args(self, cfg, A):
        from vf.world import RowWise
        N, Ad, Ld, T = A.dim('N', 1), A.dim('A', 1), A.dim('L', 1), A.dim('T', 1)
        X = A.tensor('X', 3, 'real', shape=[N, Ad, Ld])
        rw = RowWise('M', None, 'tuple', [[T]], recording=A.scope is not None)
        model = Opaque('M', 'model', {'rowwise': rw, 'training': z3.Bool('M.training0'), 'sub_training': z3.Bool('M.sub_training0'), 'require_eval_nograd': False, 'require_eval': True,
                                      'n_args': cfg['na'], 'types': ['model'], 'may_raise': True})
        args = None if cfg['na'] == 0 else tuple(A.tensor('arg%d' % i, 2, 'real', shape=[N, A.dim('arg%d.d1' % i, 1)]) for i in range(cfg['na']))
        target = A.int('target')
        A.assume(target >= 0, target < T)
        A.ctx.ghost['dls_target'] = target
        bs = A.int('batch_size', lo=1)
        ns = A.int('n_shuffles', lo=1)
        seed = None
        if cfg['refs'] == 'tensor':
            references = A.tensor('references', 4, 'real', shape=[N, A.dim('ns', 1), Ad, Ld])
        else:
            references = Opaque('SHUF', 'shuffle_fn', {'types': ['function'], 'recording': A.scope is not None, 'may_raise': True})
            seed = A.int('seed') if cfg['refs'] == 'seeded' else None
        kw = dict(args=args, target=target, batch_size=bs, references=references, n_shuffles=ns, return_references=cfg['rr'],
                  hypothetical=cfg['mode'] == 'hypothetical', raw_outputs=cfg['mode'] == 'raw', device='cpu', random_state=seed,
                  warning_threshold=A.real('warning_threshold'))
        if cfg.get('extra_ops'):
            # a user-supplied rule for one more layer type: it must stay local to this call
            from vf.values import LibFn
            kw['additional_nonlinear_ops'] = {('libref', 'torch.nn.Softsign'): LibFn('user.softsign_rule')}
        return [model, X], kw

    def repair_concrete(self, cfg, args, kwargs):
        if cfg.get('extra_ops'):
            from vf.models import ExtraOps
            kwargs = dict(kwargs, additional_nonlinear_ops=ExtraOps.build())
        return args, kwargs

    # -------------------------------------------------------------- specification vocabulary
    @staticmethod
    def NS(env):
        r = env['references']
        return r.shape[1] if isinstance(r, Tn) else env['n_shuffles']

    @staticmethod
    def ref_row(env, e, j):
        """the reference of pair (e, j) as a [1, A, L] tensor"""
        r, X = env['references'], env['X']
        if isinstance(r, Tn):
            return spec_tensor([1] + list(X.shape[1:]), lambda b, c, l: r.elem(e, j, c, l), 'real')
        from vf.world import shuffle_fn_result
        seed = env['random_state']
        if seed is None:
            seed = env['_tape'](e, j)
        sh = shuffle_fn_result(r, _row(X, e), 1, None, None, seed + j if env['random_state'] is not None else seed)
        return spec_tensor([1] + list(X.shape[1:]), lambda b, c, l: sh.elem(0, 0, c, l), 'real')

    @staticmethod
    def pair(env, cfg, e, j):
        """what pair (example e, reference j) contributes: a [A, L] element function"""
        from vf.world import dl_grad
        X, args, model = env['X'], env['args'], env['model']
        R = DeepLiftShap.ref_row(env, e, j)
        ins = [_row(X, e), R]
        for a_ in (args or ()):
            ins += [_row(a_, e), _row(a_, e)]
        G = dl_grad(model, ins, env['target'], [1] + list(X.shape[1:]))
        if cfg['mode'] == 'raw':
            return lambda c, l: G.elem(0, c, l)
        H = HypotheticalAttributions.spec(G, R)
        return lambda c, l: H.elem(0, c, l)

    @staticmethod
    def pair_p(env, cfg, p):
        ns = DeepLiftShap.NS(env)
        return DeepLiftShap.pair(env, cfg, O.floordiv(p, ns), O.mod(p, ns))

    @staticmethod
    def attribution(env, cfg, e, by_pair_index=True):
        """result[e]: element function over (c, l) — (j, c, l) with raw outputs"""
        ns, X = DeepLiftShap.NS(env), env['X']
        if by_pair_index:
            P = lambda j: DeepLiftShap.pair_p(env, cfg, O.mul(e, ns) + j)
        else:
            P = lambda j: DeepLiftShap.pair(env, cfg, e, j)
        if cfg['mode'] == 'raw':
            return lambda j, c, l: P(j)(c, l)
        mean = lambda c, l: O.truediv(Sum(0, ns, lambda j: P(j)(c, l), 'real'), ns)
        if cfg['mode'] == 'hypothetical':
            return mean
        return lambda c, l: mean(c, l) * X.elem(e, c, l)

    # -------------------------------------------------------------- contract clauses
    environment_failures = ('model-forward', 'backward', 'reference-generator', 'register-hooks')

    def pre(self, a, cfg):
        return []

    def _env(self, a):
        env = dict(a.__dict__)
        env['n_shuffles'] = self.NS(env)
        return env

    # ---- opaque pair values (hide the definition the loop proofs do not need; reveal = `pv_eq`)
    PV = z3.Function('DLS.pair_value', z3.IntSort(), z3.IntSort(), z3.IntSort(), z3.IntSort(), z3.RealSort())

    @staticmethod
    def pv(e, j, c, l):
        """PV(e, j, c, l) := pair(e, j)(c, l)  — a definition; its instances are revealed explicitly"""
        return DeepLiftShap.PV(*[O.to_z3(x) for x in (e, j, c, l)])

    @staticmethod
    def pv_p(env, p, c, l):
        ns = DeepLiftShap.NS(env)
        return DeepLiftShap.pv(O.floordiv(p, ns), O.mod(p, ns), c, l)

    @staticmethod
    def pv_eq(env, cfg, x, e, j, c, l):
        """x == PV(e, j, c, l), revealing the definition of PV where x is not itself a PV term"""
        x = O.to_z3(x)
        if z3.is_app_of(x, z3.Z3_OP_ITE):
            return z3.If(x.arg(0), O.to_z3(DeepLiftShap.pv_eq(env, cfg, x.arg(1), e, j, c, l)), O.to_z3(DeepLiftShap.pv_eq(env, cfg, x.arg(2), e, j, c, l)))
        if z3.is_app(x) and x.decl().eq(DeepLiftShap.PV):
            return And(*[O.eq(a_, b_) for a_, b_ in zip(x.children(), (e, j, c, l))])
        return O.smart_eq(x, O.to_z3(DeepLiftShap.pair(env, cfg, e, j)(c, l)))

    @staticmethod
    def attribution_pv(env, cfg, e):
        """result[e] over the opaque pair values of the pairs e*ns .. e*ns + ns - 1"""
        ns, X = DeepLiftShap.NS(env), env['X']
        P = lambda j: (lambda c, l: DeepLiftShap.pv_p(env, O.mul(e, ns) + j, c, l))
        if cfg['mode'] == 'raw':
            return lambda j, c, l: P(j)(c, l)
        mean = lambda c, l: O.truediv(Sum(0, ns, lambda j: P(j)(c, l), 'real'), ns)
        if cfg['mode'] == 'hypothetical':
            return mean
        return lambda c, l: mean(c, l) * X.elem(e, c, l)

    def post(self, a, r, cfg):
        env = self._env(a)
        X, ns = a.X, env['n_shuffles']
        N = X.shape[0]
        out = []
        res = r[0] if cfg['rr'] else r
        if cfg['rr'] and not (isinstance(r, tuple) and len(r) == 2):
            return [('returns-(attributions, references)', False)]
        if not isinstance(res, Tn):
            return [('attributions-is-tensor', False)]
        shape = [N, ns] + list(X.shape[1:]) if cfg['mode'] == 'raw' else list(X.shape)
        if res.rank != len(shape):
            return [('attributions-rank', False)]
        out.append(('attributions:shape', And(*[O.eq(x, y) for x, y in zip(res.shape, shape)])))

        def divmod_unique(e, j):
            # lean/Lemmas.lean divmod_unique, instance for the pair index e*ns + j
            return Implies(And(0 <= j, j < ns, ns >= 1), And(O.eq(O.floordiv(O.mul(e, ns) + j, ns), e), O.eq(O.mod(O.mul(e, ns) + j, ns), j)))
        if cfg['refs'] != 'unseeded':
            def el(e, *i):
                c, l = i[-2], i[-1]
                got, want = res.elem(e, *i), self.attribution(env, cfg, e, by_pair_index=False)(*i)
                if not O.any_sym(got, want):
                    return num_eq(got, want)       # concrete interpretation (replay, bounded layer)
                reveal = lambda j: And(divmod_unique(e, j), O.eq(self.pv(e, j, c, l), self.pair(env, cfg, e, j)(c, l)))
                with O.sum_lemmas(reveal):
                    goal = O.smart_eq(O.to_z3(got), O.to_z3(want))
                if cfg['mode'] == 'raw':
                    return Implies(reveal(i[0]), goal)
                return goal
            out.append(('attributions:each-example-from-its-own-pairs-only', O.forall(shape, el)))
        if cfg['rr']:
            refs = r[1]
            rshape = [N, ns] + list(X.shape[1:])
            if not isinstance(refs, Tn) or refs.rank != 4:
                return out + [('references-rank', False)]
            out.append(('references:shape', And(*[O.eq(x, y) for x, y in zip(refs.shape, rshape)])))
            if cfg['refs'] != 'unseeded':
                def rel(e, j, c, l):
                    got, want = refs.elem(e, j, c, l), self.ref_row(env, e, j).elem(0, c, l)
                    if not O.any_sym(got, want):
                        return num_eq(got, want)
                    return Implies(divmod_unique(e, j), O.smart_eq(O.to_z3(got), O.to_z3(want)))
                out.append(('references:shuffle-j-of-example-e', O.forall(rshape, rel)))
        return out

    def path_post(self, a, cfg, ctx):
        return [('hooks-removed-on-return', ctx.ghost.get('dls_hooks') is False),
                ('hooks-were-registered-during-the-call', ('hooks_registered',) in ctx.events)]

    def exc_post(self, a, cfg, ctx):
        return [('hooks-removed-on-raise', ctx.ghost.get('dls_hooks', False) is False)]

    def replay_injected(self, cfg, raised, site):
        """the environment failure of a refuted exceptional path, re-created around the real function: a small
        real network in which the k-th hook registration / forward pass / backward node / reference-generator call
        raises an exception of the class the path raised; reports DeepLIFT hooks left on the model afterwards"""
        import builtins
        import warnings
        import torch
        from tangermeme.deep_lift_shap import deep_lift_shap
        exc = getattr(builtins, str(raised), RuntimeError)
        if not (isinstance(exc, type) and issubclass(exc, BaseException)):
            exc = RuntimeError
        out = []
        for k in (1, 2, 3, 4, 5, 6):
            tick = {'n': 0}

            def boom():
                tick['n'] += 1
                if tick['n'] == k:
                    raise exc('injected')

            class RegAct(torch.nn.ReLU):
                def register_forward_hook(self, *a, **kw):
                    boom()
                    return super().register_forward_hook(*a, **kw)

                def register_forward_pre_hook(self, *a, **kw):
                    boom()
                    return super().register_forward_pre_hook(*a, **kw)

                def register_full_backward_hook(self, *a, **kw):
                    boom()
                    return super().register_full_backward_hook(*a, **kw)

            class FwdBomb(torch.nn.Module):
                def forward(self, x):
                    boom()
                    return x

            class BwdFn(torch.autograd.Function):
                @staticmethod
                def forward(ctx_, x):
                    return x.clone()

                @staticmethod
                def backward(ctx_, g):
                    boom()
                    return g

            class BwdBomb(torch.nn.Module):
                def forward(self, x):
                    return BwdFn.apply(x)

            act = RegAct if site == 'register-hooks' else torch.nn.ReLU
            mid = FwdBomb() if site == 'model-forward' else (BwdBomb() if site in ('backward', 'autograd.grad') else torch.nn.Identity())
            torch.manual_seed(3)
            model = torch.nn.Sequential(torch.nn.Conv1d(4, 3, 3), act(), mid, torch.nn.Conv1d(3, 2, 1), act(), torch.nn.Flatten(), torch.nn.Linear(12, 1)).double()
            X = torch.zeros(3, 4, 8, dtype=torch.float64)
            for e in range(3):
                for l in range(8):
                    X[e, (e + l * (e + 1)) % 4, l] = 1
            kwargs = dict(n_shuffles=2, batch_size=4, device='cpu', random_state=0)
            if site == 'reference-generator':
                def refs(Xb, n, random_state=None, **kw):
                    boom()
                    return torch.zeros(Xb.shape[0], n, *Xb.shape[1:], dtype=Xb.dtype)
                kwargs['references'] = refs
            elif cfg.get('refs') == 'tensor':
                kwargs['references'] = torch.zeros(3, 2, 4, 8, dtype=torch.float64)
            if site not in ('register-hooks', 'model-forward', 'backward', 'autograd.grad', 'reference-generator'):
                return []

            def hooks(m):
                names = []
                for nm, mod in m.named_modules():
                    for dn in ('_forward_hooks', '_forward_pre_hooks', '_backward_hooks'):
                        for h in getattr(mod, dn, {}).values():
                            names.append('%s.%s:%s' % (nm, dn, getattr(h, '__name__', '?')))
                return names
            raised_ = None
            with warnings.catch_warnings():
                warnings.simplefilter('ignore')
                try:
                    deep_lift_shap(model, X, **kwargs)
                except BaseException as e:   # noqa: the injected class may be a BaseException
                    raised_ = type(e).__name__
            left = hooks(model)
            if raised_ is not None and left:
                out.append('deep_lift_shap raised %s (injected at the %d-th %s call) and left %d hook(s) on the model: %s' % (
                    raised_, k, site, len(left), ', '.join(left[:4])))
                break
        return out

    # -------------------------------------------------------------- loop invariants
    def loops(self):
        def cfg_of(fr):
            env = fr.env
            refs = 'tensor' if isinstance(env['references'], Tn) else ('unseeded' if env['random_state'] is None else 'seeded')
            mode = 'raw' if env['raw_outputs'] is True else ('hypothetical' if env['hypothetical'] is True else 'processed')
            return dict(refs=refs, na=len(env['args'] or ()), mode=mode, rr=env['return_references'] is True)

        def length(v):
            return len(v) if isinstance(v, list) else v.count

        def item_shape(env, cfg):
            X, ns = env['X'], env['n_shuffles']
            return ([ns] if cfg['mode'] == 'raw' else []) + list(X.shape[1:])

        # ---- the lists as functions of: pairs appended to Xi/rj so far (done), c = len(Xi), z
        #      f = done - c pairs have been evaluated; z examples emitted; attr_ holds pairs z*ns .. f-1
        def defs(fr, done, c, z, f=None):
            env, cfg = fr.env, cfg_of(fr)
            X, ns = env['X'], env['n_shuffles']
            if f is None:
                f = done - c
            q = f - O.mul(z, ns)
            d = {}
            if cfg['refs'] == 'unseeded':
                # an unseeded generator: the references (hence every value) are not a function of the inputs;
                # only the bookkeeping (counts, shapes) is under contract in this configuration
                fresh = lambda nm, shp: Tn.param(O.fresh_name(nm), len(shp), 'real', 'torch', shape=shp)
                d['Xi'] = StackList(c, [spec_tensor([c], lambda k: O.floordiv(done - c + k, ns), 'int')])
                d['rj'] = StackList(c, [spec_tensor([c], lambda k: O.mod(done - c + k, ns), 'int')])
                d['attr_'] = StackList(q, [fresh('attr_', [q] + list(X.shape[1:]))])
                d['attributions'] = StackList(z, [fresh('attributions', [z] + item_shape(env, cfg))])
                if cfg['rr']:
                    d['references_'] = StackList(f, [fresh('references_', [f] + list(X.shape[1:]))])
                return d
            d['Xi'] = StackList(c, [spec_tensor([c], lambda k: O.floordiv(done - c + k, ns), 'int')])
            d['rj'] = StackList(c, [spec_tensor([c], lambda k: O.mod(done - c + k, ns), 'int')])
            d['attr_'] = StackList(q, [spec_tensor([q] + list(X.shape[1:]), lambda k, cc, l: DeepLiftShap.pv_p(env, O.mul(z, ns) + k, cc, l), 'real')])
            ish = item_shape(env, cfg)
            d['attributions'] = StackList(z, [spec_tensor([z] + ish, lambda e, *i: DeepLiftShap.attribution_pv(env, cfg, e)(*i), 'real')])
            if cfg['rr']:
                d['references_'] = StackList(f, [spec_tensor([f] + list(X.shape[1:]), lambda p, cc, l: DeepLiftShap.ref_row(
                    env, O.floordiv(p, ns), O.mod(p, ns)).elem(0, cc, l), 'real')])
            return d

        def list_same(cfg, a, b, name):
            if cfg['refs'] == 'unseeded' and name in ('attributions', 'references_'):
                # counts and item shapes only
                if isinstance(a, list):
                    return [(name + ':count', O.eq(len(a), b.count))] if len(a) == 0 else [(name + ':concrete', False)]
                return [(name + ':count', O.eq(a.count, b.count)),
                        (name + ':item-shape', And(*[O.eq(x, y) for x, y in zip(a.views[0].shape[1:], b.views[0].shape[1:])]))]
            return same(a, b, name)

        def attr_clause(fr, lst, z, q):
            """attr_ holds the opaque values of pairs z*ns + k, k < q (definition of PV revealed for new rows)"""
            env, cfg = fr.env, cfg_of(fr)
            ns, X = env['n_shuffles'], env['X']
            if isinstance(lst, list):
                if len(lst) != 0:
                    raise Unsupported("concrete non-empty attr_ at a loop head")
                return [('attr_:count', O.eq(q, 0))]
            V = lst.views[0]
            out = [('attr_:count', O.eq(lst.count, q)), ('attr_:item-shape', And(*[O.eq(x, y) for x, y in zip(V.shape[1:], X.shape[1:])]))]
            if cfg['refs'] == 'unseeded':
                return out

            def el(k, cc, l):
                p = O.mul(z, ns) + k
                return DeepLiftShap.pv_eq(env, cfg, V.elem(k, cc, l), O.floordiv(p, ns), O.mod(p, ns), cc, l)
            out.append(('attr_:row-k-is-pair-z*ns+k', O.forall([q] + list(X.shape[1:]), el)))
            return out

        def ghosts(fr, it):
            g = fr.ctx.ghost.setdefault('dls_loop', {})
            key = str(it)
            if key not in g:
                g[key] = (O.fresh_int('c'), O.fresh_int('z'))
            return g[key]

        def make_abs(name):
            def ab(fr, v, it):
                c, z = ghosts(fr, it)
                if name == 'z':
                    return z
                d = defs(fr, it, c, z)
                return d.get(name, v)
            return ab

        def outer_inv(E, fr):
            env, cfg = fr.env, cfg_of(fr)
            it, ns, bs = E.it, env['n_shuffles'], env['batch_size']
            n = env['n']
            c, z = length(env['Xi']), env['z']
            f = it - c
            out = [('pending-pairs-below-batch-size', And(0 <= c, c < bs, c <= it)),
                   ('nothing-pending-at-the-end', Implies(O.eq(it, n), O.eq(c, 0))),
                   ('examples-emitted-so-far', And(0 <= z, O.mul(z, ns) <= f, f < O.mul(z, ns) + ns))]
            d = defs(fr, it, c, z)
            out.extend(attr_clause(fr, env['attr_'], z, f - O.mul(z, ns)))
            for name in ('Xi', 'rj', 'attributions', 'references_'):
                if name in d:
                    out.extend(list_same(cfg, env[name], d[name], name))
            return out

        outer = LoopSpec(outer_inv, abstract={k: make_abs(k) for k in ('Xi', 'rj', 'attr_', 'attributions', 'references_', 'z')})

        # ---- emission loop: Q = pairs evaluated so far is fixed; the same definitions, z advances
        def inner_abs(name):
            def ab(fr, v, it):
                _, z = ghosts(fr, ('inner', str(it)))
                if name == 'z':
                    return z
                Q = fr.ctx.ghost['dls_Q']
                return defs(fr, None, 0, z, f=Q)[name]
            return ab

        def inner_inv(E, fr):
            env = fr.env
            ns, z = env['n_shuffles'], env['z']
            if E.where == 'init':
                # pairs evaluated so far: those emitted or waiting in attr_ at loop entry
                fr.ctx.ghost['dls_Q'] = O.mul(z, ns) + length(env['attr_'])
            Q = fr.ctx.ghost['dls_Q']
            d = defs(fr, None, 0, z, f=Q)
            out = [('emitted-examples-fit', And(0 <= z, O.mul(z, ns) <= Q))]
            out.extend(attr_clause(fr, env['attr_'], z, Q - O.mul(z, ns)))
            out.extend(list_same(cfg_of(fr), env['attributions'], d['attributions'], 'attributions'))
            return out

        inner = LoopSpec(inner_inv, abstract={k: inner_abs(k) for k in ('attr_', 'attributions', 'z')})
        trivial = LoopSpec(lambda E, fr: [])
        return {2: trivial, 3: outer, 4: inner, 5: trivial}


# ------------------------------------------------------------------------------------------------
# C07: the per-module hook functions.  Ghost state of a module: sizes nf / np / nb of its three hook
# dictionaries and how many of those entries deep_lift_shap put there (dls_f / dls_p / dls_b).
# Representation invariant HOOKS_OWNED(module): the live DeepLIFT hooks on the module are exactly the
# live handles listed in module.handles (none if the attribute is absent).

def make_module(A, n_handles, name='module'):
    """a module whose handles attribute is absent (None) or lists n_handles live DeepLIFT handles,
    registered in the order forward, forward-pre, backward"""
    g = {k: A.int('%s.%s' % (name, k), lo=0) for k in ('nf', 'np', 'nb')}
    k = n_handles or 0
    g['dls_f'], g['dls_p'], g['dls_b'] = int(k >= 1), int(k >= 2), int(k >= 3)
    # the DeepLIFT entries are among the entries of the dictionaries
    A.assume(g['nf'] >= g['dls_f'], g['np'] >= g['dls_p'], g['nb'] >= g['dls_b'])
    sup = A.bool(name + '.is_supported_op')
    g_user = (g['nf'], g['np'], g['nb'])

    def conc(model):
        from vf.models import HookModuleSpec
        from vf.concrete import eval_int
        ev = lambda t: t if isinstance(t, int) else eval_int(model, t)
        return HookModuleSpec(z3.is_true(model.eval(sup, model_completion=True)), min(ev(g_user[0]) - int(k >= 1), 3), min(ev(g_user[1]) - int(k >= 2), 3),
                              min(ev(g_user[2]) - int(k >= 3), 3), n_handles).build()
    attrs = {'ghost': g, 'ghost0': dict(g), '_NON_LINEAR_OPS': {}, 'isinstance_of_supported_ops': sup, 'concretize': conc}
    mod = Opaque(name, 'nn_module', attrs)
    if n_handles is not None:
        order = [('nf', 'dls_f'), ('np', 'dls_p'), ('nb', 'dls_b')]
        attrs['handles'] = [Opaque('handle', 'hook_handle', {'module': mod, 'size': order[i][0], 'dls': order[i][1], 'live': True}) for i in range(k)]
    return mod


def hooks_owned(mod):
    """HOOKS_OWNED: every live DeepLIFT hook of the module is reachable from module.handles"""
    g = mod.attrs['ghost']
    hs = mod.attrs.get('handles')
    live = [h for h in (hs or []) if isinstance(h, Opaque) and h.attrs.get('live') and h.attrs.get('dls')]
    out = []
    for dls in ('dls_f', 'dls_p', 'dls_b'):
        out.append(('live-deeplift-hooks-are-listed-in-handles:' + dls, O.eq(g[dls], sum(1 for h in live if h.attrs['dls'] == dls))))
    return out


class RegisterHooks(Contract):
    """C07: _register_hooks keeps HOOKS_OWNED on a module that has none or a complete set of DeepLIFT hooks
    (so visiting a shared module twice cannot orphan the first registration) and leaves other entries of
    the hook dictionaries alone."""
    qualname = 'tangermeme.deep_lift_shap._register_hooks'
    props = ('C07',)

    def configs(self):
        return [dict(handles=None), dict(handles=3)]

    def cfg_name(self, cfg):
        return 'handles=%s' % ('absent' if cfg['handles'] is None else cfg['handles'])

    needs_after_state = True

    def make_args(self, cfg, A):
        return [make_module(A, cfg['handles'])], {}

    def post(self, a, r, cfg):
        g0 = a.module.attrs['ghost0']
        mod = getattr(a, '_after', a).module
        g = mod.attrs['ghost']
        out = hooks_owned(mod)
        user = lambda gg: [gg['nf'] - gg['dls_f'], gg['np'] - gg['dls_p'], gg['nb'] - gg['dls_b']]
        out.append(('other-hooks-untouched', And(*[O.eq(x, y) for x, y in zip(user(g), user(g0))])))
        # (which modules get hooks - supported layers without a backward hook - is not part of C07 and is
        # deliberately not fixed here; only that whatever is registered stays owned)
        return out


class ClearHooks(Contract):
    """C07: after _clear_hooks no DeepLIFT hook is left on a module satisfying HOOKS_OWNED (complete, partial
    or no registration), the handles attribute is gone, other hooks are untouched."""
    qualname = 'tangermeme.deep_lift_shap._clear_hooks'
    props = ('C07',)

    def configs(self):
        return [dict(handles=h) for h in (None, 0, 1, 2, 3)]

    def cfg_name(self, cfg):
        return 'handles=%s' % ('absent' if cfg['handles'] is None else cfg['handles'])

    needs_after_state = True

    def make_args(self, cfg, A):
        return [make_module(A, cfg['handles'])], {}

    def post(self, a, r, cfg):
        g0 = a.module.attrs['ghost0']
        mod = getattr(a, '_after', a).module
        g = mod.attrs['ghost']
        out = [('no-deeplift-hook-left', And(O.eq(g['dls_f'], 0), O.eq(g['dls_p'], 0), O.eq(g['dls_b'], 0)))]
        user = lambda gg: [gg['nf'] - gg['dls_f'], gg['np'] - gg['dls_p'], gg['nb'] - gg['dls_b']]
        out.append(('other-hooks-untouched', And(*[O.eq(x, y) for x, y in zip(user(g), user(g0))])))
        if cfg['handles']:
            out.append(('handles-attribute-removed', 'handles' not in mod.attrs))
        return out + hooks_owned(mod)


def register(world):
    world.register(HypotheticalAttributions())
    world.register(Nonlinear())
    world.register(DeepLiftShap())
    world.register(RegisterHooks())
    world.register(ClearHooks())
    world.register(MaxPool())


class MaxPool(Contract):
    """C04 / C05 (max-pool rule, MaxPool1d): the pooling indices are recomputed on the captured input with the
    module's OWN kernel_size, stride, padding, dilation and ceil_mode, so that there is exactly one index per
    window of the captured output; the contribution grad_output * delta_out of every window - delta_out =
    max(out, out_ref) - out_ref for the example half, out - max(out, out_ref) for the reference half - is
    added at the position of that window's maximum (windows may share a position); both halves are summed,
    and divided by in(x) - in(ref) (the ordinary gradient where that difference is below 1e-7)."""
    qualname = 'tangermeme.deep_lift_shap._maxpool'
    props = ('C04', 'C05')

    def make_args(self, cfg, A):
        from vf.lib import POOLLEN
        h, C, L = A.dim('h', 1), A.dim('C', 1), A.dim('L', 1)
        ks, st, pad, dil = A.int('kernel_size', lo=1), A.int('stride', lo=1), A.int('padding', lo=0), A.int('dilation', lo=1)
        cm = A.bool('ceil_mode')
        # the forward pass of the module used the module's own parameters
        Lo = POOLLEN(O.to_z3(L), ks, st, pad, dil, cm)
        A.assume(Lo >= 0)
        inp = A.tensor('input', 3, 'real', shape=[2 * h, C, L])
        out = A.tensor('output', 3, 'real', shape=[2 * h, C, Lo])
        def conc(model):
            # a real MaxPool1d with valid parameters near the model's, its captured input and its own output
            import torch
            from vf.concrete import eval_int
            clamp = lambda v, lo, hi: max(lo, min(hi, v))
            k_, s_, d_ = clamp(eval_int(model, ks), 1, 3), clamp(eval_int(model, st), 1, 3), clamp(eval_int(model, dil), 1, 2)
            h_, c_ = clamp(eval_int(model, h), 1, 2), clamp(eval_int(model, C), 1, 2)
            l_ = max(clamp(eval_int(model, L), 1, 7), d_ * (k_ - 1) + 2)
            mp = torch.nn.MaxPool1d(k_, stride=s_, padding=0, dilation=d_, ceil_mode=z3.is_true(model.eval(cm, model_completion=True)))
            g = torch.Generator().manual_seed(1000 * k_ + 100 * s_ + 10 * d_ + l_)
            x = torch.randint(-4, 5, (2 * h_, c_, l_), generator=g).double()
            mp.input = x
            mp.output = mp(x)
            return mp
        mod = Opaque('module', 'nn_module', attrs={'input': inp, 'output': out, 'kernel_size': ks, 'stride': st, 'padding': pad, 'dilation': dil,
                                                   'ceil_mode': cm, 'types': ['torch.nn.MaxPool1d', 'torch.nn.modules.pooling.MaxPool1d'], 'concretize': conc})
        gi = A.tensor('grad_input', 3, 'real', shape=[2 * h, C, L])
        go = A.tensor('grad_output', 3, 'real', shape=[2 * h, C, Lo])
        return [mod, (gi,), (go,)], {}

    @staticmethod
    def _case(k_, s_, d_, l_, ceil, h_=1, c_=2):
        import torch
        mp = torch.nn.MaxPool1d(k_, stride=s_, padding=0, dilation=d_, ceil_mode=ceil)
        g = torch.Generator().manual_seed(1000 * k_ + 100 * s_ + 10 * d_ + l_)
        x = torch.randint(-4, 5, (2 * h_, c_, l_), generator=g).double()
        mp.input = x
        mp.output = mp(x)
        # the gradients handed to the hook have the shapes of the captured input and output
        gi = torch.randint(-3, 4, tuple(mp.input.shape), generator=g).double()
        go = torch.randint(-3, 4, tuple(mp.output.shape), generator=g).double()
        object.__setattr__(mp, 'to_json', lambda: {'__factory__': 'maxpool_case', 'k': k_, 's': s_, 'd': d_, 'l': l_, 'ceil': bool(ceil), 'h': h_, 'c': c_})
        return [mp, (gi,), (go,)]

    def repair_concrete(self, cfg, args, kwargs):
        mp = args[0]
        one = lambda x: int(x[0]) if isinstance(x, (tuple, list)) else int(x)
        return self._case(one(mp.kernel_size), one(mp.stride), one(mp.dilation), int(mp.input.shape[2]), bool(mp.ceil_mode),
                          int(mp.input.shape[0]) // 2, int(mp.input.shape[1])), kwargs

    def replay_variants(self, cfg, args, kwargs):
        for ceil in (True, False):
            for k_ in (2, 3):
                for s_ in (1, 2, 3):
                    for d_ in (1, 2):
                        for l_ in (4, 5, 6, 7):
                            if l_ >= d_ * (k_ - 1) + 1:
                                yield self._case(k_, s_, d_, l_, ceil), kwargs

    @staticmethod
    def rule(inp, out, gi, go, idx, n_windows):
        """the documented rule as an element function of the result, given the pooling indices idx(r, c, o)"""
        h = O.floordiv(inp.shape[0], 2)

        def dout(r, c, o):
            q = ite(r < h, r, r - h)
            mx = O.vmax(out.elem(q, c, o), out.elem(q + h, c, o))
            return ite(r < h, mx - out.elem(q + h, c, o), out.elem(q, c, o) - mx)

        def U(r, c, i):
            return Sum(0, n_windows, lambda o: ite(O.eq(idx(r, c, o), i), go.elem(r, c, o) * dout(r, c, o), 0), 'real')

        def elem(r, c, i):
            q = ite(r < h, r, r - h)
            din = inp.elem(q, c, i) - inp.elem(q + h, c, i)
            small = And(din < 1e-7, -din < 1e-7)
            if not O.is_sym(small):         # concrete interpretation: `ite` would evaluate the division eagerly
                return gi.elem(r, c, i) if small else O.truediv(U(q, c, i) + U(q + h, c, i), din)
            return ite(small, gi.elem(r, c, i), O.truediv(U(q, c, i) + U(q + h, c, i), din))
        return elem

    def post(self, a, r, cfg):
        if not (isinstance(r, tuple) and len(r) == 1 and isinstance(r[0], Tn) and r[0].rank == 3):
            return [('one-tensor-tuple', False)]
        m = a.module.attrs
        inp, out = m['input'], m['output']
        res = r[0]
        self._res = res
        clauses = [('shape', And(*[O.eq(x, y) for x, y in zip(res.shape, inp.shape)]))]
        if not O.any_sym(*inp.shape, *out.shape):
            # concrete interpretation (replay): the indices of the module's own pooling, recomputed independently
            import torch
            import torch.nn.functional as F
            to_t = lambda t: torch.tensor([[[float(t.elem(r_, c_, i_)) for i_ in range(int(t.shape[2]))] for c_ in range(int(t.shape[1]))]
                                           for r_ in range(int(t.shape[0]))], dtype=torch.float64).reshape([int(d) for d in t.shape])
            ks, st, pad, dil, cm = [m[k] for k in ('kernel_size', 'stride', 'padding', 'dilation', 'ceil_mode')]
            _, I = F.max_pool1d(to_t(inp), int(ks), int(st), int(pad), int(dil), bool(cm), True)
            n_w = int(I.shape[2])
            clauses.append(('one-index-per-window-of-the-captured-output', n_w == int(out.shape[2])))
            if n_w == int(out.shape[2]):
                spec = self.rule(inp, out, a.grad_input[0], a.grad_output[0], lambda r_, c_, o_: int(I[int(r_), int(c_), int(o_)]), n_w)
                clauses.append(('rule', O.forall(list(inp.shape), lambda r_, c_, i_: num_eq(res.elem(r_, c_, i_), spec(r_, c_, i_)))))
        return clauses

    def path_post(self, a, cfg, ctx):
        m = a.module.attrs
        inp, out = m['input'], m['output']
        lp = ctx.ghost.get('last_pool')
        if lp is None:
            return [('pooling-indices-recomputed', False)]
        res = self._res
        cl = [('pooling-recomputed-on-the-captured-input', same(lp['input'], inp, 'pooled')[-1][1]),
              ('one-index-per-window-of-the-captured-output', O.eq(lp['n_windows'], out.shape[2]))]
        spec = self.rule(inp, out, a.grad_input[0], a.grad_output[0], lp['indices'], out.shape[2])
        cl.append(('rule', O.forall(list(inp.shape), lambda r_, c_, i_: num_eq(res.elem(r_, c_, i_), spec(r_, c_, i_)))))
        return cl


