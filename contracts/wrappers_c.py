"""Contracts of the perturbation wrappers (property C08): marginalize, ablate, space, product."""
import z3
from vf import ops as O
from vf.ops import And, Or, Not, ite, Implies
from vf.tensor import Tn, Unsupported
from vf.values import SStr, Opaque, RepoFn, StackList
from vf.contract import Contract, same
from vf.world import LoopSpec, RowWise
from vf.spec import spec_tensor, bsel
from contracts.predict_c import make_model, OUTS, Predict
from contracts.ersatz_c import Substitute, _EditBase, motif_tensor


def make_func(name, out, A, params=None):
    k, tk = OUTS[out]
    n = 1 if k is None else k
    trailing = [[A.dim('%s.o%d.t%d' % (name, o, j)) for j in range(min(o % 3 + (1 if k is None else 0), 2))] for o in range(n)]
    rw = RowWise(name, k, tk, trailing, recording=A.scope is not None)
    return Opaque(name, 'func', {'rowwise': rw, 'types': ['function'], 'params': params or ['model', 'X', 'args', 'batch_size', 'device', 'verbose']})


def func_spec(func, model, X, args):
    """what `func(model, X, args=args)` denotes: per-row application of the assumed row-wise func
    (or of predict's contract when func is tangermeme's predict)"""
    ts = [X] + list(args or ())
    if isinstance(func, Opaque):
        rw = func.attrs['rowwise']
        return rw.package(rw.apply_rows(ts))
    rw = model.attrs['rowwise']
    outs = rw.apply_rows(ts)
    return outs[0] if rw.k is None else list(outs)


def args_mismatch(X, args):
    if not args:
        return False
    return Or(*[O.ne(t.shape[0], X.shape[0]) for t in args])


class _WrapBase(Contract):
    props = ('C08',)

    def func_and_model(self, cfg, A, require=False):
        if cfg['func'] == 'opaque':
            func = make_func('F', cfg['out'], A)
            model = Opaque('model', 'model', {'rowwise': RowWise('Munused'), 'training': z3.Bool('tr0'), 'n_args': 0, 'types': ['model']})
        else:
            func = None
            model = make_model('M', cfg['out'], 0 if cfg['n_args'] == 'none' else cfg['n_args'], A, require=False)
        return func, model

    def extra_args(self, cfg, A, lead=None):
        if cfg['n_args'] == 'none':
            return None
        return tuple(A.tensor('arg%d' % i, 2, 'real') for i in range(cfg['n_args']))


class Marginalize(_WrapBase, _EditBase):
    """C08: before = func on the unmodified inputs; after[i] = func on example i with the motif
    substituted at the stated position; extra arguments stay matched to their example."""
    qualname = 'tangermeme.marginalize.marginalize'

    def configs(self):
        return [dict(func=f, out=o, n_args=n, motif=m, start=s)
                for f in ('opaque', 'predict') for o in ('tensor', 'tuple2') for n in ('none', 1)
                for m in ('tensor', 'str') for s in ('int', 'none')]

    def make_args(self, cfg, A):
        X, motif, start, kw = self.mk_common(cfg, A)
        func, model = self.func_and_model(cfg, A)
        args = self.extra_args(cfg, A)
        kwargs = dict(start=start, **kw)
        if func is not None:
            kwargs['func'] = func
        if args is not None:
            kwargs['args'] = args
        if cfg['func'] == 'predict':
            kwargs['device'] = 'cpu'
            kwargs['batch_size'] = A.int('batch_size', lo=1)
        return [model, X, motif], kwargs

    sub = Substitute()

    def rejects(self, a, cfg):
        args = a.kwargs.get('args')
        return Or(self.sub.rejects(a, cfg), args_mismatch(a.X, args))

    def result(self, a, cfg):
        args = a.kwargs.get('args')
        Xp = self.sub.result(a, cfg)
        return (func_spec(a.func, a.model, a.X, args), func_spec(a.func, a.model, Xp, args))


class Ablate(_WrapBase):
    """C08: after[i, j] = func on example i with the region shuffled by shuffle j (as produced by
    shuffle_fn for the stated seed), extra arguments matched to example i; before = func(X)."""
    qualname = 'tangermeme.ablate.ablate'

    def configs(self):
        return [dict(func=f, out=o, n_args=n) for f in ('opaque', 'predict') for o in ('tensor', 'tuple2') for n in ('none', 1, 2)]

    def make_args(self, cfg, A):
        X = A.onehot('X', 3)
        A.assume(X.shape[1] >= 2)
        func, model = self.func_and_model(cfg, A)
        args = self.extra_args(cfg, A)
        n = A.int('n', lo=1)
        kwargs = dict(n=n, shuffle_fn=Opaque('SHUF', 'shuffle_fn', {'types': ['function'], 'recording': A.scope is not None}), args=args, random_state=A.int('seed'))
        if func is not None:
            kwargs['func'] = func
        else:
            kwargs['device'] = 'cpu'
            kwargs['batch_size'] = A.int('batch_size', lo=1)
        return [model, X, A.int('start'), A.int('end')], kwargs

    def shuffled(self, a):
        from vf.world import shuffle_fn_result
        return shuffle_fn_result(a.shuffle_fn, a.X, a.n)

    def rejects(self, a, cfg):
        return args_mismatch(a.X, a.args)

    def result(self, a, cfg):
        X, n = a.X, a.n
        Xp = self.shuffled(a)
        B = X.shape[0]
        before = func_spec(a.func, a.model, X, a.args)
        # after[i, j] = F(Xp[i, j], args[i]) : rows of the (B*n)-row problem, regrouped
        rw = (a.func if isinstance(a.func, Opaque) else a.model).attrs['rowwise']
        outs = []
        nout = 1 if rw.k is None else rw.k
        for o in range(nout):
            def mk(o=o):
                def content(i, j, *t):
                    # the (i, j) instance as a one-row problem
                    Xrow = spec_tensor([1, X.shape[1], X.shape[2]], lambda r, c, p: Xp[i, j, c, p])
                    arows = [spec_tensor([1] + list(ar.shape[1:]), lambda r, *q, ar=ar: ar.elem(i, *q), ar.kind) for ar in (a.args or ())]
                    return rw.apply_rows([Xrow] + arows)[o].elem(0, *t)
                return spec_tensor([B, n] + list(rw.trailing[o]), content, 'real')
            outs.append(mk())
        if rw.k is None:
            after = outs[0]
        else:
            after = list(outs)
        return (before, after)


def register(world):
    world.register(Marginalize())
    world.register(Ablate())
