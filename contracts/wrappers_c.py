"""Contracts of the perturbation wrappers (property C08): marginalize, ablate, space, product."""
import z3
from vf import ops as O
from vf.ops import And, Or, Not, ite, Implies
from vf.tensor import Tn, Unsupported
from vf.values import SStr, Opaque, RepoFn, StackList
from vf.contract import Contract, same
from vf.world import LoopSpec, RowWise
from vf.spec import spec_tensor, bsel
from contracts.predict_c import make_model, OUTS, Predict
from contracts.ersatz_c import Substitute, _EditBase, motif_tensor


def make_func(name, out, A, params=None):
    k, tk = OUTS[out]
    n = 1 if k is None else k
    trailing = [[A.dim('%s.o%d.t%d' % (name, o, j)) for j in range(min(o % 3 + (1 if k is None else 0), 2))] for o in range(n)]
    rw = RowWise(name, k, tk, trailing, recording=A.scope is not None)
    return Opaque(name, 'func', {'rowwise': rw, 'types': ['function'], 'params': params or ['model', 'X', 'args', 'batch_size', 'device', 'verbose']})


def func_spec(func, model, X, args):
    """what `func(model, X, args=args)` denotes: per-row application of the assumed row-wise func
    (or of predict's contract when func is tangermeme's predict)"""
    ts = [X] + list(args or ())
    if isinstance(func, Opaque):
        rw = func.attrs['rowwise']
        return rw.package(rw.apply_rows(ts))
    rw = model.attrs['rowwise']
    outs = rw.apply_rows(ts)
    return outs[0] if rw.k is None else list(outs)


def args_mismatch(X, args):
    if not args:
        return False
    return Or(*[O.ne(t.shape[0], X.shape[0]) for t in args])


class _WrapBase(Contract):
    props = ('C08',)

    def func_and_model(self, cfg, A, require=False):
        if cfg['func'] == 'opaque':
            func = make_func('F', cfg['out'], A)
            model = Opaque('model', 'model', {'rowwise': RowWise('Munused'), 'training': z3.Bool('tr0'), 'n_args': 0, 'types': ['model']})
        else:
            func = None
            model = make_model('M', cfg['out'], 0 if cfg['n_args'] == 'none' else cfg['n_args'], A, require=False)
        return func, model

    def extra_args(self, cfg, A, lead=None):
        if cfg['n_args'] == 'none':
            return None
        return tuple(A.tensor('arg%d' % i, 2, 'real') for i in range(cfg['n_args']))


class Marginalize(_WrapBase, _EditBase):
    """C08: before = func on the unmodified inputs; after[i] = func on example i with the motif
    substituted at the stated position; extra arguments stay matched to their example."""
    qualname = 'tangermeme.marginalize.marginalize'

    def configs(self):
        return [dict(func=f, out=o, n_args=n, motif=m, start=s)
                for f in ('opaque', 'predict') for o in ('tensor', 'tuple2') for n in ('none', 1)
                for m in ('tensor', 'str') for s in ('int', 'none')]

    def make_args(self, cfg, A):
        X, motif, start, kw = self.mk_common(cfg, A)
        func, model = self.func_and_model(cfg, A)
        args = self.extra_args(cfg, A)
        kwargs = dict(start=start, **kw)
        if func is not None:
            kwargs['func'] = func
        if args is not None:
            kwargs['args'] = args
        if cfg['func'] == 'predict':
            kwargs['device'] = 'cpu'
            kwargs['batch_size'] = A.int('batch_size', lo=1)
        return [model, X, motif], kwargs

    sub = Substitute()

    def rejects(self, a, cfg):
        args = a.kwargs.get('args')
        return Or(self.sub.rejects(a, cfg), args_mismatch(a.X, args))

    def result(self, a, cfg):
        args = a.kwargs.get('args')
        Xp = self.sub.result(a, cfg)
        return (func_spec(a.func, a.model, a.X, args), func_spec(a.func, a.model, Xp, args))


class Ablate(_WrapBase):
    """C08: after[i, j] = func on example i with the region shuffled by shuffle j (as produced by
    shuffle_fn for the stated seed), extra arguments matched to example i; before = func(X)."""
    qualname = 'tangermeme.ablate.ablate'

    def configs(self):
        return [dict(func=f, out=o, n_args=n) for f in ('opaque', 'predict') for o in ('tensor', 'tuple2') for n in ('none', 1, 2)]

    def make_args(self, cfg, A):
        X = A.onehot('X', 3)
        A.assume(X.shape[1] >= 2)
        func, model = self.func_and_model(cfg, A)
        args = self.extra_args(cfg, A)
        n = A.int('n', lo=1)
        kwargs = dict(n=n, shuffle_fn=Opaque('SHUF', 'shuffle_fn', {'types': ['function'], 'recording': A.scope is not None}), args=args, random_state=A.int('seed'))
        if func is not None:
            kwargs['func'] = func
        else:
            kwargs['device'] = 'cpu'
            kwargs['batch_size'] = A.int('batch_size', lo=1)
        return [model, X, A.int('start'), A.int('end')], kwargs

    def shuffled(self, a):
        from vf.world import shuffle_fn_result
        return shuffle_fn_result(a.shuffle_fn, a.X, a.n, a.start, a.end, a.random_state)

    def rejects(self, a, cfg):
        return args_mismatch(a.X, a.args)

    def result(self, a, cfg):
        X, n = a.X, a.n
        Xp = self.shuffled(a)
        B = X.shape[0]
        before = func_spec(a.func, a.model, X, a.args)
        # after[i, j] = F(Xp[i, j], args[i]) : rows of the (B*n)-row problem, regrouped
        rw = (a.func if isinstance(a.func, Opaque) else a.model).attrs['rowwise']
        outs = []
        nout = 1 if rw.k is None else rw.k
        for o in range(nout):
            def mk(o=o):
                def content(i, j, *t):
                    # the (i, j) instance as a one-row problem
                    Xrow = spec_tensor([1, X.shape[1], X.shape[2]], lambda r, c, p: Xp[i, j, c, p])
                    arows = [spec_tensor([1] + list(ar.shape[1:]), lambda r, *q, ar=ar: ar.elem(i, *q), ar.kind) for ar in (a.args or ())]
                    return rw.apply_rows([Xrow] + arows)[o].elem(0, *t)
                return spec_tensor([B, n] + list(rw.trailing[o]), content, 'real')
            outs.append(mk())
        if rw.k is None:
            after = outs[0]
        else:
            after = list(outs)
        return (before, after)


def rep_rows(t, R):
    """tensor t of shape (N, ...) repeated along a new leading annotation axis of size R"""
    return spec_tensor([R] + list(t.shape), lambda a_, *i: t.elem(*i), t.kind)


class MarginalizeAnnotations(_WrapBase):
    """C08: entry [a, i] of output o of 'after' = func on background example i with annotation a's
    span of X transplanted into the centre; 'before' = func on the unmodified background; the number
    of returned outputs is the number of model outputs, whatever the number of annotations."""
    qualname = 'tangermeme.marginalize.marginalize_annotations'

    def configs(self):
        return [dict(func=f, out=o, n_args=n) for f in ('opaque', 'predict') for o in ('tensor', 'tuple2') for n in ('none', 1)]

    def make_args(self, cfg, A):
        X = A.onehot('X', 3)
        X0 = A.onehot('X0', 3)
        A.assume(X.shape[1] >= 2, O.eq(X0.shape[1], X.shape[1]))
        func, model = self.func_and_model(cfg, A)
        args = self.extra_args(cfg, A)
        ann = A.tensor('annotations', 2, 'int', shape=[A.dim('annotations.d0', 1), 3])
        A.assume(ann.shape[0] >= 1)
        kwargs = {}
        if func is not None:
            kwargs['func'] = func
        else:
            kwargs['device'] = 'cpu'
            kwargs['batch_size'] = A.int('batch_size', lo=1)
        if args is not None:
            kwargs['args'] = args
        return [model, X, X0, ann], kwargs

    def pre(self, a, cfg):
        X, X0, ann = a.X, a.X0, a.annotations
        return [O.forall_hyp([ann.shape[0]], lambda r: And(0 <= ann[r, 0], ann[r, 0] < X.shape[0], 0 <= ann[r, 1], ann[r, 1] < ann[r, 2],
                                                             ann[r, 2] <= X.shape[2], ann[r, 2] - ann[r, 1] <= X0.shape[2]))]

    def rejects(self, a, cfg):
        return args_mismatch(a.X0, a.kwargs.get('args'))

    def result(self, a, cfg):
        X, X0, ann = a.X, a.X0, a.annotations
        R = ann.shape[0]
        args = a.kwargs.get('args')
        func = a.kwargs.get('func')
        rw = (func if isinstance(func, Opaque) else a.model).attrs['rowwise']
        nout = 1 if rw.k is None else rw.k
        L0 = X0.shape[2]
        befores, afters = [], []
        for o in range(nout):
            def mk_before(o=o):
                def content(r, i, *t):
                    return rw.at(o, [row(X0, i)] + [row(g, i) for g in (args or ())], t)
                return spec_tensor([R, X0.shape[0]] + list(rw.trailing[o]), content, 'real')

            def mk_after(o=o):
                def content(r, i, *t):
                    idx, s, e = ann[r, 0], ann[r, 1], ann[r, 2]
                    n = e - s
                    st = O.floordiv(L0, 2) - O.floordiv(n, 2)
                    xi = spec_tensor([X0.shape[1], L0], lambda c, p: ite(And(st <= p, p < st + n), X[idx, c, s + (p - st)], X0[i, c, p]))
                    return rw.at(o, [xi] + [row(g, i) for g in (args or ())], t)
                return spec_tensor([R, X0.shape[0]] + list(rw.trailing[o]), content, 'real')
            befores.append(mk_before())
            afters.append(mk_after())
        if rw.k is None:
            return (befores[0], afters[0])
        return (list(befores), list(afters))

    def loops(self):
        from vf.world import defined_loop
        from vf.contract import NS

        def lists(fr, it):
            env = fr.env
            kw = env['kwargs']
            a = NS(X=env['X'], X0=env['X0'], annotations=env['annotations'], model=env['model'], kwargs=kw)
            b, af = self.result(a, {})
            func = kw.get('func')
            rw = (func if isinstance(func, Opaque) else env['model']).attrs['rowwise']
            tk = None if rw.k is None else ('tuple' if isinstance(func, Opaque) and rw.tuple_kind == 'tuple' else 'list')
            pre = lambda t: spec_tensor([it] + list(t.shape[1:]), lambda *i: t.elem(*i), t.kind)
            bs = [pre(t) for t in ([b] if rw.k is None else b)]
            as_ = [pre(t) for t in ([af] if rw.k is None else af)]
            return StackList(it, bs, tk), StackList(it, as_, tk)
        def extra(E, fr):
            # a completed iteration means func accepted the extra arguments
            return [('iterations-passed-validation', Implies(E.it >= 1, Not(args_mismatch(E.X0, E.kwargs.get('args')))))]
        return {1: defined_loop({'y_befores': lambda fr, it: lists(fr, it)[0], 'y_afters': lambda fr, it: lists(fr, it)[1]},
                                extra=extra)}


class AblateAnnotations(_WrapBase):
    """C08: after[a, 0, j] of output o = func on the annotated example with annotation a's span shuffled
    by shuffle j, extra arguments taken from that same example; before[a, 0] = func on that example."""
    qualname = 'tangermeme.ablate.ablate_annotations'

    def configs(self):
        return [dict(func='opaque', out=o, n_args=n) for o in ('tensor', 'tuple2') for n in ('none', 1)]

    def make_args(self, cfg, A):
        X = A.onehot('X', 3)
        A.assume(X.shape[1] >= 2)
        func, model = self.func_and_model(cfg, A)
        args = self.extra_args(cfg, A)
        ann = A.tensor('annotations', 2, 'int', shape=[A.dim('annotations.d0', 1), 3])
        A.assume(ann.shape[0] >= 1)
        kwargs = dict(n=A.int('n', lo=1), func=func, random_state=A.int('seed'),
                      shuffle_fn=Opaque('SHUF', 'shuffle_fn', {'types': ['function'], 'recording': A.scope is not None}))
        if args is not None:
            kwargs['args'] = args
        return [model, X, ann], kwargs

    def pre(self, a, cfg):
        X, ann = a.X, a.annotations
        return [O.forall_hyp([ann.shape[0]], lambda r: And(0 <= ann[r, 0], ann[r, 0] < X.shape[0]))]

    def rejects(self, a, cfg):
        return False

    def accepts(self, a, cfg):
        # extra arguments are sliced per annotated example: a request whose arguments match X must succeed
        return Not(args_mismatch(a.X, a.kwargs.get('args')))

    def result(self, a, cfg):
        from vf.world import shuffle_fn_result
        X, ann, kw = a.X, a.annotations, a.kwargs
        R, n = ann.shape[0], kw['n']
        args, func = kw.get('args'), kw['func']
        rw = func.attrs['rowwise']
        nout = 1 if rw.k is None else rw.k
        befores, afters = [], []
        for o in range(nout):
            def mk_before(o=o):
                return spec_tensor([R, 1] + list(rw.trailing[o]),
                                   lambda r, z, *t: rw.at(o, [row(X, ann[r, 0])] + [row(g, ann[r, 0]) for g in (args or ())], t), 'real')

            def mk_after(o=o):
                def content(r, z, j, *t):
                    idx, s, e = ann[r, 0], ann[r, 1], ann[r, 2]
                    Xs = spec_tensor([1, X.shape[1], X.shape[2]], lambda b, c, p: X[idx, c, p])
                    sh = shuffle_fn_result(kw['shuffle_fn'], Xs, n, s, e, kw['random_state'])
                    xi = spec_tensor([X.shape[1], X.shape[2]], lambda c, p: sh[0, j, c, p])
                    return rw.at(o, [xi] + [row(g, idx) for g in (args or ())], t)
                return spec_tensor([R, 1, n] + list(rw.trailing[o]), content, 'real')
            befores.append(mk_before())
            afters.append(mk_after())
        if rw.k is None:
            return (befores[0], afters[0])
        return (list(befores), list(afters))

    def loops(self):
        from vf.world import defined_loop
        from vf.contract import NS

        def lists(fr, it):
            env = fr.env
            kw = dict(env['kwargs'])
            if 'args' in env and env['args'] is not None:
                kw['args'] = env['args']
            a = NS(X=env['X'], annotations=env['annotations'], model=env['model'], kwargs=kw)
            b, af = self.result(a, {})
            rw = kw['func'].attrs['rowwise']
            tk = None if rw.k is None else rw.tuple_kind
            if tk == 'tuple':
                tk_after = 'list'      # ablate re-packs multi-output 'after' as a list
            else:
                tk_after = tk
            pre = lambda t: spec_tensor([it] + list(t.shape[1:]), lambda *i: t.elem(*i), t.kind)
            bs = [pre(t) for t in ([b] if rw.k is None else b)]
            as_ = [pre(t) for t in ([af] if rw.k is None else af)]
            return StackList(it, bs, tk), StackList(it, as_, tk_after)

        return {1: defined_loop({'y_befores': lambda fr, it: lists(fr, it)[0], 'y_afters': lambda fr, it: lists(fr, it)[1]})}


class Space(_WrapBase):
    """C08: after[i, s] = func on example i with the motifs substituted at spacing row s;
    before[i, s] = func on the unmodified example i."""
    qualname = 'tangermeme.space.space'

    def configs(self):
        return [dict(func='opaque', out=o, k=k, motif=m, n_args=n) for o in ('tensor', 'tuple2') for k in (2, 3)
                for m in ('tensor', 'str') for n in ('none', 1)]

    ms = None

    def make_args(self, cfg, A):
        from contracts.ersatz_c import MultiSubstitute
        X = A.onehot('X', 3)
        A.assume(X.shape[1] >= 2)
        k = cfg['k']
        kw = {}
        motifs = []
        if cfg['motif'] == 'str':
            n = z3.Int('alphabet.n')
            A.assume(n >= 1)
            kw['alphabet'] = Opaque('alphabet', 'alphabet', {'n': n})
        for i in range(k):
            if cfg['motif'] == 'tensor':
                motifs.append(A.onehot('motif%d' % i, 3))
            else:
                m = SStr('motif%d' % i)
                A.assume(m.length >= 0)
                q = z3.Int('cq')
                A.assume(z3.ForAll([q], And(m.code(q) >= -2, m.code(q) < n), patterns=[m.code(q)]))
                motifs.append(m)
        func, model = self.func_and_model(cfg, A)
        args = self.extra_args(cfg, A)
        spacing = A.tensor('spacing', 2, 'int', shape=[A.dim('spacing.d0', 1), k - 1])
        A.assume(spacing.shape[0] >= 1)
        kwargs = dict(start=A.int('start'), func=func, **kw)
        if args is not None:
            kwargs['args'] = args
        return [model, X, motifs, spacing], kwargs

    def ms_ns(self, a, srow):
        from vf.contract import NS
        sp = a.spacing
        return NS(X=a.X, motifs=a.motifs, spacing=[sp[srow, j] for j in range(len(a.motifs) - 1)], start=a.start, alphabet=a.alphabet)

    def rejects(self, a, cfg):
        from contracts.ersatz_c import MultiSubstitute
        ms = MultiSubstitute()
        return Or(O.exists_box([a.spacing.shape[0]], lambda s_: ms.rejects(self.ms_ns(a, s_), {})), args_mismatch(a.X, a.kwargs.get('args')))

    def accepts(self, a, cfg):
        from contracts.ersatz_c import MultiSubstitute
        ms = MultiSubstitute()
        return And(Not(O.exists_box([a.spacing.shape[0]], lambda s_: Not(ms.accepts(self.ms_ns(a, s_), {})))), Not(args_mismatch(a.X, a.kwargs.get('args'))))

    def result(self, a, cfg):
        from contracts.ersatz_c import MultiSubstitute
        ms = MultiSubstitute()
        X, S = a.X, a.spacing.shape[0]
        args, func = a.kwargs.get('args'), a.func
        rw = func.attrs['rowwise']
        nout = 1 if rw.k is None else rw.k
        befores, afters = [], []
        for o in range(nout):
            befores.append(spec_tensor([X.shape[0], S] + list(rw.trailing[o]),
                                       lambda i, s_, *t, o=o: rw.at(o, [row(X, i)] + [row(g, i) for g in (args or ())], t), 'real'))
            afters.append(spec_tensor([X.shape[0], S] + list(rw.trailing[o]),
                                      lambda i, s_, *t, o=o: rw.at(o, [row(ms.result(self.ms_ns(a, s_), {}), i)] + [row(g, i) for g in (args or ())], t), 'real'))
        if rw.k is None:
            return (befores[0], afters[0])
        return (list(befores), list(afters))

    def loops(self):
        from vf.world import defined_loop
        from vf.contract import NS

        def lists(fr, it):
            env = fr.env
            a = NS(X=env['X'], motifs=env['motifs'], spacing=env['spacing'], start=env['start'], alphabet=env['alphabet'],
                   func=env['func'], model=env['model'], kwargs=env['kwargs'])
            b, af = self.result(a, {})
            rw = env['func'].attrs['rowwise']
            tk = None if rw.k is None else rw.tuple_kind
            tr = lambda t: spec_tensor([it, t.shape[0]] + list(t.shape[2:]), lambda s_, i, *q: t.elem(i, s_, *q), t.kind)
            bs = [tr(t) for t in ([b] if rw.k is None else b)]
            as_ = [tr(t) for t in ([af] if rw.k is None else af)]
            return StackList(it, bs, tk), StackList(it, as_, tk)

        def extra(E, fr):
            from contracts.ersatz_c import MultiSubstitute
            ms = MultiSubstitute()
            a = NS(X=E.X, motifs=E.motifs, spacing=E.spacing, start=E.start, alphabet=E.alphabet)
            return [('iterations-passed-validation', Implies(E.it >= 1, Not(args_mismatch(E.X, E.kwargs.get('args'))))),
                    ('rows-passed-validation', E.forall([E.it], lambda s_: Not(ms.rejects(self.ms_ns(a, s_), {}))))]
        return {1: defined_loop({'y_befores': lambda fr, it: lists(fr, it)[0], 'y_afters': lambda fr, it: lists(fr, it)[1]}, extra=extra)}


def row(t, i):
    return spec_tensor(list(t.shape[1:]), lambda *q: t.elem(i, *q), t.kind)


def register(world):
    world.register(Marginalize())
    world.register(Ablate())
    world.register(MarginalizeAnnotations())
    world.register(AblateAnnotations())
    world.register(Space())
