"""Contract of tangermeme.kmers.kmers (property C18)."""
import z3
from vf import ops as O
from vf.ops import And, Or, Not, ite, Implies
from vf.tensor import Tn, Unsupported
from vf.contract import Contract, same
from vf.lib import Sum, IPOW


def ipow(b, t):
    if not O.any_sym(b, t):
        return int(b) ** int(t)
    z = lambda v: O.to_z3(v) if O.is_sym(v) else z3.IntVal(int(v))
    return IPOW(z(b), z(t))


class Kmers(Contract):
    """C18 (k-mer counting): with code(e, l) = sum_t sum_c X[e, c, l + t] * c * n^t the (little-endian, base n) number of
    the k-mer that starts at position l of example e - for a one-hot X the digit at offset t is the letter at l + t -
    entry (e, j) of the result is the number of start positions l in [0, L - k] with code(e, l) = j, or, with scores,
    the sum over those positions of the score summed over the k positions of the occurrence; the result has n^k
    columns; for every batch size, alphabet size, length and k."""
    qualname = 'tangermeme.kmers.kmers'
    props = ('C18',)

    def configs(self):
        return [dict(scores=False), dict(scores=True)]

    def scopes(self, cfg):
        return [{'default': 2, 'X.d2': 3, 'k': 2}, {'default': 2, 'X.d2': 4, 'k': 1}]

    def make_args(self, cfg, A):
        N, n, L = A.dim('N', 0), A.dim('n', 1), A.dim('L', 1)
        X = A.tensor('X', 3, 'int', shape=[N, n, L])
        k = A.int('k', lo=1)
        A.assume(k <= L)
        kw = {}
        if cfg['scores']:
            kw['scores'] = A.tensor('scores', 2, 'real', shape=[N, L])
        return [X, k], kw

    @staticmethod
    def code(a, e, l):
        X, k = a.X, a.k
        n = X.shape[1]
        return Sum(0, n, lambda c: Sum(0, k, lambda t: O.mul(X.elem(e, c, l + t), O.mul(c, ipow(n, t)))))

    def pre(self, a, cfg):
        # every window's code is a valid column (true of every one-hot X: 0 <= code < n^k; stated, not derived)
        X, k = a.X, a.k
        N, n, L = X.shape
        cols = ipow(n, k)
        return [O.forall_hyp([N, L - k + 1], lambda e, l: And(self.code(a, e, l) >= 0, self.code(a, e, l) < cols)), cols >= 1]

    def post(self, a, r, cfg):
        X, k = a.X, a.k
        N, n, L = X.shape
        out = [('is-tensor', isinstance(r, Tn) and r.rank == 2)]
        if not out[0][1]:
            return out
        cols = ipow(n, k)
        out.append(('shape (N, n^k)', And(O.eq(r.shape[0], N), O.eq(r.shape[1], cols))))
        sc = a.get('scores')

        def weight(e, l):
            if sc is None:
                return 1
            return Sum(0, k, lambda t: sc.elem(e, l + t), 'real')

        def entry(e, j):
            return Sum(0, L - k + 1, lambda l: ite(O.eq(self.code(a, e, l), j), weight(e, l), 0), 'real')
        def agree(e, j):
            got, exp = r.elem(e, j), entry(e, j)
            if not O.any_sym(got, exp):
                return abs(float(got) - float(exp)) <= 1e-4 * max(1.0, abs(float(exp)))     # concrete interpretation (replay)
            return O.smart_eq(O.to_z3(got), O.to_z3(exp))
        out.append(('entry (e, j) = (weighted) number of windows with code j', O.forall(r.shape, agree)))
        return out


def register(world):
    world.register(Kmers())
