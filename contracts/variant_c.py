"""Contracts of tangermeme.variant_effect (property C10)."""
import z3
from vf import ops as O
from vf.ops import And, Or, Not, ite, Implies
from vf.tensor import Tn, Unsupported
from vf.values import Opaque
from vf.contract import Contract, same
from vf.spec import spec_tensor
from vf.lib import Sum
from contracts.wrappers_c import make_func


from vf.contract import FragmentContract


class DeletionKeepMask(FragmentContract):
    """C10 (keep-mask of deletion_effect; the statements between the deletion scatter and the
    boolean-mask compaction, for ANY 0/1 deletion matrix): a position is kept iff it is not deleted
    AND it is not one of the k_e undeleted positions trimmed from the chosen side,
    k_e = max_e' #deleted(e') - #deleted(e).  In particular a deleted position is never kept."""
    qualname = 'tangermeme.variant_effect.deletion_effect'
    props = ('C10',)
    stmt_range = ('counts = mask.sum(dim=-1)', 'mask = mask[:, None].repeat')
    key = 'tangermeme.variant_effect.deletion_effect#keep-mask'

    def configs(self):
        return [dict(left=True), dict(left=False)]

    def make_env(self, cfg, A):
        N, L = A.dim('N', 1), A.dim('L', 1)
        mask = A.tensor('mask', 2, 'int', shape=[N, L])
        A.assume(O.forall_hyp([N, L], lambda e, p: Or(O.eq(mask[e, p], 0), O.eq(mask[e, p], 1))))
        if O.is_sym(N):
            A.assume(N >= 1, L >= 1)
        return dict(mask=mask, left=cfg['left'])

    def post_env(self, b, a, outcome, cfg):
        m0, mask = b.mask, a.mask
        N, L = m0.shape
        out = [('no-exception', not outcome.startswith('raise')), ('mask-is-bool-matrix', isinstance(mask, Tn) and mask.rank == 2 and mask.kind == 'bool')]
        if not (out[0][1] and out[1][1]):
            return out
        M = a.counts_max if hasattr(a, 'counts_max') else None
        cnt = lambda e: Sum(0, L, lambda q: m0[e, q])

        def keep(e, p, Mx):
            und = lambda q: 1 - m0[e, q]
            if cfg['left']:
                rank = Sum(0, p + 1, und)
            else:
                rank = Sum(0, (L - 1 - p) + 1, lambda q: und(L - 1 - q))
            return And(O.eq(m0[e, p], 0), rank > O.vabs(cnt(e) - Mx))
        # the maximum over examples of the number of deleted positions: any value that bounds every
        # count and is attained (spec-level definition; unique)
        Mx = z3.Int('Mspec')
        is_max = And(O.forall_hyp([N], lambda e: cnt(e) <= Mx), O.exists_box([N], lambda e: O.eq(cnt(e), Mx)))
        out.append(('shape', And(O.eq(mask.shape[0], N), O.eq(mask.shape[1], L))))
        out.append(('keep-iff-undeleted-and-beyond-trim-flank', Implies(is_max, O.forall([N, L], lambda e, p: O.Iff(mask[e, p], keep(e, p, Mx))))))
        out.append(('deleted-never-kept', O.forall([N, L], lambda e, p: Implies(O.eq(m0[e, p], 1), Not(mask[e, p])))))
        return out

    def replay_fragment(self, cfg, st):
        """the 0/1 matrix as a deletion list, position-identifying sequences, identity func, real
        deletion_effect; expected = string-level edit from the statement"""
        import torch
        from tangermeme.variant_effect import deletion_effect
        M = st.get('mask')
        if M is None:
            return []
        N, L = len(M), len(M[0])
        rows = [[e, p] for e in range(N) for p in range(L) if M[e][p] == 1]
        if not rows:
            return []
        X = torch.zeros(N, L, L, dtype=torch.int8)
        for e in range(N):
            for p in range(L):
                X[e, p, p] = 1
        total = max(sum(M[e]) for e in range(N))
        exp = []
        for e in range(N):
            kept = [p for p in range(L) if M[e][p] == 0]
            extra = total - sum(M[e])
            if extra:
                kept = kept[extra:] if cfg['left'] else kept[:len(kept) - extra]
            exp.append(kept)
        try:
            _, after = deletion_effect(None, X, torch.tensor(rows, dtype=torch.int64), left=cfg['left'], func=lambda model, X, **kw: X)
        except Exception as ex:
            return ['deletion_effect raised %s (%s) on deletions %s (left=%s, L=%d)' % (type(ex).__name__, str(ex)[:60], rows, cfg['left'], L)]
        got = []
        for e in range(N):
            cols = after[e]
            if not bool(((cols.sum(dim=0) == 1)).all()):
                return ['deletions %s (left=%s, L=%d): example %d reaching func is not one-hot' % (rows, cfg['left'], L, e)]
            got.append(cols.argmax(dim=0).tolist())
        if got != exp:
            return ['deletions %s (left=%s, L=%d): positions reaching func %s, expected %s' % (rows, cfg['left'], L, got, exp)]
        return []




class SubstitutionEffect(Contract):
    """C10 (substitutions, whole function): whenever substitution_effect returns, y_before = func on the
    unmodified X and y_after = func on X with, for every row (e, p, c) of the table, column p of example e
    replaced by the one-hot column of character c; positions not named by the table are untouched; X is
    not written.  (Which conflicting tables are rejected is the bounded layer's clause.)"""
    qualname = 'tangermeme.variant_effect.substitution_effect'
    props = ('C10',)

    def configs(self):
        return [dict(out=o) for o in ('tensor', 'tuple2')]

    def scopes(self, cfg):
        return [{'default': 2}, {'default': 2, 'R': 3, 'X.d2': 3}, {'default': 3, 'R': 1}]

    def make_args(self, cfg, A):
        func = make_func('F', cfg['out'], A)
        model = Opaque('model', 'model', {'types': ['model']})
        X = A.tensor('X', 3, 'int', min_dims=1)
        R = A.dim('R', 0)
        S = A.tensor('substitutions', 2, 'int', shape=[R, 3])
        # the table names examples, positions and characters of X (what the statement quantifies over)
        A.assume(O.forall_hyp([R], lambda r: And(0 <= S[r, 0], S[r, 0] < X.shape[0], 0 <= S[r, 1], S[r, 1] < X.shape[2],
                                                 0 <= S[r, 2], S[r, 2] < X.shape[1])))
        return [model, X, S], dict(func=func)

    @staticmethod
    def edited(X, S):
        R = S.shape[0]

        def elem(e, c, p):
            named = O.exists_box([R], lambda r: And(O.eq(S.elem(r, 0), e), O.eq(S.elem(r, 1), p)))
            one = O.exists_box([R], lambda r: And(O.eq(S.elem(r, 0), e), O.eq(S.elem(r, 1), p), O.eq(S.elem(r, 2), c)))
            return ite(one, 1, ite(named, 0, X.elem(e, c, p)))
        return spec_tensor(list(X.shape), elem, 'int')

    def repair_concrete(self, cfg, args, kwargs):
        args = list(args)
        args[2] = args[2].long()      # an index table
        return args, kwargs

    def rejects(self, a, cfg):
        return False

    def accepts(self, a, cfg):
        return False     # no claim here about which tables are accepted (conflicts are rejected: bounded clause)

    def result(self, a, cfg):
        rw = a.func.attrs['rowwise']
        Xv = self.edited(a.X, a.substitutions)
        return (rw.package(rw.apply_rows([a.X])), rw.package(rw.apply_rows([Xv])))


def register(world):
    world.register_fragment(DeletionKeepMask())
    world.register(SubstitutionEffect())
