"""Contracts of tangermeme.design (property C20)."""
import z3
from vf import ops as O
from vf.ops import And, Or, Not, ite, Implies
from vf.tensor import Tn, Unsupported
from vf.contract import Contract, same
from vf.world import LoopSpec, defined_loop
from vf.spec import spec_tensor


def X0(shape):
    f = z3.Function('X', z3.IntSort(), z3.IntSort(), z3.IntSort(), z3.IntSort())
    return spec_tensor(shape, lambda r, k, p: f(O.to_z3(r), O.to_z3(k), O.to_z3(p)), lib='np')


class FastTileSubstitute(Contract):
    """C20 (tiling): row i of X receives the motif at offset i, every other entry is unchanged;
    all writes stay inside the array (numba: no bounds checks) and iteration i of the parallel
    loop writes row i only."""
    qualname = 'tangermeme.design._fast_tile_substitute'
    props = ('C20',)
    modifies = ('X',)
    use_at_calls = True

    def make_args(self, cfg, A):
        X = A.tensor('X', 3, 'int', lib='np')
        motif = A.tensor('motif', 2, 'int', lib='np')
        return [X, motif], {}

    def pre(self, a, cfg):
        X, m = a.X, a.motif
        return [m.shape[0] <= X.shape[1], X.shape[0] + m.shape[1] - 1 <= X.shape[2], X.shape[0] >= 0, m.shape[1] >= 0, m.shape[0] >= 0]

    def final(self, a):
        X, m = a.X, a.motif
        n, Am = m.shape[1], m.shape[0]
        return spec_tensor(X.shape, lambda r, k, p: ite(And(r <= p, p < r + n, k < Am), m[k, p - r], X[r, k, p]), lib='np')

    def result(self, a, cfg):
        return None

    def post(self, a, r, cfg):
        live = a._live['X']
        return same(live, self.final(a), 'X-after')

    def loops(self):
        def d1(fr, it, rows_done=None):
            env = fr.env
            X, m = env['X'], env['motif']
            n, Am = m.shape[1], m.shape[0]
            base = X0(X.shape)
            return spec_tensor(X.shape, lambda r, k, p: ite(And(r < it, r <= p, p < r + n, k < Am), m[k, p - r], base[r, k, p]), lib='np')

        def d2(fr, it):
            env = fr.env
            X, m, i = env['X'], env['motif'], env['i']
            Am = m.shape[0]
            before = d1(fr, i)
            return spec_tensor(X.shape, lambda r, k, p: ite(And(O.eq(r, i), i <= p, p < i + it, k < Am), m[k, p - i], before[r, k, p]), lib='np')

        def d3(fr, it):
            env = fr.env
            X, m, i, j = env['X'], env['motif'], env['i'], env['j']
            before = d2(fr, j)
            return spec_tensor(X.shape, lambda r, k, p: ite(And(O.eq(r, i), O.eq(p, i + j), k < it), m[k, j], before[r, k, p]), lib='np')
        return {1: defined_loop({'X': d1}), 2: defined_loop({'X': d2}), 3: defined_loop({'X': d3})}


def register(world):
    world.register(FastTileSubstitute())
