"""Contracts of tangermeme.design (property C20)."""
import z3
from vf import ops as O
from vf.ops import And, Or, Not, ite, Implies
from vf.tensor import Tn, Unsupported
from vf.contract import Contract, same
from vf.world import LoopSpec, defined_loop
from vf.spec import spec_tensor


def X0(shape):
    f = z3.Function('X', z3.IntSort(), z3.IntSort(), z3.IntSort(), z3.IntSort())
    return spec_tensor(shape, lambda r, k, p: f(O.to_z3(r), O.to_z3(k), O.to_z3(p)), lib='np')


class FastTileSubstitute(Contract):
    """C20 (tiling): row i of X receives the motif at offset i, every other entry is unchanged;
    all writes stay inside the array (numba: no bounds checks) and iteration i of the parallel
    loop writes row i only."""
    qualname = 'tangermeme.design._fast_tile_substitute'
    props = ('C20',)
    modifies = ('X',)
    use_at_calls = True

    def make_args(self, cfg, A):
        X = A.tensor('X', 3, 'int', lib='np')
        motif = A.tensor('motif', 2, 'int', lib='np')
        return [X, motif], {}

    def pre(self, a, cfg):
        X, m = a.X, a.motif
        return [m.shape[0] <= X.shape[1], X.shape[0] + m.shape[1] - 1 <= X.shape[2], X.shape[0] >= 0, m.shape[1] >= 0, m.shape[0] >= 0]

    def random_inputs(self, cfg, rng):
        """(bounds-checked replay, vf/boundscheck.py) every fitting tiling of a small motif"""
        import numpy
        A, L = rng.randint(1, 4), rng.randint(1, 8)
        Am, n = rng.randint(1, A), rng.randint(1, L)
        rows = L - n + 1
        X = numpy.array([[[rng.randint(0, 1) for _ in range(L)] for _ in range(A)] for _ in range(rows)], dtype='int8')
        motif = numpy.array([[rng.randint(0, 1) for _ in range(n)] for _ in range(Am)], dtype='int8')
        return [X, motif], {}

    def show_inputs(self, args, kwargs):
        return '_fast_tile_substitute(X of shape %s, motif of shape %s)' % (tuple(args[0].shape), tuple(args[1].shape))

    def final(self, a):
        X, m = a.X, a.motif
        n, Am = m.shape[1], m.shape[0]
        return spec_tensor(X.shape, lambda r, k, p: ite(And(r <= p, p < r + n, k < Am), m[k, p - r], X[r, k, p]), lib='np')

    def result(self, a, cfg):
        return None

    def post(self, a, r, cfg):
        live = a._live['X']
        return same(live, self.final(a), 'X-after')

    def loops(self):
        def d1(fr, it, rows_done=None):
            env = fr.env
            X, m = env['X'], env['motif']
            n, Am = m.shape[1], m.shape[0]
            base = X0(X.shape)
            return spec_tensor(X.shape, lambda r, k, p: ite(And(r < it, r <= p, p < r + n, k < Am), m[k, p - r], base[r, k, p]), lib='np')

        def d2(fr, it):
            env = fr.env
            X, m, i = env['X'], env['motif'], env['i']
            Am = m.shape[0]
            before = d1(fr, i)
            return spec_tensor(X.shape, lambda r, k, p: ite(And(O.eq(r, i), i <= p, p < i + it, k < Am), m[k, p - i], before[r, k, p]), lib='np')

        def d3(fr, it):
            env = fr.env
            X, m, i, j = env['X'], env['motif'], env['i'], env['j']
            before = d2(fr, j)
            return spec_tensor(X.shape, lambda r, k, p: ite(And(O.eq(r, i), O.eq(p, i + j), k < it), m[k, j], before[r, k, p]), lib='np')
        return {1: defined_loop({'X': d1}), 2: defined_loop({'X': d2}), 3: defined_loop({'X': d3})}


from vf.contract import FragmentContract


class GreedyBestCandidate(FragmentContract):
    """C20 (selection step of greedy_substitution; the four statements after the per-position losses of
    one motif have been computed): the running best (improvement, motif, position, loss) is replaced
    whenever this motif's smallest loss improves on it strictly (never when it is worse), and then records
    that smallest loss and one of its positions; otherwise it is unchanged.  Hence after all motifs the recorded candidate
    has the smallest loss among all motifs and all fitting positions (or none improves on the current
    sequence and best_motif_idx stays -1)."""
    qualname = 'tangermeme.design.greedy_substitution'
    props = ('C20',)
    stmt_block = ('pos = loss_curr.argmin()', ('until', 'if improvement'))
    key = 'tangermeme.design.greedy_substitution#best-candidate'

    def scopes(self, cfg):
        return [{'default': 3}, {'default': 1}, {'default': 4}]

    def make_env(self, cfg, A):
        P = A.dim('P', 1)
        loss_curr = A.tensor('loss_curr', 1, 'real', shape=[P])
        env = dict(loss_curr=loss_curr, loss_prev=A.real('loss_prev'), best_improvement=A.real('best_improvement'),
                   best_motif_idx=A.int('best_motif_idx'), best_pos=A.int('best_pos'), best_loss=A.real('best_loss'), idx=A.int('idx', lo=0))
        A.assume(env['best_improvement'] >= 0)
        return env

    def post_env(self, b, a, outcome, cfg):
        out = [('no-exception', not outcome.startswith('raise'))]
        if not out[0][1]:
            return out
        L = b.loss_curr
        P = L.shape[0]
        bi, bm, bp, bl = a.best_improvement, a.best_motif_idx, a.best_pos, a.best_loss
        from vf.lib import unwrap_scalar
        bi, bm, bp, bl = [unwrap_scalar(x) if isinstance(x, Tn) else x for x in (bi, bm, bp, bl)]
        better = O.exists_box([P], lambda i: b.loss_prev - L.elem(i) > b.best_improvement)
        # replaced: this motif's minimum is recorded; kept: nothing changes
        replaced = And(O.eq(bm, b.idx), 0 <= bp, bp < P, O.forall([P], lambda i: bl <= L.elem(i)),
                       O.exists_box([P], lambda i: And(O.eq(i, bp), O.eq(L.elem(i), bl))), O.eq(bi, b.loss_prev - bl))
        kept = And(O.eq(bi, b.best_improvement), O.eq(bm, b.best_motif_idx), O.eq(bp, b.best_pos), O.eq(bl, b.best_loss))
        tie_or_better = O.exists_box([P], lambda i: b.loss_prev - L.elem(i) >= b.best_improvement)
        # (how ties between equally good candidates are broken is not part of the property)
        out.append(('candidate-is-the-old-one-or-this-motifs-minimum', Or(replaced, kept)))
        out.append(('a-strictly-better-candidate-replaces', Implies(better, replaced)))
        out.append(('a-worse-candidate-does-not', Implies(Not(tie_or_better), kept)))
        out.append(('best-improvement-is-the-running-maximum', And(bi >= b.best_improvement, O.forall([P], lambda i: bi >= b.loss_prev - L.elem(i)))))
        return out

    def replay_fragment(self, cfg, st):
        import torch
        from vf.contract import replay_fragment_generic
        if st.get('loss_curr') is None:
            return []
        env = dict(loss_curr=torch.tensor([float(int(round(x)) % 7) for x in st['loss_curr']], dtype=torch.float64), loss_prev=float(int(st.get('loss_prev', 3)) % 9),
                   best_improvement=float(abs(int(st.get('best_improvement', 0))) % 5), best_motif_idx=int(st.get('best_motif_idx', -1)),
                   best_pos=int(st.get('best_pos', -1)), best_loss=float(int(st.get('best_loss', 0)) % 9), idx=int(st.get('idx', 0)))
        return replay_fragment_generic(self._world, self, cfg, env)


class GreedyApplyBest(FragmentContract):
    """C20 (application step of greedy_substitution; the `if best_motif_idx != -1:` statement after the motif loop): the
    candidate that was recorded is the one that is applied - the new sequence is the old one with exactly
    motifs[best_motif_idx] written at best_pos (contract of ersatz.substitute, C01) and loss_prev becomes the loss that was
    recorded for it; when no candidate improved (best_motif_idx == -1) neither the sequence nor loss_prev changes."""
    qualname = 'tangermeme.design.greedy_substitution'
    props = ('C20',)
    stmt_block = ('if best_motif_idx', 1)
    key = 'tangermeme.design.greedy_substitution#apply-best'

    def configs(self):
        return [dict(best=b) for b in (-1, 0, 1, 2)]

    def scopes(self, cfg):
        return [{'default': 3}, {'default': 2}]

    def make_env(self, cfg, A):
        from vf.values import SStr, Opaque
        X = A.onehot('X', 3)
        n = X.shape[1]
        A.assume(n >= 2)
        motifs = []
        q = z3.Int('cq')
        for k in range(3):
            m = SStr('motif%d' % k)
            A.assume(m.length >= 1)
            A.assume(z3.ForAll([q], And(m.code(q) >= 0, m.code(q) < n), patterns=[m.code(q)]))
            motifs.append(m)
        best = cfg['best']
        pos = A.int('best_pos')
        if best >= 0:
            # established by the selection step: a fitting position of that motif
            A.assume(pos >= 0, pos + motifs[best].length <= X.shape[2])
        bl, lp = A.real('best_loss'), A.real('loss_prev')
        # postcondition of the selection step (#best-candidate, clause `replaced`): best_improvement = loss_prev - best_loss
        bi = lp - bl if best >= 0 else A.real('best_improvement')
        return dict(X=X, motifs=motifs, alphabet=Opaque('alphabet', 'alphabet', {'n': n}), best_motif_idx=best, best_pos=pos,
                    best_loss=bl, loss_prev=lp, best_improvement=bi,
                    verbose=False, iteration=A.int('iteration', lo=0))

    def post_env(self, b, a, outcome, cfg):
        from vf.contract import same
        out = [('no-exception', not outcome.startswith('raise'))]
        if not out[0][1]:
            return out
        k = cfg['best']
        if k == -1:
            out.extend(same(a.X, b.X, 'sequence-unchanged'))
            out.append(('loss-unchanged', O.eq(a.loss_prev, b.loss_prev)))
            return out
        m, s, X = b.motifs[k], b.best_pos, b.X
        spec = spec_tensor(X.shape, lambda e, c, p: ite(And(s <= p, p < s + m.length), ite(O.eq(c, m.code(p - s)), 1, 0), X[e, c, p]))
        out.extend(same(a.X, spec, 'recorded-motif-at-recorded-position'))
        out.append(('loss-is-the-recorded-one', O.eq(a.loss_prev, b.best_loss)))
        return out


def register(world):
    world.register(FastTileSubstitute())
    world.register_fragment(GreedyBestCandidate())
    world.register_fragment(GreedyApplyBest())
