"""Contracts of tangermeme.tools.fimo (properties C11, C12)."""
import z3
from vf import ops as O
from vf.ops import And, Or, Not, ite, Implies
from vf.tensor import Tn, Unsupported
from vf.values import KeyedLists
from vf.contract import Contract, same
from vf.world import LoopSpec, defined_loop
from vf.spec import spec_tensor, _symbolic_content
from vf import lib as L

PS = z3.Function('PS', z3.IntSort(), z3.IntSort(), z3.IntSort(), z3.IntSort(), z3.RealSort())   # k, l, i, j: partial window score


def pfun(name, rank, sort=None):
    return z3.Function(name, *([z3.IntSort()] * rank), sort or z3.IntSort())


class FastHits(Contract):
    """C12 (scanner): hits[k] contains a tuple for exactly the windows (l, i) with 0 <= i <= len_l - w_k
    whose score exceeds score_threshold[k]; its fields are (l, i, i + w_k, score, 2**table[bin]); score
    is the sum over the window of pwm[X[..], column] with unknown characters (-1) contributing 0.
    numba: every array access is inside its array; iteration k of the parallel loop only appends
    to hits[k] (thread-count independence)."""
    qualname = 'tangermeme.tools.fimo._fast_hits'
    props = ('C12',)
    numba = True

    def make_args(self, cfg, A):
        X = A.tensor('X', 1, 'int', lib='np')
        cl = A.tensor('chrom_lengths', 1, 'int', lib='np')
        pwm = A.tensor('pwm', 2, 'real', lib='np')
        pl = A.tensor('pwm_lengths', 1, 'int', lib='np')
        th = A.tensor('score_threshold', 1, 'real', lib='np')
        sm = A.tensor('smallest', 1, 'int', lib='np')
        tab = A.tensor('score_to_pvals', 1, 'real', lib='np')
        tl = A.tensor('score_to_pval_lengths', 1, 'int', lib='np')
        return [X, cl, pwm, pl, th, A.real('bin_size'), sm, tab, tl], {}

    def scopes(self, cfg):
        base = {'pwm_lengths.d0': 2, 'chrom_lengths.d0': 2, 'score_threshold.d0': 1, 'smallest.d0': 1, 'score_to_pval_lengths.d0': 2,
                'X.d0': 3, 'pwm.d0': 2, 'pwm.d1': 2, 'score_to_pvals.d0': 3}
        two = dict(base)
        two.update({'pwm_lengths.d0': 3, 'chrom_lengths.d0': 3, 'score_threshold.d0': 2, 'smallest.d0': 2, 'score_to_pval_lengths.d0': 3,
                    'X.d0': 5, 'pwm.d1': 3})
        return [base, two]

    # -- spec helpers (dual)
    def term(self, a, k, l, i, j):
        x = a.X[a.chrom_lengths[l] + i + j]
        return ite(O.eq(x, -1), 0, a.pwm[x, a.pwm_lengths[k] + j])

    def score(self, a, k, l, i, j):
        """partial score after j columns (recursive spec function; unfolding axioms in pre)"""
        if not O.any_sym(k, l, i, j) and not _symbolic_content(a.X):
            tot = 0.0
            for q in range(int(j)):
                tot = tot + self.term(a, k, l, i, q)
            return tot
        if not O.any_sym(a.pwm.shape[1]):
            # small scope: the sum is written out (no motif is wider than the PWM matrix)
            tot = 0
            for q in range(int(a.pwm.shape[1])):
                tot = tot + ite(q < j, self.term(a, k, l, i, q), 0)
            return tot
        return PS(O.to_z3(k), O.to_z3(l), O.to_z3(i), O.to_z3(j))

    def width(self, a, k):
        return a.pwm_lengths[k + 1] - a.pwm_lengths[k]

    def seqlen(self, a, l):
        return a.chrom_lengths[l + 1] - a.chrom_lengths[l]

    def table_index(self, a, k, s):
        q = O.truediv(s, a.bin_size)
        t = L._int(None, q)
        return t - a.smallest[k] + a.score_to_pval_lengths[k]

    def pre(self, a, cfg):
        X, cl, pwm, pl = a.X, a.chrom_lengths, a.pwm, a.pwm_lengths
        nm, nc = pl.shape[0] - 1, cl.shape[0] - 1
        out = [nm >= 0, nc >= 0, a.bin_size > 0,
               O.eq(a.score_threshold.shape[0], nm), O.eq(a.smallest.shape[0], nm), a.score_to_pval_lengths.shape[0] >= nm]
        fa = O.forall_hyp
        out.append(fa([nc], lambda l: And(cl[l] >= 0, cl[l] <= cl[l + 1], cl[l + 1] <= X.shape[0])))
        out.append(fa([nm], lambda k: And(pl[k] >= 0, pl[k] <= pl[k + 1], pl[k + 1] <= pwm.shape[1])))
        out.append(fa([X.shape[0]], lambda t: And(X[t] >= -1, X[t] < pwm.shape[0])))
        if _symbolic_content(X) and O.any_sym(a.pwm.shape[1]):
            k, l, i, j = z3.Ints('qk ql qi qj')
            out.append(z3.ForAll([k, l, i], PS(k, l, i, 0) == 0))
            out.append(z3.ForAll([k, l, i, j], z3.Implies(j >= 0, PS(k, l, i, j + 1) == PS(k, l, i, j) + O.to_z3(self.term(a, k, l, i, j))),
                                 patterns=[PS(k, l, i, j + 1)]))
        # the p-value table of motif k covers the bin of every above-threshold window score
        # (link to C11; checked at run time by the bounded layer)
        def covered(k, l, i):
            s = self.score(a, k, l, i, self.width(a, k))
            idx = self.table_index(a, k, s)
            return Implies(And(0 <= i, i <= self.seqlen(a, l) - self.width(a, k), s > a.score_threshold[k]),
                           And(0 <= idx, idx < a.score_to_pvals.shape[0]))
        if _symbolic_content(X) and not O.any_sym(nm, nc, X.shape[0]):
            for k in range(int(nm)):
                for l in range(int(nc)):
                    for i in range(int(X.shape[0]) + 1):
                        out.append(covered(k, l, i))
        elif _symbolic_content(X):
            k, l, i = z3.Ints('ck cl_ ci')
            out.append(z3.ForAll([k, l, i], z3.Implies(z3.And(0 <= k, k < O.to_z3(nm), 0 <= l, l < O.to_z3(nc)), O.to_z3(covered(k, l, i)))))
        return out

    def hits_spec(self, a, kdone, ldone=None, idone=None, kcur=None, lcur=None):
        """membership / payload after: all motifs < kdone; for motif kcur all sequences < ldone;
        for (kcur, lcur) all windows < idone"""
        nm = a.pwm_lengths.shape[0] - 1
        nc = a.chrom_lengths.shape[0] - 1

        def full(k, l, i):
            w = self.width(a, k)
            return And(0 <= l, l < nc, 0 <= i, i <= self.seqlen(a, l) - w,
                       self.score(a, k, l, i, w) > a.score_threshold[k])

        def member(k, l, i):
            c = And(k < kdone, full(k, l, i))
            if kcur is not None:
                c = Or(c, And(O.eq(k, kcur), l < ldone, full(k, l, i)))
                if lcur is not None:
                    c = Or(c, And(O.eq(k, kcur), O.eq(l, lcur), i < idone, full(k, l, i)))
            return c

        def payload(k, l, i):
            w = self.width(a, k)
            s = self.score(a, k, l, i, w)
            idx = self.table_index(a, k, s)
            pv = a.score_to_pvals[idx]
            e = L.EXP2(O.to_z3(pv)) if O.is_sym(pv) else 2.0 ** pv
            return (i + w, s, e)
        return member, payload

    def result(self, a, cfg):
        nm = a.pwm_lengths.shape[0] - 1
        m, p = self.hits_spec(a, nm)
        r = KeyedLists(nm, 2, m, p)
        if not _symbolic_content(a.X):
            r.box = [a.chrom_lengths.shape[0] - 1, a.X.shape[0] + 1]
        return r

    def repair_concrete(self, cfg, args, kwargs):
        import numpy
        X, cl, pwm, pl, th, bs, sm, tab, tl = args
        f = lambda t, dt: numpy.ascontiguousarray(t.numpy().astype(dt))
        return [f(X, 'int8'), f(cl, 'int64'), f(pwm, 'float64'), f(pl, 'uint64'), f(th, 'float32'), float(bs), f(sm, 'int64'),
                f(tab, 'float64'), f(tl, 'int64')], kwargs

    def wrap_result(self, real):
        hits = [list(h) for h in real]

        def member(k, l, i):
            return any(int(t[0]) == int(l) and int(t[1]) == int(i) for t in hits[int(k)]) if 0 <= int(k) < len(hits) else False

        def payload(k, l, i):
            for t in hits[int(k)] if 0 <= int(k) < len(hits) else []:
                if int(t[0]) == int(l) and int(t[1]) == int(i):
                    return (int(t[2]), float(t[3]), float(t[4]))
            return (0, 0.0, 0.0)
        return KeyedLists(len(hits), 2, member, payload)

    def loops(self):
        from vf.contract import NS

        def A_(fr):
            e = fr.env
            return NS(X=e['X'], chrom_lengths=e['chrom_lengths'], pwm=e['pwm'], pwm_lengths=e['pwm_lengths'],
                      score_threshold=e['score_threshold'], bin_size=e['bin_size'], smallest=e['smallest'],
                      score_to_pvals=e['score_to_pvals'], score_to_pval_lengths=e['score_to_pval_lengths'])

        def h1(fr, it):
            return KeyedLists(it, 2, lambda k, l, i: False, lambda k, l, i: (0, 0.0, 0.0))

        def hk(fr, it):
            a = A_(fr)
            m, p = self.hits_spec(a, it)
            return KeyedLists(a.pwm_lengths.shape[0] - 1, 2, m, p)

        def hl(fr, it):
            a = A_(fr)
            m, p = self.hits_spec(a, fr.env['k'], it, None, kcur=fr.env['k'])
            return KeyedLists(a.pwm_lengths.shape[0] - 1, 2, m, p)

        def hi(fr, it):
            a = A_(fr)
            m, p = self.hits_spec(a, fr.env['k'], fr.env['l'], it, kcur=fr.env['k'], lcur=fr.env['l'])
            return KeyedLists(a.pwm_lengths.shape[0] - 1, 2, m, p)

        def score_inv(E, fr):
            a = A_(fr)
            return [('score-is-partial-sum', O.eq(E.score, self.score(a, E.k, E.l, E.i, E.it)))]
        return {1: defined_loop({'hits': h1}), 2: defined_loop({'hits': hk}), 3: defined_loop({'hits': hl}),
                4: defined_loop({'hits': hi}), 5: LoopSpec(score_inv)}


class LogAddExp2(Contract):
    """fimo.logaddexp2 as seen from _pwm_to_mapping - ASSUMED: returns some extended real (its value
    semantics log2(2^x + 2^y) over extended reals is checked by the bounded layer C11)."""
    qualname = 'tangermeme.tools.fimo.logaddexp2'
    props = ('C11',)
    assumed = True

    def fresh_result(self, a, cfg, fr):
        return O.fresh_real('lae')


def all_init(E, t):
    return E.forall(list(t.shape), lambda *j: t.init_at(*j))


CMIN = z3.Function('C11.colmin', z3.IntSort(), z3.IntSort())
CMAX = z3.Function('C11.colmax', z3.IntSort(), z3.IntSort())
SENT = 9999999


class PwmToMappingInit(Contract):
    """C11 (memory safety of the table construction): for every PWM (n >= 1 rows, l >= 1 columns, every discretised
    entry strictly between the sentinels +-9999999) every read and write of _pwm_to_mapping lies inside its array -
    numba performs no bounds checks, an index outside [0, largest - smallest] silently corrupts the heap - and the
    table returned never exposes uninitialised memory (every entry was written, for every motif length including 1).
    Argument: with cmin(i) / cmax(i) the column minima / maxima of the discretised matrix and CS(t) their prefix sums,
    smallest <= CSmin(t) and CSmax(t) <= largest - l for 1 <= t <= l; after t columns every finite entry of the
    running pdf has an index in [CSmin(t) - smallest, CSmax(t) - smallest]; one more column moves it by an entry of
    that column.  (The VALUE of the table is not covered by this contract: bounded layer C11.)"""
    qualname = 'tangermeme.tools.fimo._pwm_to_mapping'
    props = ('C11',)

    def make_args(self, cfg, A):
        pwm = A.tensor('log_pwm', 2, 'real', lib='np', min_dims=1)
        bs = A.real('bin_size')
        A.assume(bs > 0)
        return [pwm, bs], {}

    def accepts(self, a, cfg):
        return False

    def random_inputs(self, cfg, rng):
        """small log-odds matrices (bounds-checked replay, vf/boundscheck.py)"""
        import numpy
        n, l = rng.choice([1, 2, 4]), rng.randint(1, 5)
        kind = rng.choice(['ints', 'mixed', 'onehot', 'float'])
        if kind == 'ints':
            m = numpy.array([[rng.randint(-6, 6) for _ in range(l)] for _ in range(n)], dtype='float64')
        elif kind == 'onehot':
            m = numpy.array([[rng.choice([-20.0, 0.0, 2.0]) for _ in range(l)] for _ in range(n)])
        elif kind == 'mixed':
            m = numpy.array([[rng.choice([-1, 1]) * rng.randint(0, 9) for _ in range(l)] for _ in range(n)], dtype='float64')
        else:
            m = numpy.array([[rng.uniform(-4, 2) for _ in range(l)] for _ in range(n)])
        return [m, rng.choice([1.0, 0.5, 0.1])], {}

    def show_inputs(self, args, kwargs):
        return '_pwm_to_mapping(log_pwm=%s, bin_size=%s)' % (args[0].tolist(), args[1])

    def post(self, a, r, cfg):
        out = [('returns-pair', isinstance(r, tuple) and len(r) == 2 and isinstance(r[1], Tn))]
        if not out[0][1]:
            return out
        t = r[1]
        out.append(('table-fully-initialised', O.forall(t.shape, lambda j: t.init_at(j))))
        return out

    def loops(self):
        from vf.lib import Sum, sum_step_lemmas

        def P(fr):
            return fr.env['int_log_pwm']

        def cs(f, t):
            return Sum(0, t, lambda i: f(O.to_z3(i)))

        def defs(E, fr):
            """definitions of the column minima / maxima (they exist: n >= 1) and the precondition on the entries;
            hypotheses only"""
            if E.where != 'assume':
                return []
            p = P(fr)
            n, l = p.shape
            i, j = z3.Ints('c11_i c11_j')
            wmin = z3.Function('C11.argmin', z3.IntSort(), z3.IntSort())
            wmax = z3.Function('C11.argmax', z3.IntSort(), z3.IntSort())
            el = lambda a, b: O.to_z3(p.elem(a, b))
            col = z3.And(0 <= i, i < O.to_z3(l))
            return [('def:colmin', z3.ForAll([i, j], z3.Implies(z3.And(col, 0 <= j, j < O.to_z3(n)), z3.And(CMIN(i) <= el(j, i), el(j, i) <= CMAX(i))))),
                    ('def:colmin-attained', z3.ForAll([i], z3.Implies(col, z3.And(0 <= wmin(i), wmin(i) < O.to_z3(n), el(wmin(i), i) == CMIN(i),
                                                                                     0 <= wmax(i), wmax(i) < O.to_z3(n), el(wmax(i), i) == CMAX(i))), patterns=[CMIN(i)])),
                    ('pre:entries-between-the-sentinels', z3.ForAll([i, j], z3.Implies(z3.And(col, 0 <= j, j < O.to_z3(n)), z3.And(el(j, i) > -SENT, el(j, i) < SENT)))),
                    ('pre:n>=1,l>=1', And(n >= 1, l >= 1))]

        def stepped(E, goal):
            if E.where == 'assume':
                return goal
            g = O.to_z3(goal)
            return Implies(And(*sum_step_lemmas(g)), g)

        def init(E, *names):
            return [('%s-initialised' % nm, all_init(E, getattr(E, nm))) for nm in names if hasattr(E, nm)]

        def bounds(E, fr, upto):
            """smallest <= CSmin(t), CSmax(t) <= largest for 1 <= t <= upto"""
            env = fr.env
            sm, lg = env['smallest'], env['largest']
            return E.forall([upto], lambda t: stepped(E, And(sm <= cs(CMIN, t + 1), lg >= cs(CMAX, t + 1))))

        def l1(E, fr):
            env = fr.env
            return defs(E, fr) + unfold(E, fr, E.it) + [
                ('first-column', Implies(E.it >= 1, And(env['smallest'] <= CMIN(0), env['largest'] >= CMAX(0)))),
                ('csums', stepped(E, And(O.eq(env['log_pwm_min_csum'], cs(CMIN, E.it)), O.eq(env['log_pwm_max_csum'], cs(CMAX, E.it))))),
                ('sentinels-before-the-first-column', Implies(O.eq(E.it, 0), And(O.eq(env['smallest'], SENT), O.eq(env['largest'], -SENT)))),
                ('smallest/largest-bound-every-prefix', bounds(E, fr, E.it))]

        def l2(E, fr):
            env = fr.env
            p, i = P(fr), env['i']
            lo, hi = env['log_pwm_min'], env['log_pwm_max']
            return defs(E, fr) + [
                ('running-min/max-bound-the-entries-seen', E.forall([E.it], lambda j: And(lo <= p.elem(j, i), hi >= p.elem(j, i)))),
                ('running-min/max-are-sentinel-or-attained', And(Or(O.eq(lo, SENT), O.exists_box([E.it], lambda j: O.eq(lo, p.elem(j, i)))),
                                                                  Or(O.eq(hi, -SENT), O.exists_box([E.it], lambda j: O.eq(hi, p.elem(j, i))))))]

        def after1(fr):
            """facts established by the first loop nest (they stay in the path condition; restated where a later
            loop head needs them as hypotheses)"""
            return []

        def support(E, fr, t, cols):
            """every finite entry of t has an index in [CSmin(cols) - smallest, CSmax(cols) - smallest]"""
            env = fr.env
            sm = env['smallest']
            from vf.ops import PINF
            return E.forall(t.shape, lambda j: stepped(E, Implies(O.ne(t.elem(j), -PINF), And(cs(CMIN, cols) - sm <= j, j <= cs(CMAX, cols) - sm))))

        def width(E, fr):
            env = fr.env
            W = env['largest'] - env['smallest'] + 1
            p = P(fr)
            out = [('table-width', And(O.eq(env['logpdf'].shape[0], W), O.eq(env['old_logpdf'].shape[0], W)))]
            # (largest has been advanced by l)
            out.append(('prefix-bounds', E.forall([p.shape[1]], lambda t: stepped(E, And(env['smallest'] <= cs(CMIN, t + 1), env['largest'] - p.shape[1] >= cs(CMAX, t + 1))))))
            return out

        def unfold(E, fr, i):
            """instances of sum_range_succ' for the prefix sums at column i (valid by the definition of the sum;
            hypotheses only - the index-safety obligations are generated by the engine and carry no lemmas)"""
            if E.where != 'assume':
                return []
            return [('lemma:CS(i+1)=CS(i)+c(i)', And(O.eq(cs(CMIN, i + 1), cs(CMIN, i) + CMIN(O.to_z3(i))), O.eq(cs(CMAX, i + 1), cs(CMAX, i) + CMAX(O.to_z3(i))),
                                                   Implies(i <= 0, And(O.eq(cs(CMIN, i), 0), O.eq(cs(CMAX, i), 0)))))]

        def l3(E, fr):
            env = fr.env
            first = And(env['smallest'] <= CMIN(0), CMAX(0) <= env['largest'] - P(fr).shape[1])
            return defs(E, fr) + unfold(E, fr, 0) + width(E, fr) + init(E, 'old_logpdf') + [
                ('first-column-within-the-table', first), ('support-after-one-column', support(E, fr, env['old_logpdf'], 1))]

        def l4(E, fr):
            i = E.it + 1
            return defs(E, fr) + width(E, fr) + init(E, 'logpdf', 'old_logpdf') + [('support-after-i-columns', support(E, fr, fr.env['old_logpdf'], i))]

        def l5(E, fr):
            from vf.ops import PINF
            lp = fr.env['logpdf']
            return defs(E, fr) + width(E, fr) + init(E, 'logpdf', 'old_logpdf') + [
                ('cleared-so-far', E.forall([E.it], lambda j: O.eq(lp.elem(j), -PINF)))]

        def l6(E, fr):
            i = fr.env['i']
            return defs(E, fr) + unfold(E, fr, i) + width(E, fr) + init(E, 'logpdf', 'old_logpdf') + [
                ('old-support', support(E, fr, fr.env['old_logpdf'], i)), ('new-support', support(E, fr, fr.env['logpdf'], i + 1))]

        def l8(E, fr):
            i = fr.env['i']
            lp, ol = fr.env['logpdf'], fr.env['old_logpdf']
            return defs(E, fr) + width(E, fr) + init(E, 'logpdf', 'old_logpdf') + [
                ('new-support', support(E, fr, lp, i + 1)),
                ('copied-so-far', E.forall([E.it], lambda j: O.eq(ol.elem(j), lp.elem(j))))]

        def l9(E, fr):
            return init(E, 'logpdf', 'old_logpdf')
        return {1: LoopSpec(l1), 2: LoopSpec(l2), 3: LoopSpec(l3), 4: LoopSpec(l4), 5: LoopSpec(l5), 6: LoopSpec(l6), 7: LoopSpec(l6),
                8: LoopSpec(l8), 9: LoopSpec(l9)}


class FastConvert(Contract):
    """C12 (byte -> letter index conversion of a FASTA sequence in fimo): every byte X[i] in [0, len(mapping)) is
    replaced by mapping[X[i]] - position by position, nothing else is written, every access inside its array (numba)."""
    qualname = 'tangermeme.tools.fimo._fast_convert'
    props = ('C12',)
    modifies = ('X',)
    use_at_calls = False

    def make_args(self, cfg, A):
        n, m = A.dim('n', 0), A.dim('m', 1)
        X = A.tensor('X', 1, 'int', lib='np', shape=[n])
        mp = A.tensor('mapping', 1, 'int', lib='np', shape=[m])
        return [X, mp], {}

    def pre(self, a, cfg):
        return [O.forall_hyp([a.X.shape[0]], lambda i: And(a.X[i] >= 0, a.X[i] < a.mapping.shape[0]))]

    def result(self, a, cfg):
        return None

    def post(self, a, r, cfg):
        return same(a._live['X'], spec_tensor(a.X.shape, lambda i: a.mapping[a.X[i]], lib='np'), 'X-after')

    def loops(self):
        f = z3.Function('X', z3.IntSort(), z3.IntSort())

        def d1(fr, it):
            env = fr.env
            X, mp = env['X'], env['mapping']
            return spec_tensor(X.shape, lambda i: ite(i < it, mp[f(O.to_z3(i))], f(O.to_z3(i))), lib='np')
        return {1: defined_loop({'X': d1})}

    def random_inputs(self, cfg, rng):
        import numpy
        m = rng.randint(1, 12)
        n = rng.randint(0, 9)
        return [numpy.array([rng.randrange(m) for _ in range(n)], dtype='int8'), numpy.array([rng.randint(-1, 5) for _ in range(m)], dtype='int8')], {}


from vf.contract import FragmentContract


class TensorToIndices(FragmentContract):
    """C12 (tensor input of fimo, the statement that turns a one-hot batch into letter indices): for a batch
    X[n, c, l] = [c == w(n, l)] with an arbitrary index function w (a column with w outside [0, A) is all-zero: an
    unknown character) the result is w(n, l) where the column is one-hot and -1 where it is all-zero - the encoding of
    "unknown" that the scanner relies on; the input is not written."""
    qualname = 'tangermeme.tools.fimo.fimo'
    props = ('C12',)
    loop_ordinal = None
    key = 'tangermeme.tools.fimo.fimo#tensor-to-indices'
    stmt_block = ('sequence_names = None', ('until', 'X = '))      # the first statement(s) of the tensor branch

    def scopes(self, cfg):
        return [{'default': 2}, {'default': 3}]

    def make_env(self, cfg, A):
        from vf.spec import onehot_from_idx
        N, Ad, L = A.dim('N', 0), A.dim('A', 1), A.dim('L', 0)
        w = z3.Function('w', z3.IntSort(), z3.IntSort(), z3.IntSort())
        seqs = onehot_from_idx([N, Ad, L], lambda n, l: w(O.to_z3(n), O.to_z3(l)), ohe_dim=1)
        return dict(sequences=seqs, _w=w, _A=Ad)

    def post_env(self, b, a, outcome, cfg):
        out = [('no-exception', not outcome.startswith('raise'))]
        if not out[0][1]:
            return out
        X = a.X
        out.append(('is-a-(N, L)-tensor', isinstance(X, Tn) and X.rank == 2))
        if not out[-1][1]:
            return out
        S = b.sequences
        out.append(('shape', And(O.eq(X.shape[0], S.shape[0]), O.eq(X.shape[1], S.shape[2]))))
        if not O.any_sym(*S.shape) and not _symbolic_content(S):
            ok = True        # concrete interpretation (replay): read the expected index off the real column
            for n in range(int(S.shape[0])):
                for l in range(int(S.shape[2])):
                    col = [int(S.elem(n, c, l)) for c in range(int(S.shape[1]))]
                    exp = col.index(1) if sum(col) == 1 else -1
                    ok = ok and int(X.elem(n, l)) == exp
            out.append(('letter index where the column is one-hot, -1 where it is all-zero', ok))
            out.extend(same(a.sequences, b.sequences, 'sequences-unwritten'))
            return out
        w, Ad = b._w, b._A
        out.append(('letter index where the column is one-hot, -1 where it is all-zero',
                    O.forall(X.shape, lambda n, l: O.eq(X.elem(n, l), ite(And(0 <= w(O.to_z3(n), O.to_z3(l)), w(O.to_z3(n), O.to_z3(l)) < Ad), w(O.to_z3(n), O.to_z3(l)), -1)))))
        out.extend(same(a.sequences, b.sequences, 'sequences-unwritten'))
        return out

    def replay_fragment(self, cfg, st):
        """the real statement on a small one-hot batch with some all-zero columns"""
        import torch
        from vf.contract import replay_fragment_generic
        shp = st.get('sequences.shape') or [2, 4, 5]
        N, Ad, L = [max(0, int(v)) for v in shp]
        if Ad < 1 or N * Ad * L > 4096 or L < 1 or N < 1:
            return []
        g = torch.Generator().manual_seed(3)
        idx = torch.randint(-1, Ad, (N, L), generator=g)
        S = torch.zeros(N, Ad, L, dtype=torch.int64)
        for n in range(N):
            for l in range(L):
                if idx[n, l] >= 0:
                    S[n, idx[n, l], l] = 1
        return replay_fragment_generic(self._world, self, cfg, dict(sequences=S, _w=None, _A=Ad))


class ScoreThreshold(FragmentContract):
    """C12 (threshold of one motif, the body of the threshold loop of fimo()): _score_thresholds[i] is the
    score (bin index + smallest[i]) * bin_size of the FIRST bin of the motif's table whose log p-value is
    below log2(threshold) - every lower bin has a log p-value >= it - and +inf exactly when no bin
    qualifies; only entry i of the threshold vector is written."""
    qualname = 'tangermeme.tools.fimo.fimo'
    props = ('C12',)
    loop_ordinal = None
    key = 'tangermeme.tools.fimo.fimo#threshold'
    stmt_block = ('_score_to_pvals_lengths.append(len(_score_to_pvals[i]))', ('until', 'if len(idx) > 0'))

    def scopes(self, cfg):
        return [{'default': 3}, {'default': 1}, {'default': 4}]

    def make_env(self, cfg, A):
        from vf.values import StackList
        M, W = A.dim('M', 1), A.dim('W', 1)
        # the tables of the M motifs (here: equally long; their common length is arbitrary)
        tables = A.tensor('tables', 2, 'real', lib='np', shape=[M, W])
        i = A.int('i', lo=0)
        A.assume(i < M)
        thr = A.tensor('_score_thresholds', 1, 'real', lib='np', shape=[M])
        smallest = A.tensor('_smallest', 1, 'int', lib='np', shape=[M])
        return dict(_score_to_pvals=StackList(M, [tables]), tables=tables, _score_to_pvals_lengths=[0], i=i, log_threshold=A.real('log_threshold'),
                    _score_thresholds=thr, _smallest=smallest, bin_size=A.real('bin_size'))

    def post_env(self, b, a, outcome, cfg):
        out = [('no-exception', not outcome.startswith('raise'))]
        if not out[0][1]:
            return out
        i = b.i
        if hasattr(b._score_to_pvals, 'views'):
            V = b._score_to_pvals.views[0]
            W, tab = V.shape[1], (lambda j: V.elem(i, j))
        else:
            row = b._score_to_pvals[int(i)]          # concrete interpretation: a list of vectors
            W, tab = row.shape[0], (lambda j: row.elem(j))
        thr0, thr = b._score_thresholds, a._score_thresholds
        lt = b.log_threshold
        some = O.exists_box([W], lambda j: tab(j) < lt)
        first = lambda f: And(0 <= f, f < W, tab(f) < lt, O.forall([W], lambda j: Implies(j < f, tab(j) >= lt)))
        f = O.fresh_int('f')
        val = thr.elem(i)
        out.append(('threshold-is-first-qualifying-bin', ite(some, O.exists_box([W], lambda f_: And(first(f_), O.eq(val, (f_ + b._smallest.elem(i)) * b.bin_size))),
                                                            O.eq(val, O.PINF))))
        out.append(('other-entries-untouched', O.forall([thr.shape[0]], lambda m: Implies(O.ne(m, i), O.eq(thr.elem(m), thr0.elem(m))))))
        out.append(('length-recorded', isinstance(a._score_to_pvals_lengths, list) and len(a._score_to_pvals_lengths) == 2))
        return out

    def replay_fragment(self, cfg, st):
        import numpy
        from vf.contract import replay_fragment_generic
        if st.get('tables') is None or st.get('_smallest') is None:
            return []
        tabs = [numpy.array([float(int(round(x)) % 11) - 5.0 for x in r], dtype='float64') for r in st['tables']]
        M = len(tabs)
        env = dict(_score_to_pvals=tabs, _score_to_pvals_lengths=[0], i=int(st['i']) % M, log_threshold=float(int(st.get('log_threshold', 0)) % 7 - 3),
                   _score_thresholds=numpy.full(M, -123.0), _smallest=numpy.array([int(x) % 9 - 4 for x in st['_smallest']], dtype='int64'), bin_size=0.5)
        return replay_fragment_generic(self._world, self, cfg, env)


def register(world):
    world.register(FastConvert())
    world.register(FastHits())
    world.register(LogAddExp2())
    world.register(PwmToMappingInit())
    world.register_fragment(ScoreThreshold())
    world.register_fragment(TensorToIndices())
