"""Contracts of tangermeme.tools.fimo (properties C11, C12)."""
import z3
from vf import ops as O
from vf.ops import And, Or, Not, ite, Implies
from vf.tensor import Tn, Unsupported
from vf.values import KeyedLists
from vf.contract import Contract, same
from vf.world import LoopSpec, defined_loop
from vf.spec import spec_tensor, _symbolic_content
from vf import lib as L

PS = z3.Function('PS', z3.IntSort(), z3.IntSort(), z3.IntSort(), z3.IntSort(), z3.RealSort())   # k, l, i, j: partial window score


def pfun(name, rank, sort=None):
    return z3.Function(name, *([z3.IntSort()] * rank), sort or z3.IntSort())


class FastHits(Contract):
    """C12 (scanner): hits[k] contains a tuple for exactly the windows (l, i) with 0 <= i <= len_l - w_k
    whose score exceeds score_threshold[k]; its fields are (l, i, i + w_k, score, 2**table[bin]); score
    is the sum over the window of pwm[X[..], column] with unknown characters (-1) contributing 0.
    numba: every array access is inside its array; iteration k of the parallel loop only appends
    to hits[k] (thread-count independence)."""
    qualname = 'tangermeme.tools.fimo._fast_hits'
    props = ('C12',)
    numba = True

    def make_args(self, cfg, A):
        X = A.tensor('X', 1, 'int', lib='np')
        cl = A.tensor('chrom_lengths', 1, 'int', lib='np')
        pwm = A.tensor('pwm', 2, 'real', lib='np')
        pl = A.tensor('pwm_lengths', 1, 'int', lib='np')
        th = A.tensor('score_threshold', 1, 'real', lib='np')
        sm = A.tensor('smallest', 1, 'int', lib='np')
        tab = A.tensor('score_to_pvals', 1, 'real', lib='np')
        tl = A.tensor('score_to_pval_lengths', 1, 'int', lib='np')
        return [X, cl, pwm, pl, th, A.real('bin_size'), sm, tab, tl], {}

    def scopes(self, cfg):
        base = {'pwm_lengths.d0': 2, 'chrom_lengths.d0': 2, 'score_threshold.d0': 1, 'smallest.d0': 1, 'score_to_pval_lengths.d0': 2,
                'X.d0': 3, 'pwm.d0': 2, 'pwm.d1': 2, 'score_to_pvals.d0': 3}
        two = dict(base)
        two.update({'pwm_lengths.d0': 3, 'chrom_lengths.d0': 3, 'score_threshold.d0': 2, 'smallest.d0': 2, 'score_to_pval_lengths.d0': 3,
                    'X.d0': 5, 'pwm.d1': 3})
        return [base, two]

    # -- spec helpers (dual)
    def term(self, a, k, l, i, j):
        x = a.X[a.chrom_lengths[l] + i + j]
        return ite(O.eq(x, -1), 0, a.pwm[x, a.pwm_lengths[k] + j])

    def score(self, a, k, l, i, j):
        """partial score after j columns (recursive spec function; unfolding axioms in pre)"""
        if not O.any_sym(k, l, i, j) and not _symbolic_content(a.X):
            tot = 0.0
            for q in range(int(j)):
                tot = tot + self.term(a, k, l, i, q)
            return tot
        if not O.any_sym(a.pwm.shape[1]):
            # small scope: the sum is written out (no motif is wider than the PWM matrix)
            tot = 0
            for q in range(int(a.pwm.shape[1])):
                tot = tot + ite(q < j, self.term(a, k, l, i, q), 0)
            return tot
        return PS(O.to_z3(k), O.to_z3(l), O.to_z3(i), O.to_z3(j))

    def width(self, a, k):
        return a.pwm_lengths[k + 1] - a.pwm_lengths[k]

    def seqlen(self, a, l):
        return a.chrom_lengths[l + 1] - a.chrom_lengths[l]

    def table_index(self, a, k, s):
        q = O.truediv(s, a.bin_size)
        t = L._int(None, q)
        return t - a.smallest[k] + a.score_to_pval_lengths[k]

    def pre(self, a, cfg):
        X, cl, pwm, pl = a.X, a.chrom_lengths, a.pwm, a.pwm_lengths
        nm, nc = pl.shape[0] - 1, cl.shape[0] - 1
        out = [nm >= 0, nc >= 0, a.bin_size > 0,
               O.eq(a.score_threshold.shape[0], nm), O.eq(a.smallest.shape[0], nm), a.score_to_pval_lengths.shape[0] >= nm]
        fa = O.forall_hyp
        out.append(fa([nc], lambda l: And(cl[l] >= 0, cl[l] <= cl[l + 1], cl[l + 1] <= X.shape[0])))
        out.append(fa([nm], lambda k: And(pl[k] >= 0, pl[k] <= pl[k + 1], pl[k + 1] <= pwm.shape[1])))
        out.append(fa([X.shape[0]], lambda t: And(X[t] >= -1, X[t] < pwm.shape[0])))
        if _symbolic_content(X) and O.any_sym(a.pwm.shape[1]):
            k, l, i, j = z3.Ints('qk ql qi qj')
            out.append(z3.ForAll([k, l, i], PS(k, l, i, 0) == 0))
            out.append(z3.ForAll([k, l, i, j], z3.Implies(j >= 0, PS(k, l, i, j + 1) == PS(k, l, i, j) + O.to_z3(self.term(a, k, l, i, j))),
                                 patterns=[PS(k, l, i, j + 1)]))
        # the p-value table of motif k covers the bin of every above-threshold window score
        # (link to C11; checked at run time by the bounded layer)
        def covered(k, l, i):
            s = self.score(a, k, l, i, self.width(a, k))
            idx = self.table_index(a, k, s)
            return Implies(And(0 <= i, i <= self.seqlen(a, l) - self.width(a, k), s > a.score_threshold[k]),
                           And(0 <= idx, idx < a.score_to_pvals.shape[0]))
        if _symbolic_content(X) and not O.any_sym(nm, nc, X.shape[0]):
            for k in range(int(nm)):
                for l in range(int(nc)):
                    for i in range(int(X.shape[0]) + 1):
                        out.append(covered(k, l, i))
        elif _symbolic_content(X):
            k, l, i = z3.Ints('ck cl_ ci')
            out.append(z3.ForAll([k, l, i], z3.Implies(z3.And(0 <= k, k < O.to_z3(nm), 0 <= l, l < O.to_z3(nc)), O.to_z3(covered(k, l, i)))))
        return out

    def hits_spec(self, a, kdone, ldone=None, idone=None, kcur=None, lcur=None):
        """membership / payload after: all motifs < kdone; for motif kcur all sequences < ldone;
        for (kcur, lcur) all windows < idone"""
        nm = a.pwm_lengths.shape[0] - 1
        nc = a.chrom_lengths.shape[0] - 1

        def full(k, l, i):
            w = self.width(a, k)
            return And(0 <= l, l < nc, 0 <= i, i <= self.seqlen(a, l) - w,
                       self.score(a, k, l, i, w) > a.score_threshold[k])

        def member(k, l, i):
            c = And(k < kdone, full(k, l, i))
            if kcur is not None:
                c = Or(c, And(O.eq(k, kcur), l < ldone, full(k, l, i)))
                if lcur is not None:
                    c = Or(c, And(O.eq(k, kcur), O.eq(l, lcur), i < idone, full(k, l, i)))
            return c

        def payload(k, l, i):
            w = self.width(a, k)
            s = self.score(a, k, l, i, w)
            idx = self.table_index(a, k, s)
            pv = a.score_to_pvals[idx]
            e = L.EXP2(O.to_z3(pv)) if O.is_sym(pv) else 2.0 ** pv
            return (i + w, s, e)
        return member, payload

    def result(self, a, cfg):
        nm = a.pwm_lengths.shape[0] - 1
        m, p = self.hits_spec(a, nm)
        r = KeyedLists(nm, 2, m, p)
        if not _symbolic_content(a.X):
            r.box = [a.chrom_lengths.shape[0] - 1, a.X.shape[0] + 1]
        return r

    def repair_concrete(self, cfg, args, kwargs):
        import numpy
        X, cl, pwm, pl, th, bs, sm, tab, tl = args
        f = lambda t, dt: numpy.ascontiguousarray(t.numpy().astype(dt))
        return [f(X, 'int8'), f(cl, 'int64'), f(pwm, 'float64'), f(pl, 'uint64'), f(th, 'float32'), float(bs), f(sm, 'int64'),
                f(tab, 'float64'), f(tl, 'int64')], kwargs

    def wrap_result(self, real):
        hits = [list(h) for h in real]

        def member(k, l, i):
            return any(int(t[0]) == int(l) and int(t[1]) == int(i) for t in hits[int(k)]) if 0 <= int(k) < len(hits) else False

        def payload(k, l, i):
            for t in hits[int(k)] if 0 <= int(k) < len(hits) else []:
                if int(t[0]) == int(l) and int(t[1]) == int(i):
                    return (int(t[2]), float(t[3]), float(t[4]))
            return (0, 0.0, 0.0)
        return KeyedLists(len(hits), 2, member, payload)

    def loops(self):
        from vf.contract import NS

        def A_(fr):
            e = fr.env
            return NS(X=e['X'], chrom_lengths=e['chrom_lengths'], pwm=e['pwm'], pwm_lengths=e['pwm_lengths'],
                      score_threshold=e['score_threshold'], bin_size=e['bin_size'], smallest=e['smallest'],
                      score_to_pvals=e['score_to_pvals'], score_to_pval_lengths=e['score_to_pval_lengths'])

        def h1(fr, it):
            return KeyedLists(it, 2, lambda k, l, i: False, lambda k, l, i: (0, 0.0, 0.0))

        def hk(fr, it):
            a = A_(fr)
            m, p = self.hits_spec(a, it)
            return KeyedLists(a.pwm_lengths.shape[0] - 1, 2, m, p)

        def hl(fr, it):
            a = A_(fr)
            m, p = self.hits_spec(a, fr.env['k'], it, None, kcur=fr.env['k'])
            return KeyedLists(a.pwm_lengths.shape[0] - 1, 2, m, p)

        def hi(fr, it):
            a = A_(fr)
            m, p = self.hits_spec(a, fr.env['k'], fr.env['l'], it, kcur=fr.env['k'], lcur=fr.env['l'])
            return KeyedLists(a.pwm_lengths.shape[0] - 1, 2, m, p)

        def score_inv(E, fr):
            a = A_(fr)
            return [('score-is-partial-sum', O.eq(E.score, self.score(a, E.k, E.l, E.i, E.it)))]
        return {1: defined_loop({'hits': h1}), 2: defined_loop({'hits': hk}), 3: defined_loop({'hits': hl}),
                4: defined_loop({'hits': hi}), 5: LoopSpec(score_inv)}


class LogAddExp2(Contract):
    """fimo.logaddexp2 as seen from _pwm_to_mapping - ASSUMED: returns some extended real (its value
    semantics log2(2^x + 2^y) over extended reals is checked by the bounded layer C11)."""
    qualname = 'tangermeme.tools.fimo.logaddexp2'
    props = ('C11',)
    assumed = True

    def fresh_result(self, a, cfg, fr):
        return O.fresh_real('lae')


def all_init(E, t):
    return E.forall(list(t.shape), lambda *j: t.init_at(*j))


class PwmToMappingInit(Contract):
    """C11 (initialisation): the table returned by _pwm_to_mapping never exposes uninitialised
    memory - every entry of the returned array was written, for every motif length including 1.
    (Index safety of the convolution and the value of the table are NOT covered by this contract:
    bounded layer C11.)"""
    qualname = 'tangermeme.tools.fimo._pwm_to_mapping'
    props = ('C11',)
    check_index = False

    def make_args(self, cfg, A):
        pwm = A.tensor('log_pwm', 2, 'real', lib='np', min_dims=1)
        bs = A.real('bin_size')
        A.assume(bs > 0)
        return [pwm, bs], {}

    def accepts(self, a, cfg):
        return False

    def post(self, a, r, cfg):
        out = [('returns-pair', isinstance(r, tuple) and len(r) == 2 and isinstance(r[1], Tn))]
        if not out[0][1]:
            return out
        t = r[1]
        out.append(('table-fully-initialised', O.forall(t.shape, lambda j: t.init_at(j))))
        return out

    def loops(self):
        none = lambda E, fr: []
        lp = lambda E, fr: [('logpdf-initialised', all_init(E, E.logpdf)), ('old_logpdf-initialised', all_init(E, E.old_logpdf))]
        return {1: LoopSpec(none), 2: LoopSpec(none), 3: LoopSpec(lambda E, fr: [('old_logpdf-initialised', all_init(E, E.old_logpdf))]),
                4: LoopSpec(lp), 5: LoopSpec(lp), 6: LoopSpec(lp), 7: LoopSpec(lp), 8: LoopSpec(lp), 9: LoopSpec(lp)}


from vf.contract import FragmentContract


class ScoreThreshold(FragmentContract):
    """C12 (threshold of one motif, the body of the threshold loop of fimo()): _score_thresholds[i] is the
    score (bin index + smallest[i]) * bin_size of the FIRST bin of the motif's table whose log p-value is
    below log2(threshold) - every lower bin has a log p-value >= it - and +inf exactly when no bin
    qualifies; only entry i of the threshold vector is written."""
    qualname = 'tangermeme.tools.fimo.fimo'
    props = ('C12',)
    loop_ordinal = None
    key = 'tangermeme.tools.fimo.fimo#threshold'
    stmt_block = ('_score_to_pvals_lengths.append(len(_score_to_pvals[i]))', ('until', 'if len(idx) > 0'))

    def scopes(self, cfg):
        return [{'default': 3}, {'default': 1}, {'default': 4}]

    def make_env(self, cfg, A):
        from vf.values import StackList
        M, W = A.dim('M', 1), A.dim('W', 1)
        # the tables of the M motifs (here: equally long; their common length is arbitrary)
        tables = A.tensor('tables', 2, 'real', lib='np', shape=[M, W])
        i = A.int('i', lo=0)
        A.assume(i < M)
        thr = A.tensor('_score_thresholds', 1, 'real', lib='np', shape=[M])
        smallest = A.tensor('_smallest', 1, 'int', lib='np', shape=[M])
        return dict(_score_to_pvals=StackList(M, [tables]), tables=tables, _score_to_pvals_lengths=[0], i=i, log_threshold=A.real('log_threshold'),
                    _score_thresholds=thr, _smallest=smallest, bin_size=A.real('bin_size'))

    def post_env(self, b, a, outcome, cfg):
        out = [('no-exception', not outcome.startswith('raise'))]
        if not out[0][1]:
            return out
        i = b.i
        if hasattr(b._score_to_pvals, 'views'):
            V = b._score_to_pvals.views[0]
            W, tab = V.shape[1], (lambda j: V.elem(i, j))
        else:
            row = b._score_to_pvals[int(i)]          # concrete interpretation: a list of vectors
            W, tab = row.shape[0], (lambda j: row.elem(j))
        thr0, thr = b._score_thresholds, a._score_thresholds
        lt = b.log_threshold
        some = O.exists_box([W], lambda j: tab(j) < lt)
        first = lambda f: And(0 <= f, f < W, tab(f) < lt, O.forall([W], lambda j: Implies(j < f, tab(j) >= lt)))
        f = O.fresh_int('f')
        val = thr.elem(i)
        out.append(('threshold-is-first-qualifying-bin', ite(some, O.exists_box([W], lambda f_: And(first(f_), O.eq(val, (f_ + b._smallest.elem(i)) * b.bin_size))),
                                                            O.eq(val, O.PINF))))
        out.append(('other-entries-untouched', O.forall([thr.shape[0]], lambda m: Implies(O.ne(m, i), O.eq(thr.elem(m), thr0.elem(m))))))
        out.append(('length-recorded', isinstance(a._score_to_pvals_lengths, list) and len(a._score_to_pvals_lengths) == 2))
        return out

    def replay_fragment(self, cfg, st):
        import numpy
        from vf.contract import replay_fragment_generic
        if st.get('tables') is None or st.get('_smallest') is None:
            return []
        tabs = [numpy.array([float(int(round(x)) % 11) - 5.0 for x in r], dtype='float64') for r in st['tables']]
        M = len(tabs)
        env = dict(_score_to_pvals=tabs, _score_to_pvals_lengths=[0], i=int(st['i']) % M, log_threshold=float(int(st.get('log_threshold', 0)) % 7 - 3),
                   _score_thresholds=numpy.full(M, -123.0), _smallest=numpy.array([int(x) % 9 - 4 for x in st['_smallest']], dtype='int64'), bin_size=0.5)
        return replay_fragment_generic(self._world, self, cfg, env)


def register(world):
    world.register(FastHits())
    world.register(LogAddExp2())
    world.register(PwmToMappingInit())
    world.register_fragment(ScoreThreshold())
