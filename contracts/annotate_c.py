"""Contracts of tangermeme.annotate (property C18)."""
import z3
from vf import ops as O
from vf.ops import And, Or, Not, ite, Implies
from vf.tensor import Tn, Unsupported
from vf.contract import Contract, same
from vf.world import LoopSpec, defined_loop
from vf.spec import spec_tensor
from vf.lib import Sum


class CountAnnotations(Contract):
    """C18: entry (e, a) is the number of rows with that example and annotation; dim=0 / dim=1 are
    the column / row sums; a `shape` smaller than the observed maxima is rejected."""
    qualname = 'tangermeme.annotate.count_annotations'
    props = ('C18',)

    def configs(self):
        return [dict(dim=d, shape=s, form=f) for d in ('none', 0, 1) for s in ('none', 'given') for f in ('tensor', 'tuple')]

    def make_args(self, cfg, A):
        from vf.values import DType
        R = A.dim('rows', 1)
        A.assume(R >= 1) if O.is_sym(R) else None
        if cfg['form'] == 'tensor':
            X = A.tensor('X', 2, 'int', shape=[R, 2])
            A.assume(O.forall_hyp([R, 2], lambda r, c: X[r, c] >= 0))
        else:
            x0 = A.tensor('x0', 1, 'int', shape=[R])
            x1 = A.tensor('x1', 1, 'int', shape=[R])
            A.assume(O.forall_hyp([R], lambda r: And(x0[r] >= 0, x1[r] >= 0)))
            X = (x0, x1)
        shape = (A.int('shape0'), A.int('shape1')) if cfg['shape'] == 'given' else None
        dim = None if cfg['dim'] == 'none' else cfg['dim']
        return [X], dict(dtype=DType('int64'), shape=shape, dim=dim)

    def cols(self, a):
        X = a.X
        if isinstance(X, tuple):
            return X[0].shape[0], (lambda r: X[0][r]), (lambda r: X[1][r])
        return X.shape[0], (lambda r: X[r, 0]), (lambda r: X[r, 1])

    def rejects(self, a, cfg):
        if a.shape is None:
            return False
        R, ex, an = self.cols(a)
        return Or(O.exists_box([R], lambda r: ex(r) >= a.shape[0]), O.exists_box([R], lambda r: an(r) >= a.shape[1]))

    def post(self, a, r, cfg):
        R, ex, an = self.cols(a)
        out = [('is-tensor', isinstance(r, Tn))]
        if not isinstance(r, Tn):
            return out
        if a.dim is None:
            out.append(('rank', r.rank == 2))
            if r.rank != 2:
                return out
            if a.shape is not None:
                out.append(('shape', And(O.eq(r.shape[0], a.shape[0]), O.eq(r.shape[1], a.shape[1]))))
            out.append(('counts', O.forall(r.shape, lambda e, c: O.smart_eq(O.to_z3(r[e, c]), O.to_z3(Sum(0, R, lambda q: ite(And(O.eq(ex(q), e), O.eq(an(q), c)), 1, 0))))
                                           if O.is_sym(r[e, c]) else O.eq(r[e, c], Sum(0, R, lambda q: ite(And(O.eq(ex(q), e), O.eq(an(q), c)), 1, 0))))))
        else:
            key = an if a.dim == 0 else ex
            out.append(('rank', r.rank == 1))
            if r.rank != 1:
                return out
            out.append(('counts', O.forall(r.shape, lambda c: O.smart_eq(O.to_z3(r[c]), O.to_z3(Sum(0, R, lambda q: ite(O.eq(key(q), c), 1, 0))))
                                           if O.is_sym(r[c]) else O.eq(r[c], Sum(0, R, lambda q: ite(O.eq(key(q), c), 1, 0))))))
        # every row is counted somewhere: the table is large enough for the observed maxima
        out.append(('covers-observed-indices', O.forall([R], lambda q: And(ex(q) < (r.shape[0] if a.dim != 0 else ex(q) + 1),
                                                                          an(q) < (r.shape[-1] if a.dim != 1 else an(q) + 1)))))
        return out


from vf.contract import FragmentContract


class SpacingPairBody(FragmentContract):
    """C18 (pair body of pairwise_annotations_spacing): for one pair of annotations of one example,
    with gap d between the end of the left one and the start of the right one, entry
    (left, right, d) is incremented (and the mirrored one iff symmetric and the annotations differ)
    when 0 <= d < max_distance, and NOTHING changes otherwise (further apart or overlapping);
    no index of y wraps around."""
    qualname = 'tangermeme.annotate.pairwise_annotations_spacing'
    props = ('C18',)
    loop_ordinal = 5
    key = 'tangermeme.annotate.pairwise_annotations_spacing#pair-body'

    def configs(self):
        return [dict(symmetric=s) for s in (True, False)]

    def make_env(self, cfg, A):
        nA = A.dim('nA', 1)
        D = A.dim('max_distance', 1)
        y = A.tensor('y', 3, 'int', lib='np', shape=[nA, nA, D])
        env = dict(y=y, max_distance=D, symmetric=cfg['symmetric'])
        for nme in ('idx0', 'start0', 'end0', 'idx1', 'start1', 'end1'):
            env[nme] = A.int(nme, lo=0)
        A.assume(env['idx0'] < nA, env['idx1'] < nA, env['start0'] < env['end0'], env['start1'] < env['end1'])
        env['j'] = A.int('j', lo=0)
        env['i'] = A.int('i', lo=0)
        return env

    def replay_fragment(self, cfg, st):
        """the two annotations as a two-row table of one example, real function, spec = this contract"""
        import torch
        from tangermeme.annotate import pairwise_annotations_spacing
        rows = [[0, st['idx0'], st['start0'], st['end0']], [0, st['idx1'], st['start1'], st['end1']]]
        D = st['max_distance']
        nA = max(st['idx0'], st['idx1']) + 1
        X = torch.tensor(rows, dtype=torch.int64)
        try:
            y = pairwise_annotations_spacing(X, max_distance=D, dtype=torch.int64, symmetric=cfg['symmetric'])
        except Exception as e:
            return ['pairwise_annotations_spacing raised %s: %s on rows %s, max_distance=%d' % (type(e).__name__, str(e)[:80], rows, D)]
        exp = torch.zeros(nA, nA, D, dtype=torch.int64)
        left_first = st['start0'] < st['start1']
        (li, le), (ri, rs) = ((st['idx0'], st['end0']), (st['idx1'], st['start1'])) if left_first else ((st['idx1'], st['end1']), (st['idx0'], st['start0']))
        d = rs - le
        if 0 <= d < D:
            exp[li, ri, d] += 1
            if cfg['symmetric'] and li != ri:
                exp[ri, li, d] += 1
        if tuple(y.shape) != tuple(exp.shape) or not torch.equal(y, exp):
            return ['rows %s, max_distance=%d, symmetric=%s: got nonzero entries %s, expected %s' % (
                rows, D, cfg['symmetric'], y.nonzero().tolist(), exp.nonzero().tolist())]
        return []

    def post_env(self, b, a, outcome, cfg):
        y0, y1 = b.y, a.y
        left_first = b.start0 < b.start1
        li, ri = ite(left_first, b.idx0, b.idx1), ite(left_first, b.idx1, b.idx0)
        d = ite(left_first, b.start1 - b.end0, b.start0 - b.end1)
        ok = And(0 <= d, d < b.max_distance)
        sym = cfg['symmetric']

        def exp(p, q, t):
            inc = ite(And(ok, O.eq(p, li), O.eq(q, ri), O.eq(t, d)), 1, 0)
            if sym:
                inc = inc + ite(And(ok, O.ne(li, ri), O.eq(p, ri), O.eq(q, li), O.eq(t, d)), 1, 0)
            return y0[p, q, t] + inc
        return [('no-exception', not outcome.startswith('raise')),
                ('y-updated-exactly', O.forall(y0.shape, lambda p, q, t: O.eq(y1[p, q, t], exp(p, q, t))))]


class PairwiseExamplePairs(FragmentContract):
    """C18 (pair enumeration of pairwise_annotations): for the annotation list of one example (any length m),
    the two nested loops add to y[a, b] exactly the number of pairs of list positions p < q < m with
    (list[p], list[q]) == (a, b) - and, iff symmetric and the two annotations differ, the mirrored pair -
    every unordered pair once, no pair twice, none skipped (including the last element and m in {0, 1})."""
    qualname = 'tangermeme.annotate.pairwise_annotations'
    props = ('C18',)
    key = 'tangermeme.annotate.pairwise_annotations#example-pairs'
    stmt_block = ('for i, idx0 in enumerate(annotations', 1)
    OUTER, INNER = 4, 5

    def configs(self):
        return [dict(symmetric=s) for s in (True, False)]

    def make_env(self, cfg, A):
        from vf.values import StackList
        nA = A.dim('nA', 1)
        m = A.dim('m', 0)
        ann = A.tensor('ann', 1, 'int', shape=[m])
        A.assume(O.forall_hyp([m], lambda p: And(ann[p] >= 0, ann[p] < nA)))
        y = A.tensor('y', 2, 'int', lib='np', shape=[nA, nA])
        return dict(y=y, annotations=StackList(m, [ann]), symmetric=cfg['symmetric'], _ann=ann, _m=m)

    # ---- specification
    @staticmethod
    def inc(env, p, q, a, b):
        ann = env['_ann']
        v = ite(And(O.eq(ann.elem(p), a), O.eq(ann.elem(q), b)), 1, 0)
        if env['symmetric'] is True:
            v = v + ite(And(O.ne(ann.elem(p), ann.elem(q)), O.eq(ann.elem(p), b), O.eq(ann.elem(q), a)), 1, 0)
        return v

    @classmethod
    def row_sum(cls, env, p, hi, *ix):
        """pairs (p, q), p < q < hi"""
        return Sum(p + 1, hi, lambda q: cls.inc(env, p, q, *ix))

    @classmethod
    def pair_sum(cls, env, n, *ix):
        """pairs (p, q) with p < n, p < q < m"""
        return Sum(0, n, lambda p: cls.row_sum(env, p, env['_m'], *ix))

    def loops(self):
        from vf.lib import sum_step_lemmas
        cls = type(self)

        def stepped(E, goal):
            if E.where == 'assume':
                return goal
            g = O.to_z3(goal)
            return Implies(And(*sum_step_lemmas(g)), g)

        def outer(E, fr):
            env = fr.env
            y, y0 = env['y'], E.old.y
            return [('y = entry + pairs (p, q), p < it', E.forall(y.shape, lambda *ix: stepped(E, O.eq(y[ix], y0[ix] + cls.pair_sum(env, E.it, *ix)))))]

        def inner(E, fr):
            env = fr.env
            y, y0 = env['y'], E.old.y
            i = env['i']
            return [('y = entry + pairs (i, q), i < q <= i + it', E.forall(y.shape, lambda *ix: stepped(E, O.eq(y[ix], y0[ix] + cls.row_sum(env, i, i + 1 + E.it, *ix)))))]
        return {self.OUTER: LoopSpec(outer), self.INNER: LoopSpec(inner)}

    def replay_fragment(self, cfg, st):
        """the list as the rows of one example of a table, real whole function, against brute-force pair counting"""
        import torch
        from tangermeme.annotate import pairwise_annotations
        m = int(st.get('_m') or 0)
        ann = [abs(int(v)) % 5 for v in (st.get('_ann') or [])][:m]
        if m < 1 or len(ann) != m:
            return []
        nA = max(ann) + 1
        X = torch.tensor([[0, v] for v in ann], dtype=torch.int64)
        try:
            y = pairwise_annotations(X, symmetric=cfg['symmetric'])
        except Exception as e:
            return ['pairwise_annotations raised %s: %s on one example with annotations %s' % (type(e).__name__, str(e)[:80], ann)]
        exp = torch.zeros(nA, nA, dtype=torch.int64)
        for p in range(m):
            for q in range(p + 1, m):
                exp[ann[p], ann[q]] += 1
                if cfg['symmetric'] and ann[p] != ann[q]:
                    exp[ann[q], ann[p]] += 1
        if tuple(y.shape) != tuple(exp.shape) or not torch.equal(y.long(), exp):
            return ['one example with annotations %s, symmetric=%s: got %s, expected (pairs p<q counted once) %s' % (ann, cfg['symmetric'], y.tolist(), exp.tolist())]
        return []

    def post_env(self, b, a, outcome, cfg):
        env = dict(_ann=b._ann, _m=b._m, symmetric=cfg['symmetric'])
        m = b._m
        n = ite(m >= 1, m - 1, 0) if O.is_sym(m) else max(m - 1, 0)
        y0, y1 = b.y, a.y
        return [('no-exception', not outcome.startswith('raise')),
                ('y[a,b] += number of pairs p<q with (list[p], list[q]) = (a, b) (mirrored iff symmetric and distinct)',
                 O.forall(y0.shape, lambda p, q: O.eq(y1[p, q], y0[p, q] + self.pair_sum(env, n, p, q))))]


class SpacingExamplePairs(PairwiseExamplePairs):
    """C18 (pair enumeration of pairwise_annotations_spacing): for the (annotation, start, end) list of one example
    (any length m) the two nested loops add to y[a, b, d] exactly the number of pairs of list positions p < q < m whose
    left member (smaller start) has annotation a, right member b, and gap (start of right - end of left) d with
    0 <= d < max_distance - mirrored iff symmetric and the annotations differ; every pair once, overlapping or too
    distant pairs contribute nothing."""
    qualname = 'tangermeme.annotate.pairwise_annotations_spacing'
    key = 'tangermeme.annotate.pairwise_annotations_spacing#example-pairs'
    stmt_block = ('for i, (idx0, start0, end0) in enumerate(annotations', 1)

    def make_env(self, cfg, A):
        from vf.values import StackList
        nA = A.dim('nA', 1)
        D = A.dim('max_distance', 1)
        m = A.dim('m', 0)
        ann = A.tensor('ann', 1, 'int', shape=[m])
        st = A.tensor('st', 1, 'int', shape=[m])
        en = A.tensor('en', 1, 'int', shape=[m])
        A.assume(O.forall_hyp([m], lambda p: And(ann[p] >= 0, ann[p] < nA, st[p] >= 0, st[p] < en[p])))
        y = A.tensor('y', 3, 'int', lib='np', shape=[nA, nA, D])
        return dict(y=y, annotations=StackList(m, [ann, st, en], 'tuple'), symmetric=cfg['symmetric'], max_distance=D,
                    _ann=ann, _st=st, _en=en, _m=m)

    @staticmethod
    def inc(env, p, q, a, b, d):
        ann, st, en = env['_ann'], env['_st'], env['_en']
        D = env['max_distance']
        left_first = st.elem(p) < st.elem(q)
        li, ri = ite(left_first, ann.elem(p), ann.elem(q)), ite(left_first, ann.elem(q), ann.elem(p))
        dd = ite(left_first, st.elem(q) - en.elem(p), st.elem(p) - en.elem(q))
        ok = And(0 <= dd, dd < D, O.eq(d, dd))
        v = ite(And(ok, O.eq(a, li), O.eq(b, ri)), 1, 0)
        if env['symmetric'] is True:
            v = v + ite(And(ok, O.ne(li, ri), O.eq(a, ri), O.eq(b, li)), 1, 0)
        return v

    def replay_fragment(self, cfg, st):
        import torch
        from tangermeme.annotate import pairwise_annotations_spacing
        m = int(st.get('_m') or 0)
        cols = [st.get('_ann') or [], st.get('_st') or [], st.get('_en') or []]
        if m < 1 or any(len(c) != m for c in cols):
            return []
        ann = [abs(int(v)) % 4 for v in cols[0]]
        s_ = [abs(int(v)) % 12 for v in cols[1]]
        e_ = [s + 1 + abs(int(e) - int(s0) - 1) % 5 for s, e, s0 in zip(s_, cols[2], cols[1])]
        D = max(1, min(int(st.get('max_distance') or 1), 12))
        nA = max(ann) + 1
        X = torch.tensor([[0, a, s, e] for a, s, e in zip(ann, s_, e_)], dtype=torch.int64)
        try:
            y = pairwise_annotations_spacing(X, max_distance=D, dtype=torch.int64, symmetric=cfg['symmetric'])
        except Exception as e:
            return ['pairwise_annotations_spacing raised %s: %s on rows %s, max_distance=%d' % (type(e).__name__, str(e)[:80], X.tolist(), D)]
        exp = torch.zeros(nA, nA, D, dtype=torch.int64)
        for p in range(m):
            for q in range(p + 1, m):
                lf = s_[p] < s_[q]
                li, ri = (ann[p], ann[q]) if lf else (ann[q], ann[p])
                d = (s_[q] - e_[p]) if lf else (s_[p] - e_[q])
                if 0 <= d < D:
                    exp[li, ri, d] += 1
                    if cfg['symmetric'] and li != ri:
                        exp[ri, li, d] += 1
        if tuple(y.shape) != tuple(exp.shape) or not torch.equal(y, exp):
            return ['rows %s, max_distance=%d, symmetric=%s: got nonzero entries %s, expected (each pair once) %s' % (
                X.tolist(), D, cfg['symmetric'], [(i, int(y[tuple(i)])) for i in y.nonzero().tolist()], [(i, int(exp[tuple(i)])) for i in exp.nonzero().tolist()])]
        return []

    def post_env(self, b, a, outcome, cfg):
        env = dict(_ann=b._ann, _st=b._st, _en=b._en, _m=b._m, symmetric=cfg['symmetric'], max_distance=b.max_distance)
        m = b._m
        n = ite(m >= 1, m - 1, 0) if O.is_sym(m) else max(m - 1, 0)
        y0, y1 = b.y, a.y
        return [('no-exception', not outcome.startswith('raise')),
                ('y[a,b,d] += number of pairs p<q with left annotation a, right annotation b, gap d in [0, max_distance) (mirrored iff symmetric and distinct)',
                 O.forall(y0.shape, lambda p, q, d: O.eq(y1[p, q, d], y0[p, q, d] + self.pair_sum(env, n, p, q, d))))]


def register(world):
    from contracts.utils_c import ValidateInput
    if 'tangermeme.utils._validate_input' not in world.contracts:
        world.register(ValidateInput())
    world.register(CountAnnotations())
    world.register_fragment(SpacingPairBody())
    world.register_fragment(PairwiseExamplePairs())
    world.register_fragment(SpacingExamplePairs())
