"""Contracts of tangermeme.tools.tomtom kernels (properties C13, C14)."""
import z3
from vf import ops as O
from vf.ops import And, Or, Not, ite, Implies
from vf.tensor import Tn, Unsupported
from vf.contract import Contract, same, freeze
from vf.world import LoopSpec, defined_loop
from vf.spec import spec_tensor, _symbolic_content


def entry(name, rank, kind, shape, lib='np'):
    sort = {'int': z3.IntSort(), 'real': z3.RealSort()}[kind]
    f = z3.Function(name, *([z3.IntSort()] * rank), sort)
    return spec_tensor(shape, lambda *i: f(*[O.to_z3(x) for x in i]), kind, lib=lib)


class MergeRcResults(Contract):
    """C14: the two strands are merged as 1-(1-min p)^2, the fields of the higher-scoring strand are
    reported (ties: the reverse strand) and flagged; rows of the second half are unchanged."""
    qualname = 'tangermeme.tools.tomtom._merge_rc_results'
    props = ('C14',)
    modifies = ('results',)

    def make_args(self, cfg, A):
        r = A.tensor('results', 2, 'real', lib='np', shape=[A.dim('results.d0'), 5])
        return [r], {}

    def scopes(self, cfg):
        return [{'results.d0': 4}, {'results.d0': 3}, {'results.d0': 2}]

    def final(self, R, upto=None):
        nt = R.shape[0]
        n = O.floordiv(nt, 2)
        lim = n if upto is None else upto

        def elem(i, c):
            p = O.vmin(R[i, 0], R[i + n, 0])
            merged = 1 - O.mul(1 - p, 1 - p)
            rev = R[i, 1] <= R[i + n, 1]
            new = ite(O.eq(c, 0), merged, ite(O.eq(c, 4), ite(rev, 1, 0), ite(rev, R[i + n, c], R[i, c])))
            return ite(i < lim, new, R[i, c])
        return spec_tensor(R.shape, elem, 'real', lib='np')

    def result(self, a, cfg):
        return None

    def post(self, a, r, cfg):
        return same(a._live['results'], self.final(a.results), 'results-after')

    def loops(self):
        def d(fr, it):
            R = fr.env['results']
            R0 = entry('results', 2, 'real', R.shape)
            return self.final(R0, upto=it)
        return {1: defined_loop({'results': d})}


class PairwiseMax(Contract):
    """C14: z = pmf of the maximum of two independent integer variables with pmfs x, y:
    z[i] = x[i]*Ycdf[i] + y[i]*Xcdf[i] - x[i]*y[i] (Xcdf = prefix sum of x); x[0] == -1 marks 'no
    variable yet' (z = y).  Verified also for the aliasing x is z that the caller uses."""
    qualname = 'tangermeme.tools.tomtom._pairwise_max'
    props = ('C14',)
    modifies = ('z', 'x')

    def configs(self):
        return [dict(alias='none'), dict(alias='xz')]

    def scopes(self, cfg):
        return [{'len': 3, 'n': 3}, {'len': 4, 'n': 2}]

    def make_args(self, cfg, A):
        L = A.dim('len')
        x = A.tensor('x', 1, 'real', lib='np', shape=[L])
        y = A.tensor('y', 1, 'real', lib='np', shape=[L])
        yc = A.tensor('y_csum', 1, 'real', lib='np', shape=[L])
        z = x if cfg['alias'] == 'xz' else A.tensor('z', 1, 'real', lib='np', shape=[L])
        n = A.int('n', lo=0)
        A.assume(n <= L, L >= 1)
        # recursive spec: prefix sums of the entry value of x
        XCS = z3.Function('XCS', z3.IntSort(), z3.RealSort())
        k = z3.Int('xk')
        fx = z3.Function('x', z3.IntSort(), z3.RealSort())
        A.assume(XCS(-1) == 0)
        A.assume(z3.ForAll([k], z3.Implies(k >= 0, XCS(k) == XCS(k - 1) + fx(k)), patterns=[XCS(k)]))
        return [x, y, yc, z, n], {}

    def final(self, a, upto):
        XCS = z3.Function('XCS', z3.IntSort(), z3.RealSort())
        x0, y, yc, z0 = a.x, a.y, a.y_csum, a.z

        def elem(i):
            new = O.mul(x0[i], yc[i]) + O.mul(y[i], XCS(O.to_z3(i))) - O.mul(x0[i], y[i])
            return ite(i < upto, new, z0[i])
        return spec_tensor(z0.shape, elem, 'real', lib='np')

    def result(self, a, cfg):
        return None

    def post(self, a, r, cfg):
        live_z = a._live['z']
        x0, y = a.x, a.y
        tgt = self.final(a, a.n)
        return [('z-after', O.forall(live_z.shape, lambda i: O.eq(live_z[i], ite(O.eq(x0[0], -1), y[i], tgt[i]))))]

    def loops(self):
        from vf.contract import NS

        def zdef(fr, it):
            e = fr.env
            L = e['z'].shape
            a = NS(x=entry('x', 1, 'real', L), y=e['y'], y_csum=e['y_csum'],
                   z=entry('z', 1, 'real', L) if e['z'].cell is not e['x'].cell else entry('x', 1, 'real', L))
            return self.final(a, it)

        def extra(E, fr):
            XCS = z3.Function('XCS', z3.IntSort(), z3.RealSort())
            return [('x_csum-is-prefix-sum', O.eq(E.x_csum, XCS(O.to_z3(E.it - 1))))]
        sp = defined_loop({'z': zdef}, extra=extra)
        return {1: sp}



TSP = z3.Function('TSP', z3.IntSort(), z3.IntSort(), z3.IntSort(), z3.IntSort())   # target i, cell j, rows done k


def as_int(x):
    """results is a float64 array that stores integers in columns 1-3"""
    if O.is_sym(x) and z3.is_real(x):
        return z3.ToInt(x)
    if isinstance(x, float):
        return int(x)
    return x


class PValues(Contract):
    """C13 / C14 (alignment scan of one query against every target): every array access is inside its
    array and every scratch element is written before it is read, WHATEVER the scratch buffers held on
    entry (results and t_sums are havoced, uninitialised) - so the row written for target i is a
    function of (query, targets, parameters) only.  t_sums[j] is the complete-score alignment sum
    nq*offset + sum of aligned integerised similarities (recursive spec TSP); the reported score is the
    maximum over all nt+nq-1 alignments (at least 0), the reported offset / overlap belong to an
    alignment attaining it, and the p-value is B_cdfs[nt, score-1] (1 for score 0)."""
    qualname = 'tangermeme.tools.tomtom._p_values'
    props = ('C13', 'C14')
    modifies = ('results',)

    def make_args(self, cfg, A):
        Tc, Qm = A.dim('gamma.d0', 1), A.dim('gamma.d1', 1)
        gamma = A.tensor('gamma', 2, 'int', lib='np', shape=[Tc, Qm])
        B = A.tensor('B_cdfs', 2, 'real', lib='np')
        rr = A.tensor('rr_inv', 1, 'int', lib='np')
        TL = A.tensor('T_lens', 1, 'int', lib='np')
        # results: a per-thread scratch row block: contents and initialisation unknown on entry
        res = A.tensor('results', 2, 'real', lib='np', shape=[A.dim('results.d0'), 5])
        g = z3.Function('results.init', z3.IntSort(), z3.IntSort(), z3.BoolSort())
        res.cell.init = lambda i, c: g(O.to_z3(i), O.to_z3(c))
        return [gamma, B, rr, TL, A.int('iq'), A.int('nq', lo=1), A.int('offset', lo=0), res], {}

    def scopes(self, cfg):
        return [{'gamma.d0': 2, 'gamma.d1': 2, 'B_cdfs.d0': 3, 'B_cdfs.d1': 6, 'rr_inv.d0': 3, 'T_lens.d0': 2, 'results.d0': 2, 'nq': 2}]

    def toff(self, a, i):
        """start of target i in rr_inv: prefix sum of T_lens (recursive spec TOFF)"""
        TOFF = z3.Function('TOFF', z3.IntSort(), z3.IntSort())
        return TOFF(O.to_z3(i))

    def pre(self, a, cfg):
        gamma, B, rr, TL, nq, off = a.gamma, a.B_cdfs, a.rr_inv, a.T_lens, a.nq, a.offset
        nT = TL.shape[0]
        TOFF = z3.Function('TOFF', z3.IntSort(), z3.IntSort())
        i, j, k = z3.Ints('ti tj tk')
        out = [nq <= gamma.shape[1], O.eq(a.results.shape[0], nT), a.iq >= -1,
               TOFF(0) == 0,
               z3.ForAll([i], z3.Implies(z3.And(0 <= i, i < O.to_z3(nT)), TOFF(i + 1) == TOFF(i) + O.to_z3(TL[i])), patterns=[O.to_z3(TL[i])]),
               TOFF(O.to_z3(nT)) <= O.to_z3(rr.shape[0]),
               # prefix sums of non-negative lengths are monotone (consequence of the recursion; stated)
               z3.ForAll([i], z3.Implies(z3.And(0 <= i, i <= O.to_z3(nT)), z3.And(TOFF(i) >= 0, TOFF(i) <= O.to_z3(rr.shape[0]))))]
        # every target has at least one column and no more columns than the pooled column table
        # (documented assumption on the caller: t_sums is sized by gamma.shape[0], DESIGN 9)
        out.append(O.forall_hyp([nT], lambda t: And(TL[t] >= 1, TL[t] <= gamma.shape[0], TL[t] < B.shape[0])))
        out.append(O.forall_hyp([rr.shape[0]], lambda q: And(rr[q] >= 0, rr[q] < gamma.shape[0])))
        # recursive spec of the alignment sums
        gk = lambda ii, kk, ll: gamma[rr[TOFF(ii) + kk], ll]
        out.append(z3.ForAll([i, j], TSP(i, j, 0) == O.to_z3(O.mul(nq, off))))
        out.append(z3.ForAll([i, j, k], z3.Implies(k >= 0, TSP(i, j, k + 1) == TSP(i, j, k) + O.to_z3(ite(And(0 <= j - k, j - k < nq), gk(i, k, j - k), 0))),
                             patterns=[TSP(i, j, k + 1)]))
        # the null-distribution table covers every attainable alignment sum (established by the caller
        # from n_len = Q_max * (n_score_bins + n_cache); assumed here), and sums fit int16
        out.append(z3.ForAll([i, j, k], z3.Implies(z3.And(0 <= i, i < O.to_z3(nT), k >= 0, k <= O.to_z3(TL[i])),
                                                   z3.And(TSP(i, j, k) >= 0, TSP(i, j, k) <= O.to_z3(B.shape[1]), TSP(i, j, k) <= 32767))))
        return out

    def result(self, a, cfg):
        return None

    def skipped(self, a, i):
        n = O.floordiv(a.T_lens.shape[0], 2)
        return Or(i <= a.iq, And(i >= n, i <= n + a.iq))

    def post(self, a, r, cfg):
        live = a._live['results']
        TL, nq = a.T_lens, a.nq
        nT = TL.shape[0]
        out = [('rows-initialised', O.forall([nT, 4], lambda i, c: live.init_at(i, c)))]

        def row_ok(i):
            nt = TL[i]
            sc = as_int(live[i, 1])
            k = as_int(live[i, 2]) + nq - 1
            att = And(0 <= k, k < nt + nq - 1, O.eq(TSP(O.to_z3(i), O.to_z3(k), O.to_z3(nt)), sc),
                      O.eq(live[i, 3], O.vmin(k + 1, nq) - O.vmax(0, k - nt + 1)), O.eq(live[i, 1], sc))
            j = O.fresh_int('alj')
            is_max = Implies(And(0 <= j, j < nt + nq - 1), TSP(O.to_z3(i), O.to_z3(j), O.to_z3(nt)) <= sc)
            pv = ite(sc > 0, a.B_cdfs[nt, sc - 1], 1)
            return ite(self.skipped(a, i),
                       And(O.eq(live[i, 0], 1), O.eq(sc, 0)),
                       And(is_max, Or(att, And(O.eq(sc, 0), O.eq(live[i, 2], 0), O.eq(live[i, 3], 0))), O.eq(live[i, 0], pv)))
        out.append(('score-is-max-alignment-sum;offset,overlap-attain-it;p-value-from-table', O.forall([nT], row_ok)))
        return out

    def loops(self):
        from vf.contract import NS

        def A_(fr):
            e = fr.env
            return NS(gamma=e['gamma'], B_cdfs=e['B_cdfs'], rr_inv=e['rr_inv'], T_lens=e['T_lens'], iq=e['iq'], nq=e['nq'],
                      offset=e['offset'], results=e['results'])

        def row_spec(a, live, i, upto=None):
            """row i of results after scanning alignments j < upto (None: all)"""
            nt, nq = a.T_lens[i], a.nq
            lim = nt + nq - 1 if upto is None else upto
            sc = as_int(live[i, 1])
            k = as_int(live[i, 2]) + nq - 1
            att = And(0 <= k, k < lim, O.eq(TSP(O.to_z3(i), O.to_z3(k), O.to_z3(nt)), sc),
                      O.eq(live[i, 3], O.vmin(k + 1, nq) - O.vmax(0, k - nt + 1)), O.eq(live[i, 1], sc))
            j = z3.Int(O.fresh_name('alj'))
            is_max = z3.ForAll([j], O.to_z3(Implies(And(0 <= j, j < lim), TSP(O.to_z3(i), j, O.to_z3(nt)) <= sc)))
            pv = ite(sc > 0, a.B_cdfs[nt, sc - 1], 1)
            return And(is_max, Or(att, And(O.eq(sc, 0), O.eq(live[i, 2], 0), O.eq(live[i, 3], 0))), O.eq(live[i, 0], pv), sc >= 0)

        def inv1(E, fr):
            a = A_(fr)
            live = E.results
            it = E.it
            out = [('total_offset-is-prefix-sum', O.eq(E.total_offset, self.toff(a, it))),
                   ('next-target-inside-rr_inv', Implies(it < a.T_lens.shape[0], And(O.eq(self.toff(a, it + 1), self.toff(a, it) + a.T_lens[it]),
                                                                                    self.toff(a, it + 1) <= a.rr_inv.shape[0])))]
            out.append(('rows-done-initialised', E.forall([it, 4], lambda i, c: live.init_at(i, c))))

            def done(i):
                return ite(self.skipped(a, i), And(O.eq(live[i, 0], 1), O.eq(live[i, 1], 0)), row_spec(a, live, i))
            out.append(('rows-done-correct', E.forall([it], done)))
            return out

        def inv2(E, fr):
            a = A_(fr)
            t = E.t_sums
            return [('t_sums-prefix-initialised', E.forall([E.it], lambda j: And(t.init_at(j), O.eq(t[j], O.mul(a.nq, a.offset)))))]

        def inv3(E, fr):
            a = A_(fr)
            t, i, nt = E.t_sums, E.i, E.nt
            return [('t_sums-is-partial-alignment-sum', E.forall([nt + a.nq - 1], lambda j: And(t.init_at(j), O.eq(t[j], TSP(O.to_z3(i), O.to_z3(j), O.to_z3(E.it))))))]

        def inv4(E, fr):
            a = A_(fr)
            t, i, nt, k = E.t_sums, E.i, E.nt, E.k
            gk = lambda ll: a.gamma[E.k_idx, ll]
            return [('t_sums-row-partially-added', E.forall([nt + a.nq - 1], lambda j: And(t.init_at(j), O.eq(
                t[j], TSP(O.to_z3(i), O.to_z3(j), O.to_z3(k)) + ite(And(0 <= j - k, j - k < E.it), gk(j - k), 0)))))]

        def inv5(E, fr):
            a = A_(fr)
            live, i = E.results, E.i
            old = E.old.results
            return [('row-initialised', And(*[live.init_at(i, c) for c in range(4)])),
                    ('row-is-best-so-far', row_spec(a, live, i, upto=E.it)),
                    # frame: the scan of target i touches row i only
                    ('other-rows-untouched', E.forall([live.shape[0], 5], lambda r, c: Implies(O.ne(r, i), And(
                        O.eq(live[r, c], old[r, c]), O.Iff(live.init_at(r, c), old.init_at(r, c))))))]
        return {1: LoopSpec(inv1), 2: LoopSpec(inv2), 3: LoopSpec(inv3), 4: LoopSpec(inv4), 5: LoopSpec(inv5)}


from vf.contract import FragmentContract


class NearestTargets(FragmentContract):
    """C13 / C14 (n_nearest selection of _tomtom; the three statements of the else branch): row k of
    results[i] is the scratch row of target t_k = results[i, k, 5] (all five fields), the t_k are distinct
    valid targets, their p-values are non-decreasing in k, and every target that is not selected has a
    p-value >= that of every selected one - i.e. the n_nearest smallest, in order; rows of other queries
    are untouched."""
    qualname = 'tangermeme.tools.tomtom._tomtom'
    props = ('C13', 'C14')
    stmt_block = ('idxs = numpy.argsort(_results[pid, :n_in_targets, 0])[:n_nearest]', ('until', 'results[i, :, 5] = idxs'))
    key = 'tangermeme.tools.tomtom._tomtom#nearest'

    def scopes(self, cfg):
        return [{'default': 3, 'n_nearest': 2}, {'default': 2, 'n_nearest': 1}, {'default': 4, 'n_nearest': 4, 'T': 4}]

    def make_env(self, cfg, A):
        n, T, Q = A.dim('n', 1), A.dim('T', 1), A.dim('Q', 1)
        nn = A.int('n_nearest', lo=1)
        nin = A.int('n_in_targets', lo=1)
        A.assume(nin <= T, nn <= nin)
        _results = A.tensor('_results', 3, 'real', lib='np', shape=[n, T, 5])
        results = A.tensor('results', 3, 'real', lib='np', shape=[Q, nn, 6])
        pid, i = A.int('pid', lo=0), A.int('i', lo=0)
        A.assume(pid < n, i < Q)
        return dict(_results=_results, results=results, pid=pid, i=i, n_nearest=nn, n_in_targets=nin)

    def post_env(self, b, a, outcome, cfg):
        out = [('no-exception', not outcome.startswith('raise'))]
        if not out[0][1]:
            return out
        S, R0, R = b._results, b.results, a.results
        nn, nin, pid, i = b.n_nearest, b.n_in_targets, b.pid, b.i
        tk = lambda k: R.elem(i, k, 5)
        is_t = lambda k, t: O.eq(tk(k), t)
        out.append(('selected-targets-valid', O.forall([nn], lambda k: O.exists_box([nin], lambda t: is_t(k, t)))))
        out.append(('selected-targets-distinct', O.forall([nn, nn], lambda k, k2: Implies(O.ne(k, k2), O.ne(tk(k), tk(k2))))))
        out.append(('fields-are-those-of-the-selected-target', O.forall([nn, nin, 5], lambda k, t, c: Implies(is_t(k, t), O.eq(R.elem(i, k, c), S.elem(pid, t, c))))))
        out.append(('p-values-non-decreasing', O.forall([nn, nn], lambda k, k2: Implies(k <= k2, R.elem(i, k, 0) <= R.elem(i, k2, 0)))))
        gs = getattr(getattr(self, '_ctx', None), 'ghost', {}).get('last_argsort') if O.any_sym(nn, nin) else None

        def not_nearer(t, k):
            goal = Or(O.exists_box([nn], lambda k2: is_t(k2, t)), S.elem(pid, t, 0) >= R.elem(i, k, 0))
            if gs is not None:
                # the instance of the argsort axiom at t (rank of target t in the sorted order): already a hypothesis,
                # named here so that the solver has the term R(t) to instantiate the other axioms with
                Pf, Rf, N = gs['P'], gs['R'], O.to_z3(gs['N'])
                tz = O.to_z3(t)
                inst = z3.Implies(z3.And(0 <= tz, tz < N), z3.And(0 <= Rf(tz), Rf(tz) < N, Pf(Rf(tz)) == tz))
                return Implies(inst, goal)
            return goal
        out.append(('unselected-targets-are-not-nearer', O.forall([nin, nn], not_nearer)))
        out.append(('other-queries-untouched', O.forall([R.shape[0], nn, 6], lambda q, k, c: Implies(O.ne(q, i), O.eq(R.elem(q, k, c), R0.elem(q, k, c))))))
        return out

    def replay_fragment(self, cfg, st):
        import numpy
        from vf.contract import replay_fragment_generic
        if st.get('_results') is None or st.get('results') is None:
            return []
        S = numpy.array(st['_results'], dtype='float64')
        S = numpy.round(S) % 5          # few distinct values: ties are exercised
        R = numpy.full(numpy.array(st['results']).shape, -7.0)
        env = dict(_results=S, results=R, pid=int(st['pid']), i=int(st['i']), n_nearest=int(st['n_nearest']), n_in_targets=int(st['n_in_targets']))
        return replay_fragment_generic(self._world, self, cfg, env)


def register(world):
    world.register(MergeRcResults())
    world.register(PairwiseMax())
    world.register(PValues())
    world.register_fragment(NearestTargets())
