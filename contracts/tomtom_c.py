"""Contracts of tangermeme.tools.tomtom kernels (properties C13, C14)."""
import z3
from vf import ops as O
from vf.ops import And, Or, Not, ite, Implies
from vf.tensor import Tn, Unsupported
from vf.contract import Contract, same, freeze
from vf.world import LoopSpec, defined_loop
from vf.spec import spec_tensor, _symbolic_content


def entry(name, rank, kind, shape, lib='np'):
    sort = {'int': z3.IntSort(), 'real': z3.RealSort()}[kind]
    f = z3.Function(name, *([z3.IntSort()] * rank), sort)
    return spec_tensor(shape, lambda *i: f(*[O.to_z3(x) for x in i]), kind, lib=lib)


class MergeRcResults(Contract):
    """C14: the two strands are merged as 1-(1-min p)^2, the fields of the higher-scoring strand are
    reported (ties: the reverse strand) and flagged; rows of the second half are unchanged."""
    qualname = 'tangermeme.tools.tomtom._merge_rc_results'
    props = ('C14',)
    modifies = ('results',)

    def make_args(self, cfg, A):
        r = A.tensor('results', 2, 'real', lib='np', shape=[A.dim('results.d0'), 5])
        return [r], {}

    def scopes(self, cfg):
        return [{'results.d0': 4}, {'results.d0': 3}, {'results.d0': 2}]

    def final(self, R, upto=None):
        nt = R.shape[0]
        n = O.floordiv(nt, 2)
        lim = n if upto is None else upto

        def elem(i, c):
            p = O.vmin(R[i, 0], R[i + n, 0])
            merged = 1 - O.mul(1 - p, 1 - p)
            rev = R[i, 1] <= R[i + n, 1]
            new = ite(O.eq(c, 0), merged, ite(O.eq(c, 4), ite(rev, 1, 0), ite(rev, R[i + n, c], R[i, c])))
            return ite(i < lim, new, R[i, c])
        return spec_tensor(R.shape, elem, 'real', lib='np')

    def result(self, a, cfg):
        return None

    def post(self, a, r, cfg):
        return same(a._live['results'], self.final(a.results), 'results-after')

    def loops(self):
        def d(fr, it):
            R = fr.env['results']
            R0 = entry('results', 2, 'real', R.shape)
            return self.final(R0, upto=it)
        return {1: defined_loop({'results': d})}


class PairwiseMax(Contract):
    """C14: z = pmf of the maximum of two independent integer variables with pmfs x, y:
    z[i] = x[i]*Ycdf[i] + y[i]*Xcdf[i] - x[i]*y[i] (Xcdf = prefix sum of x); x[0] == -1 marks 'no
    variable yet' (z = y).  Verified also for the aliasing x is z that the caller uses."""
    qualname = 'tangermeme.tools.tomtom._pairwise_max'
    props = ('C14',)
    modifies = ('z', 'x')

    def configs(self):
        return [dict(alias='none'), dict(alias='xz')]

    def scopes(self, cfg):
        return [{'len': 3, 'n': 3}, {'len': 4, 'n': 2}]

    def make_args(self, cfg, A):
        L = A.dim('len')
        x = A.tensor('x', 1, 'real', lib='np', shape=[L])
        y = A.tensor('y', 1, 'real', lib='np', shape=[L])
        yc = A.tensor('y_csum', 1, 'real', lib='np', shape=[L])
        z = x if cfg['alias'] == 'xz' else A.tensor('z', 1, 'real', lib='np', shape=[L])
        n = A.int('n', lo=0)
        A.assume(n <= L, L >= 1)
        # recursive spec: prefix sums of the entry value of x
        XCS = z3.Function('XCS', z3.IntSort(), z3.RealSort())
        k = z3.Int('xk')
        fx = z3.Function('x', z3.IntSort(), z3.RealSort())
        A.assume(XCS(-1) == 0)
        A.assume(z3.ForAll([k], z3.Implies(k >= 0, XCS(k) == XCS(k - 1) + fx(k)), patterns=[XCS(k)]))
        return [x, y, yc, z, n], {}

    def final(self, a, upto):
        XCS = z3.Function('XCS', z3.IntSort(), z3.RealSort())
        x0, y, yc, z0 = a.x, a.y, a.y_csum, a.z

        def elem(i):
            new = O.mul(x0[i], yc[i]) + O.mul(y[i], XCS(O.to_z3(i))) - O.mul(x0[i], y[i])
            return ite(i < upto, new, z0[i])
        return spec_tensor(z0.shape, elem, 'real', lib='np')

    def result(self, a, cfg):
        return None

    def post(self, a, r, cfg):
        live_z = a._live['z']
        x0, y = a.x, a.y
        tgt = self.final(a, a.n)
        return [('z-after', O.forall(live_z.shape, lambda i: O.eq(live_z[i], ite(O.eq(x0[0], -1), y[i], tgt[i]))))]

    def loops(self):
        from vf.contract import NS

        def zdef(fr, it):
            e = fr.env
            L = e['z'].shape
            a = NS(x=entry('x', 1, 'real', L), y=e['y'], y_csum=e['y_csum'],
                   z=entry('z', 1, 'real', L) if e['z'].cell is not e['x'].cell else entry('x', 1, 'real', L))
            return self.final(a, it)

        def extra(E, fr):
            XCS = z3.Function('XCS', z3.IntSort(), z3.RealSort())
            return [('x_csum-is-prefix-sum', O.eq(E.x_csum, XCS(O.to_z3(E.it - 1))))]
        sp = defined_loop({'z': zdef}, extra=extra)
        return {1: sp}


def register(world):
    world.register(MergeRcResults())
    world.register(PairwiseMax())
