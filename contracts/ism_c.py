"""Contracts of tangermeme.ism (property C09)."""
import z3
from vf import ops as O
from vf.ops import And, Or, Not, ite, Implies
from vf.tensor import Tn, Unsupported
from vf.values import SStr, Opaque, CatList, StackList
from vf.contract import Contract, same
from vf.world import LoopSpec, RowWise, defined_loop
from vf.spec import spec_tensor
from vf.lib import Sum
from contracts.predict_c import make_model, OUTS


def norm_end(end, L):
    return ite(end >= 0, end, L + 1 + end)


def mutant_rows(X, start, W):
    """(A*W, A, L): row c*W+q = X with position start+q set to character c (character-major)"""
    A, L = X.shape[0], X.shape[1]
    return spec_tensor([O.mul(A, W), A, L],
                       lambda i, c, p: ite(O.eq(p, start + O.mod(i, W)), ite(O.eq(c, O.floordiv(i, W)), 1, 0), X[c, p]))


class EditDistanceOne(Contract):
    """C09: row c*W + q of the result is X with position start+q set to character c."""
    qualname = 'tangermeme.ism._edit_distance_one'
    props = ('C09',)

    def make_args(self, cfg, A):
        X = A.tensor('X', 2, 'int', min_dims=1)
        return [X, A.int('start'), A.int('end')], {}

    def window(self, a):
        L = a.X.shape[1]
        e = norm_end(a.end, L)
        return a.start, e

    def pre(self, a, cfg):
        s, e = self.window(a)
        return [0 <= s, s < e, e <= a.X.shape[1]]

    def result(self, a, cfg):
        s, e = self.window(a)
        return mutant_rows(a.X, s, e - s)

    def loops(self):
        def X_def(fr, it):
            env = fr.env
            X, start, end = env['X'], env['start'], env['end']
            W = end - start
            full = mutant_rows(X, start, W)
            return spec_tensor(full.shape, lambda i, c, p: ite(i < it, full[i, c, p], X[c, p]))
        return {1: defined_loop({'X_': X_def})}


def mutant(Xn, c0, p0):
    """example Xn (A, L) with position p0 set to character c0"""
    return spec_tensor(list(Xn.shape), lambda c, p: ite(O.eq(p, p0), ite(O.eq(c, c0), 1, 0), Xn[c, p]))


def row_of(t, n):
    return spec_tensor(list(t.shape[1:]), lambda *i: t.elem(n, *i), t.kind)


class SaturationMutagenesis(Contract):
    """C09 (raw outputs): y0 = model on the original sequences; y_hat[n, c, p-start] = model on
    sequence n with position p set to character c, for every p in [start, end) and every c, for
    single- and multi-output models, any batch size, extra arguments replicated for their example."""
    qualname = 'tangermeme.ism.saturation_mutagenesis'
    props = ('C09',)

    def configs(self):
        return ([dict(out=o, n_args=n, end=e) for o in ('tensor', 'tuple2') for n in ('none', 1) for e in ('nonneg', 'neg')] +
                [dict(out='tensor', n_args='none', end='nonneg', attr=m) for m in ('masked', 'hypothetical')])

    def make_args(self, cfg, A):
        na = 0 if cfg['n_args'] == 'none' else cfg['n_args']
        model = make_model('M', cfg['out'], na, A, require=False)
        X = A.tensor('X', 3, 'int', min_dims=1)
        args = None if cfg['n_args'] == 'none' else tuple(A.tensor('arg%d' % i, 2, 'real') for i in range(na))
        end = A.int('end')
        A.assume(end >= 0 if cfg['end'] == 'nonneg' else end < 0)
        kw = dict(args=args, start=A.int('start'), end=end, batch_size=A.int('batch_size', lo=1), raw_outputs=True, device='cpu')
        if cfg.get('attr'):
            rw = model.attrs['rowwise']
            t = A.int('target')
            A.assume(t >= 0, t < rw.trailing[0][0])
            kw.update(raw_outputs=False, hypothetical=cfg['attr'] == 'hypothetical', target=t)
        return [model, X], kw

    def window(self, a):
        return a.start, norm_end(a.end, a.X.shape[2])

    def pre(self, a, cfg):
        s, e = self.window(a)
        return [0 <= s, s < e, e <= a.X.shape[2]]

    def rejects(self, a, cfg):
        if a.args is None:
            return False
        return Or(*[O.ne(t.shape[0], a.X.shape[0]) for t in a.args])

    def result(self, a, cfg):
        X, args = a.X, list(a.args or ())
        rw = a.model.attrs['rowwise']
        s, e = self.window(a)
        W = e - s
        N, A_ = X.shape[0], X.shape[1]
        y0s = rw.apply_rows([X] + args)
        y0 = y0s[0] if rw.k is None else list(y0s)
        outs = []
        for o in range(1 if rw.k is None else rw.k):
            outs.append(spec_tensor([N, A_, W] + list(rw.trailing[o]),
                                    lambda n, c, q, *t, o=o: rw.at(o, [mutant(row_of(X, n), c, s + q)] + [row_of(g, n) for g in args], t), 'real'))
        y_hat = outs[0] if rw.k is None else list(outs)
        if cfg.get('attr'):
            # the documented function of (y0, y_hat): centred difference at the target, masked by the
            # observed character unless hypothetical
            attr = AttributionScore.spec(y0, y_hat, a.target)
            if cfg['attr'] == 'hypothetical':
                return attr
            return spec_tensor([N, A_, W], lambda n, c, q: X.elem(n, c, s + q) * attr.elem(n, c, q), 'real')
        return (y0, y_hat)

    def loops(self):
        def per_example(fr, n):
            """predict's specification on the mutants of example n: list over outputs of (A*W, trailing)"""
            env = fr.env
            X, args, model = env['X'], list(env['args'] or ()), env['model']
            start = env['start']
            end = norm_end(env['end'], X.shape[2]) if 'end' in env else None
            rw = model.attrs['rowwise']
            W = end - start
            rows = mutant_rows(row_of(X, n), start, W)
            reps = [spec_tensor([rows.shape[0]] + list(g.shape[1:]), lambda i, *q, g=g: g.elem(n, *q), g.kind) for g in args]
            return rw, rw.apply_rows([rows] + reps)

        def y_hat_def(fr, it):
            env = fr.env
            X = env['X']
            rw, outs0 = per_example(fr, 0)
            views = []
            for o in range(len(outs0)):
                K = outs0[o].shape[0]
                views.append(spec_tensor([it, K] + list(rw.trailing[o]),
                                         lambda n, i, *t, o=o: per_example(fr, n)[1][o].elem(i, *t), 'real'))
            return StackList(it, views, None if rw.k is None else 'list')

        def y_hat__shape(fr, it):
            # only y_hat_.shape[1:] is used after the loop: fresh content, the shape of predict's result
            rw, outs = per_example(fr, 0)
            ts = [Tn.param(O.fresh_name('y_hat_'), t.rank, 'real', shape=list(t.shape)) for t in outs]
            return ts[0] if rw.k is None else list(ts)

        return {1: defined_loop({'y_hat': y_hat_def}, shapes={'y_hat_': y_hat__shape})}


class AttributionScore(Contract):
    """C09 (attribution): for an integer target t, attr[n, c, q] = d[n, c, q] - mean_c' d[n, c', q] with
    d = y_hat[n, c, q, t] - y0[n, t], averaged over any further trailing output dimensions; the inputs are
    not written."""
    qualname = 'tangermeme.ism._attribution_score'
    props = ('C09',)

    def configs(self):
        return [dict(rank=4), dict(rank=5), dict(rank=4, target='slice')]

    def make_args(self, cfg, A):
        N, Ad, W, T = A.dim('N', 1), A.dim('A', 1), A.dim('W', 1), A.dim('T', 1)
        extra = [A.dim('U', 1)] if cfg['rank'] == 5 else []
        y0 = A.tensor('y0', 2 + len(extra), 'real', shape=[N, T] + extra)
        y_hat = A.tensor('y_hat', 4 + len(extra), 'real', shape=[N, Ad, W, T] + extra)
        if cfg.get('target') == 'slice':
            # a slice of outputs [lo, hi): the score is the mean over the selected outputs
            lo, hi = A.int('lo'), A.int('hi')
            A.assume(0 <= lo, lo < hi, hi <= T)
            return [y0, y_hat, slice(lo, hi)], {}
        t = A.int('target')
        A.assume(t >= 0, t < T)
        return [y0, y_hat, t], {}

    @staticmethod
    def spec(y0, y_hat, t):
        Ad = y_hat.shape[1]
        extra = list(y_hat.shape[4:])

        def d(n, c, q, *u):
            return y_hat.elem(n, c, q, t, *u) - y0.elem(n, t, *u)

        def centred(n, c, q, *u):
            return d(n, c, q, *u) - O.truediv(Sum(0, Ad, lambda c2: d(n, c2, q, *u), 'real'), Ad)

        def elem(n, c, q):
            if not extra:
                return centred(n, c, q)
            return O.truediv(Sum(0, extra[0], lambda u: centred(n, c, q, u), 'real'), extra[0])
        return spec_tensor(list(y_hat.shape[:3]), elem, 'real')

    def result(self, a, cfg):
        if isinstance(a.target, slice):
            y0, y_hat = a.y0, a.y_hat
            lo, hi = a.target.start, a.target.stop
            Ad = y_hat.shape[1]
            d = lambda n, c, q, t: y_hat.elem(n, c, q, t) - y0.elem(n, t)
            centred = lambda n, c, q, t: d(n, c, q, t) - O.truediv(Sum(0, Ad, lambda c2: d(n, c2, q, t), 'real'), Ad)
            return spec_tensor(list(y_hat.shape[:3]), lambda n, c, q: O.truediv(Sum(0, hi - lo, lambda u: centred(n, c, q, lo + u), 'real'), hi - lo), 'real')
        return self.spec(a.y0, a.y_hat, a.target)


def register(world):
    world.register(EditDistanceOne())
    world.register(AttributionScore())
    world.register(SaturationMutagenesis())
