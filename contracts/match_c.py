"""Contracts of tangermeme.match (property C17)."""
import z3
from vf import ops as O
from vf.ops import And, Or, Not, ite, Implies
from vf.tensor import Tn, Unsupported
from vf.contract import Contract, FragmentContract, same
from vf.world import LoopSpec
from vf.spec import spec_tensor


_CONCRETE = {}


def entry(name, n):
    if not O.is_sym(n) and name in _CONCRETE:
        arr = _CONCRETE[name]
        return Tn.of_real(arr, name)
    f = z3.Function(name, z3.IntSort(), z3.IntSort())
    return spec_tensor([n], lambda k: f(O.to_z3(k)), 'int', lib='np')


class BinMatching(FragmentContract):
    """C17 (exact-bin matching then nearest-bin spill, the statements between the two count arrays and
    the extraction of loci, for ANY non-negative per-bin counts): every background tile is either
    still available or matched (conservation), every GC bin receives at least min(input count,
    eligible background count) and at most its eligible background count, input loci stay unmatched
    only when the eligible background is exhausted (every bin, including bin 0)."""
    qualname = 'tangermeme.match.extract_matching_loci'
    props = ('C17',)
    stmt_range = ('matched_loci_bin_count = numpy.minimum', 'matched_loci = {')
    key = 'tangermeme.match.extract_matching_loci#bin-matching'

    def make_env(self, cfg, A):
        n = A.dim('nbins', 1)
        bg = A.tensor('bg_bin_count', 1, 'int', lib='np', shape=[n])
        lc = A.tensor('loci_bin_count', 1, 'int', lib='np', shape=[n])
        A.assume(O.forall_hyp([n], lambda k: And(bg[k] >= 0, lc[k] >= 0)))
        if O.is_sym(n):
            A.assume(n >= 1)
        return dict(bg_bin_count=bg, loci_bin_count=lc, verbose=False, gc_bin_width=A.real('gc_bin_width'),
                    orig_bg_bin_count=entry('bg_bin_count', n), orig_loci_bin_count=entry('loci_bin_count', n))

    def scopes(self, cfg):
        return [{'nbins': 2}, {'nbins': 3}]

    @staticmethod
    def core(E_forall, n, bg, lc, mt):
        bg0, lc0 = entry('bg_bin_count', n), entry('loci_bin_count', n)
        return [('non-negative', E_forall([n], lambda k: And(bg[k] >= 0, lc[k] >= 0, mt[k] >= 0))),
                ('conservation', E_forall([n], lambda k: O.eq(bg[k] + mt[k], bg0[k]))),
                ('at-least-exact-bin-match', E_forall([n], lambda k: mt[k] >= O.vmin(bg0[k], lc0[k]))),
                ('unmatched-never-grows', E_forall([n], lambda k: lc[k] <= lc0[k]))]

    def post_env(self, b, a, outcome, cfg):
        n = b.bg_bin_count.shape[0]
        bg, lc, mt = a.bg_bin_count, a.loci_bin_count, a.matched_loci_bin_count
        out = [('no-exception', not outcome.startswith('raise'))]
        if not out[0][1]:
            return out
        out += self.core(O.forall, n, bg, lc, mt)
        bg0 = entry('bg_bin_count', n)
        out.append(('at-most-eligible-background', O.forall([n], lambda k: mt[k] <= bg0[k])))
        out.append(('unmatched-only-when-background-exhausted', O.forall([n, n], lambda i, idx: Implies(lc[i] > 0, O.eq(bg[idx], 0)))))
        return out

    def loops(self):
        def arrays(E):
            return E.bg_bin_count, E.loci_bin_count, E.matched_loci_bin_count

        def outer(E, fr):
            bg, lc, mt = arrays(E)
            n = bg.shape[0]
            out = self.core(E.forall, n, bg, lc, mt)
            # bins already processed: i' in (n-1-it, n-1]
            out.append(('processed-bins-exhausted', E.forall([n, n], lambda i, idx: Implies(And(i > n - 1 - E.it, lc[i] > 0), O.eq(bg[idx], 0)))))
            return out

        def inner(E, fr):
            bg, lc, mt = arrays(E)
            n = bg.shape[0]
            i = E.i
            out = self.core(E.forall, n, bg, lc, mt)
            out.append(('earlier-bins-exhausted', E.forall([n, n], lambda i2, idx: Implies(And(i2 > i, lc[i2] > 0), O.eq(bg[idx], 0)))))
            # every bin within distance < it of bin i has been offered to bin i
            out.append(('near-bins-exhausted-or-done', E.forall([n], lambda idx: Implies(And(idx - i < E.it, i - idx < E.it, lc[i] > 0), O.eq(bg[idx], 0)))))
            return out

        def inner_break(E, fr):
            bg, lc, mt = arrays(E)
            n = bg.shape[0]
            out = self.core(E.forall, n, bg, lc, mt)
            out.append(('earlier-bins-exhausted', E.forall([n, n], lambda i2, idx: Implies(And(i2 > E.i, lc[i2] > 0), O.eq(bg[idx], 0)))))
            out.append(('bin-fully-matched', O.eq(lc[E.i], 0)))
            return out
        return {8: LoopSpec(outer), 9: LoopSpec(inner, on_break=inner_break)}

    def replay_fragment(self, cfg, st):
        import numpy
        from vf.contract import replay_fragment_generic
        if st.get('bg_bin_count') is None or st.get('loci_bin_count') is None:
            return []
        bg = numpy.array(st['bg_bin_count'], dtype=int)
        lc = numpy.array(st['loci_bin_count'], dtype=int)
        env = dict(bg_bin_count=bg, loci_bin_count=lc, verbose=False, gc_bin_width=0.02,
                   orig_bg_bin_count=bg.copy(), orig_loci_bin_count=lc.copy())
        _CONCRETE['bg_bin_count'], _CONCRETE['loci_bin_count'] = bg.copy(), lc.copy()
        try:
            return replay_fragment_generic(self._world, self, cfg, env)
        finally:
            _CONCRETE.clear()


class SignalWindow(FragmentContract):
    """C17 (signal filter of _extract_and_filter_chrom): after the four statements that tile the bigwig
    track, values[t] is the sum of the track over the centred out_window of tile t, i.e. over positions
    t*in_window + [left_flank, in_window - right_flank) - for every window pair 0 < out_window <= in_window,
    including in_window == out_window (right_flank == 0) and odd differences; only complete tiles are kept."""
    qualname = 'tangermeme.match._extract_and_filter_chrom'
    props = ('C17',)
    stmt_block = (('after', 'with pyBigWig.open('), ('before', 'idxs = idxs & (values <= signal_threshold)'))
    key = 'tangermeme.match._extract_and_filter_chrom#signal-window'

    def scopes(self, cfg):
        return [{'V': 7, 'in_window': 3, 'out_window': 3}, {'V': 8, 'in_window': 4, 'out_window': 1}, {'V': 6, 'in_window': 2, 'out_window': 1},
                {'V': 5, 'in_window': 5, 'out_window': 4}]

    def make_env(self, cfg, A):
        V = A.dim('V', 0)
        inw = A.int('in_window', lo=1)
        outw = A.int('out_window', lo=1)
        A.assume(outw <= inw)
        values = A.tensor('values', 1, 'real', lib='np', shape=[V])
        # as computed by the two preceding statements of the function
        left = O.floordiv(inw - outw, 2)
        right = O.floordiv(inw - outw + 1, 2)
        return dict(values=values, in_window=inw, out_window=outw, left_flank=left, right_flank=right)

    def replay_fragment(self, cfg, st):
        import numpy
        from vf.contract import replay_fragment_generic
        if st.get('values') is None:
            return []
        inw, outw = int(st['in_window']), int(st['out_window'])
        # integer-valued track: sums are exact in floating point
        vals = numpy.array([float(int(round(x)) % 97) for x in st['values']], dtype='float64')
        env = dict(values=vals, in_window=inw, out_window=outw, left_flank=(inw - outw) // 2, right_flank=(inw - outw + 1) // 2)
        return replay_fragment_generic(self._world, self, cfg, env)

    def post_env(self, b, a, outcome, cfg):
        from vf.lib import Sum
        out = [('no-exception', not outcome.startswith('raise'))]
        v = a.values
        if not out[0][1] or not isinstance(v, Tn) or v.rank != 1:
            return out + [('values-is-vector', False)]
        inw, left, right = b.in_window, b.left_flank, b.right_flank
        T = O.floordiv(b.values.shape[0], inw)
        out.append(('one-value-per-complete-tile', O.eq(v.shape[0], T)))
        from vf.contract import num_eq
        out.append(('sum-over-the-centred-out-window', O.forall([T], lambda t: num_eq(
            v.elem(t), Sum(0, inw - right - left, lambda k: b.values.elem(O.mul(t, inw) + left + k), 'real')))))
        return out


def register(world):
    world.register_fragment(BinMatching())
    world.register_fragment(SignalWindow())
