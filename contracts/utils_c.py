"""Contracts of tangermeme.utils helpers as seen from call sites."""
import z3
from vf import ops as O
from vf.ops import And, Or, Not, ite, Implies
from vf.tensor import Tn, Unsupported
from vf.values import SStr, Opaque, SymRaise, DType
from vf.contract import Contract, NS
from vf.spec import onehot_witness, onehot_from_idx, spec_tensor


class ValidateInput(Contract):
    """utils._validate_input — ASSUMED at call sites (its body uses torch.unique / reductions whose
    deductive treatment is out of reach); conformance of this contract with the real function is
    checked exhaustively on small tensors by the bounded layer (bounded/C01.py), never counted as
    proved.  Contract: raises iff X is not a tensor, its shape disagrees with `shape` (-1 = any), or
    (ohe) X is not a one-hot encoding along dim 1 with both values 0 and 1 present."""
    qualname = 'tangermeme.utils._validate_input'
    props = ('C01',)
    assumed = True

    def rejects(self, a, cfg):
        X = a.X
        if not isinstance(X, Tn) or X.lib != 'torch':
            return True
        conds = []
        shape = a.get('shape')
        if shape is not None:
            if len(shape) != X.rank:
                return True
            for s, d in zip(shape, X.shape):
                ss = O.simp(s)
                if isinstance(ss, int) and ss == -1:
                    continue
                conds.append(And(O.ne(s, -1), O.ne(s, d)))
        if a.get('dtype') is not None:
            raise Unsupported("_validate_input(dtype=...) not modelled")
        if a.get('min_value') is not None:
            conds.append(O.exists_box(X.shape, lambda *i: X.elem(*i) < a.min_value))
        if a.get('max_value') is not None:
            conds.append(O.exists_box(X.shape, lambda *i: X.elem(*i) > a.max_value))
        if a.get('ohe'):
            if X.rank < 2:
                return True
            w = onehot_witness(X, 1)
            if w is None:
                raise Unsupported("_validate_input: cannot decide one-hotness of %r" % (X,))
            rest_dims = [d for q, d in enumerate(X.shape) if q != 1]
            A = X.shape[1]
            if a.get('allow_N'):
                raise Unsupported("_validate_input(allow_N=True) not modelled")
            conds.append(O.exists_box(rest_dims, lambda *sk: Or(w(*sk) < 0, w(*sk) >= A)))
            # torch.unique(X) must be exactly {0, 1}
            conds.append(O.eq(X.numel(), 0) if not O.any_sym(*X.shape) else Or(*[d <= 0 for d in X.shape]))
            conds.append(O.eq(A, 1))
        return Or(*conds) if conds else False

    def result(self, a, cfg):
        return a.X


class OneHotEncode(Contract):
    """utils.one_hot_encode as seen from callers: a string over alphabet+ignore becomes the
    (len(alphabet), len(sequence)) tensor [c == code(i)]; any other character is rejected.
    Its definition is verified under C15 (contracts/utils_def.py)."""
    qualname = 'tangermeme.utils.one_hot_encode'
    props = ('C15',)

    def rejects(self, a, cfg):
        s = a.sequence
        if not isinstance(s, SStr):
            raise Unsupported("one_hot_encode of a non-symbolic string")
        return O.exists_box([s.length], lambda i: O.eq(s.code(i), -2))

    def result(self, a, cfg):
        s = a.sequence
        alpha = a.alphabet
        n = alpha.attrs['n'] if isinstance(alpha, Opaque) else len(alpha)
        return onehot_from_idx([n, s.length], lambda i: s.code(i), ohe_dim=0)


RNDOH = z3.Function('RNDOH', z3.IntSort(), z3.IntSort(), z3.IntSort(), z3.IntSort(), z3.IntSort())   # tape, pos, b, p


class RandomOneHot(Contract):
    """utils.random_one_hot — ASSUMED: draw number `pos` of the generator's tape is some one-hot
    tensor of the requested shape (index RNDOH(tape, pos, b, p) in [0, alphabet)); the generator
    advances; invalid probabilities (uninterpreted predicate probs.valid) are rejected."""
    qualname = 'tangermeme.utils.random_one_hot'
    props = ('C01',)
    assumed = True

    def apply_at_call(self, interp, rf, args, kwargs):
        from vf.world import make_rng
        ctx = interp.ctx
        fd = interp.get_ast(rf.pyobj)
        env = interp.bind_args(fd, rf.pyobj, args, kwargs)
        sh = env['shape']
        ctx.trusted.add('contract:' + self.qualname)
        if not isinstance(sh, tuple) or len(sh) != 3:
            raise SymRaise('ValueError')
        rs = env['random_state']
        rng = rs if isinstance(rs, Opaque) and rs.cls == 'rng' else make_rng(rs)
        if env.get('probs') is not None:
            if ctx.branch(Not(z3.Bool('probs.valid'))):
                raise SymRaise('ValueError', 'contract:random_one_hot')
            pr = env['probs']
            if isinstance(pr, Tn):
                # probabilities are per example or shared: leading dim 1 or batch
                if ctx.branch(Not(Or(O.eq(pr.shape[0], 1), O.eq(pr.shape[0], sh[0])))):
                    raise SymRaise('IndexError', 'contract:random_one_hot')
        for d in sh:
            ctx.may_raise(d < 0, 'ValueError')
        tape, pos = O.to_z3(rng.attrs['tape']), O.to_z3(rng.attrs['pos'])
        t = onehot_from_idx(list(sh), lambda b, p: RNDOH(tape, pos, O.to_z3(b), O.to_z3(p)), ohe_dim=1)
        q0, q1 = z3.Ints('rq0 rq1')
        ctx.assume(z3.ForAll([q0, q1], z3.And(RNDOH(tape, pos, q0, q1) >= 0, RNDOH(tape, pos, q0, q1) < O.to_z3(sh[1]))))
        rng.attrs['pos'] = rng.attrs['pos'] + 1
        return t


def register(world):
    world.register(ValidateInput())
    world.register(OneHotEncode())
    world.register(RandomOneHot())
