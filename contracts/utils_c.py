"""Contracts of tangermeme.utils helpers as seen from call sites."""
import z3
from vf import ops as O
from vf.ops import And, Or, Not, ite, Implies
from vf.tensor import Tn, Unsupported
from vf.values import SStr, Opaque, SymRaise, DType
from vf.contract import Contract, NS
from vf.spec import onehot_witness, onehot_from_idx, spec_tensor


class ValidateInput(Contract):
    """utils._validate_input.  Contract: raises iff X is not a tensor, its shape disagrees with `shape` (-1 = any),
    an element lies outside [min_value, max_value] (or there is no element to compare), or (ohe) X is not a one-hot
    encoding along dim 1 with both values 0 and 1 present.  Verified against the body (C01) on the families of
    arguments callers pass: one-hot-structured tensors with an arbitrary index function, plain integer / real
    tensors; torch.unique, min / max as assumed relations (vf/lib.py).  allow_N=True and dtype= are not modelled
    (a call with them is outside the verified subset).  The bounded layer (bounded/C01.py) additionally compares
    the contract with the real function exhaustively on small tensors."""
    qualname = 'tangermeme.utils._validate_input'
    props = ('C01',)

    # ---- verification of the contract against the body (DESIGN 9.9): the families of arguments on which callers
    # ---- use it - one-hot-structured tensors X[.., c, ..] = [c == w(..)] with an ARBITRARY integer index function w
    # ---- (a column is one-hot when 0 <= w < A and all-zero otherwise) and plain integer / real tensors
    def configs(self):
        return [dict(kind='ohe3', shape='none'), dict(kind='ohe3', shape='mid'), dict(kind='ohe3', shape='any3'), dict(kind='ohe3', shape='rank2'),
                dict(kind='ohe2', shape='none'),
                dict(kind='int2', shape='cols', lo=True, hi=False), dict(kind='real2', shape='any2', lo=True, hi=True),
                dict(kind='real3', shape='any3', lo=False, hi=False), dict(kind='real3', shape='rank2', lo=False, hi=False)]

    def scopes(self, cfg):
        return [{'default': 2}, {'default': 1}, {'default': 3}]

    def make_args(self, cfg, A):
        kind = cfg['kind']
        if kind.startswith('ohe'):
            r = int(kind[-1])
            dims = [A.dim('d%d' % i, 0) for i in range(r)]
            w = z3.Function('w', *([z3.IntSort()] * (r - 1)), z3.IntSort())
            X = onehot_from_idx(dims, lambda *rest: w(*[O.to_z3(x) for x in rest]), ohe_dim=1)
        else:
            r = int(kind[-1])
            X = A.tensor('X', r, 'int' if kind.startswith('int') else 'real', shape=[A.dim('d%d' % i, 0) for i in range(r)])
        shape = {'none': None, 'mid': (-1, A.int('S1'), -1), 'any3': (-1, -1, -1), 'any2': (-1, -1), 'rank2': (-1, -1) if r == 3 else (-1, -1, -1),
                 'cols': (-1, A.int('S1'))}[cfg['shape']]
        kw = dict(shape=shape)
        if kind.startswith('ohe'):
            kw['ohe'] = True
        if cfg.get('lo'):
            kw['min_value'] = 0
        if cfg.get('hi'):
            kw['max_value'] = 1
        return [X, 'X'], kw

    def rejects(self, a, cfg):
        X = a.X
        if not isinstance(X, Tn) or X.lib != 'torch':
            return True
        conds = []
        shape = a.get('shape')
        if shape is not None:
            if len(shape) != X.rank:
                return True
            for s, d in zip(shape, X.shape):
                ss = O.simp(s)
                if isinstance(ss, int) and ss == -1:
                    continue
                conds.append(And(O.ne(s, -1), O.ne(s, d)))
        if a.get('dtype') is not None:
            raise Unsupported("_validate_input(dtype=...) not modelled")
        if a.get('min_value') is not None or a.get('max_value') is not None:
            # X.min() / X.max() of a tensor without elements raises (a RuntimeError of torch, not the ValueError of
            # the function: found when the contract was verified against the body)
            conds.append(Or(*[d <= 0 for d in X.shape]) if O.any_sym(*X.shape) else (X.numel() == 0))
        if a.get('min_value') is not None:
            conds.append(O.exists_box(X.shape, lambda *i: X.elem(*i) < a.min_value))
        if a.get('max_value') is not None:
            conds.append(O.exists_box(X.shape, lambda *i: X.elem(*i) > a.max_value))
        if a.get('ohe'):
            if X.rank < 2:
                return True
            w = onehot_witness(X, 1)
            if w is None:
                raise Unsupported("_validate_input: cannot decide one-hotness of %r" % (X,))
            rest_dims = [d for q, d in enumerate(X.shape) if q != 1]
            A = X.shape[1]
            if a.get('allow_N'):
                raise Unsupported("_validate_input(allow_N=True) not modelled")
            conds.append(O.exists_box(rest_dims, lambda *sk: Or(w(*sk) < 0, w(*sk) >= A)))
            # torch.unique(X) must be exactly {0, 1}
            conds.append(O.eq(X.numel(), 0) if not O.any_sym(*X.shape) else Or(*[d <= 0 for d in X.shape]))
            conds.append(O.eq(A, 1))
        return Or(*conds) if conds else False

    def result(self, a, cfg):
        return a.X


class OneHotEncode(Contract):
    """utils.one_hot_encode as seen from callers: a string over alphabet+ignore becomes the
    (len(alphabet), len(sequence)) tensor [c == code(i)]; any other character is rejected.
    Its definition is verified under C15 (contracts/utils_def.py)."""
    qualname = 'tangermeme.utils.one_hot_encode'
    props = ('C15',)

    def rejects(self, a, cfg):
        s = a.sequence
        if not isinstance(s, SStr):
            raise Unsupported("one_hot_encode of a non-symbolic string")
        return O.exists_box([s.length], lambda i: O.eq(s.code(i), -2))

    def result(self, a, cfg):
        s = a.sequence
        alpha = a.alphabet
        n = alpha.attrs['n'] if isinstance(alpha, Opaque) else len(alpha)
        return onehot_from_idx([n, s.length], lambda i: s.code(i), ohe_dim=0)


RNDOH = z3.Function('RNDOH', z3.IntSort(), z3.IntSort(), z3.IntSort(), z3.IntSort(), z3.IntSort())   # tape, pos, b, p


class RandomOneHot(Contract):
    """utils.random_one_hot — ASSUMED: draw number `pos` of the generator's tape is some one-hot
    tensor of the requested shape (index RNDOH(tape, pos, b, p) in [0, alphabet)); the generator
    advances; invalid probabilities (uninterpreted predicate probs.valid) are rejected."""
    qualname = 'tangermeme.utils.random_one_hot'
    props = ('C01',)
    use_at_calls = True

    # ---- verification of the definition against its body: result[b, c, p] = [c == CHOICE(tape, pos0 + b, p)] - row b
    # ---- is draw number pos0 + b of the generator (RandomState.choice, assumed: values in [0, n)), hence one-hot with
    # ---- exactly the requested shape; the generator advances by one draw per example.  The call-site form above
    # ---- counts positions in calls instead of draws (RNDOH(tape, k, b, p) = CHOICE(tape, pos0 + k*B + b, p)).
    def configs(self):
        return [dict(rs=r, probs=pr) for r in ('int', 'rng', 'none') for pr in ('none', 'given')] + [dict(rs='int', probs='none', shape=k) for k in ('list', 'tuple2', 'tuple4')]

    def scopes(self, cfg):
        return [{'default': 2}, {'default': 1}, {'default': 3}]

    def make_args(self, cfg, A):
        B, n, L = A.dim('B', 0), A.dim('n', 1), A.dim('L', 0)
        shape = {None: (B, n, L), 'list': [B, n, L], 'tuple2': (n, L), 'tuple4': (B, n, L, A.dim('extra', 0))}[cfg.get('shape')]
        probs = None
        if cfg['probs'] == 'given':
            probs = A.tensor('probs', 2, 'real', lib='np', shape=[A.dim('P0', 1), A.dim('P1', 0)])
        rs = {'int': lambda: A.int('seed'), 'none': lambda: None,
              'rng': lambda: Opaque('rng', 'rng', {'tape': A.int('tape'), 'pos': A.int('pos0', lo=0), 'types': ['numpy.random.RandomState']})}[cfg['rs']]()
        if isinstance(rs, Opaque):
            rs.attrs['_entry_pos'] = rs.attrs['pos']
        return [shape], dict(probs=probs, random_state=rs)

    def rejects(self, a, cfg):
        if not isinstance(a.shape, tuple) or len(a.shape) != 3:
            return True
        B, n, L = a.shape
        P = a.get('probs')
        if P is None:
            return False
        # an example is drawn only when there is one; its row of probabilities must exist, have one entry per
        # character and be a distribution
        return And(B >= 1, Or(Not(z3.Bool('probs.valid')), O.ne(P.shape[1], n), And(O.ne(P.shape[0], 1), P.shape[0] < B)))

    def accepts(self, a, cfg):
        return Not(self.rejects(a, cfg))

    def tape_pos(self, a):
        rs = a.random_state
        if isinstance(rs, Opaque):
            return rs.attrs['tape'], rs.attrs['_entry_pos']
        if rs is None:
            return None, 0
        return rs, 0

    def result(self, a, cfg):
        from vf.world import CHOICE
        tape, pos0 = self.tape_pos(a)
        if tape is None:
            return NotImplemented
        B, n, L = a.shape
        return spec_tensor([B, n, L], lambda b, c, p: ite(O.eq(c, CHOICE(O.to_z3(tape), O.to_z3(pos0 + b), O.to_z3(p))), 1, 0))

    def post(self, a, r, cfg):
        from vf.spec import is_onehot
        out = [('is-torch-tensor', isinstance(r, Tn) and r.lib == 'torch' and r.rank == 3)]
        if not out[0][1]:
            return out
        out.append(('requested-shape', And(*[O.eq(x, y) for x, y in zip(r.shape, a.shape)])))
        out.append(('valid-one-hot', is_onehot(r, ohe_dim=1)))
        rs = a.random_state
        if isinstance(rs, Opaque):
            out.append(('generator-advanced-one-draw-per-example', O.eq(rs.attrs['pos'], rs.attrs['_entry_pos'] + a.shape[0])))
        return out

    def loops(self):
        from vf.world import defined_loop, CHOICE

        def state(fr):
            rs = fr.env['random_state']
            if '_pos0' not in rs.attrs:
                rs.attrs['_pos0'] = rs.attrs['pos']
            return fr.env['shape'], rs

        def ohe(fr, it):
            sh, rs = state(fr)
            tape, pos0 = O.to_z3(rs.attrs['tape']), rs.attrs['_pos0']
            return spec_tensor(list(sh), lambda b, c, p, *more: ite(And(b < it, O.eq(c, CHOICE(tape, O.to_z3(pos0 + b), O.to_z3(p)))), 1, 0), lib='np')

        def rng_state(fr, v, it):
            sh, rs = state(fr)
            rs.attrs['pos'] = rs.attrs['_pos0'] + it
            qj, q = z3.Ints('cqj cq')
            tape, pos0 = O.to_z3(rs.attrs['tape']), O.to_z3(rs.attrs['_pos0'])
            # range facts of the draws made so far (postcondition of the assumed RandomState.choice)
            fr.ctx.assume(z3.ForAll([qj, q], z3.Implies(z3.And(qj >= 0, qj < O.to_z3(it)),
                                                       z3.And(CHOICE(tape, pos0 + qj, q) >= 0, CHOICE(tape, pos0 + qj, q) < O.to_z3(sh[1])))))
            return rs

        def extra(E, fr):
            rs = E.random_state
            p0 = rs.attrs.get('_pos0', rs.attrs['pos'])
            out = [('rng-position', O.eq(rs.attrs['pos'], p0 + E.it))]
            P = E.probs
            if P is not None:
                # a completed iteration means its row of probabilities existed and the generator accepted it
                out.append(('iterations-passed-validation', Implies(E.it >= 1, And(z3.Bool('probs.valid'), O.eq(P.shape[1], E.shape[1]),
                                                                                   Or(O.eq(P.shape[0], 1), E.it <= P.shape[0])))))
            return out
        spec = defined_loop({'ohe': ohe}, extra=extra, extra_mutated=['random_state'])
        spec.abstract['random_state'] = rng_state
        return {1: spec}

    def apply_at_call(self, interp, rf, args, kwargs):
        from vf.world import make_rng
        ctx = interp.ctx
        fd = interp.get_ast(rf.pyobj)
        env = interp.bind_args(fd, rf.pyobj, args, kwargs)
        sh = env['shape']
        ctx.trusted.add('contract:' + self.qualname)
        if not isinstance(sh, tuple) or len(sh) != 3:
            raise SymRaise('ValueError')
        rs = env['random_state']
        rng = rs if isinstance(rs, Opaque) and rs.cls == 'rng' else make_rng(rs)
        if env.get('probs') is not None:
            if ctx.branch(Not(z3.Bool('probs.valid'))):
                raise SymRaise('ValueError', 'contract:random_one_hot')
            pr = env['probs']
            if isinstance(pr, Tn):
                # probabilities are per example or shared: leading dim 1 or batch
                if ctx.branch(Not(Or(O.eq(pr.shape[0], 1), O.eq(pr.shape[0], sh[0])))):
                    raise SymRaise('IndexError', 'contract:random_one_hot')
        for d in sh:
            ctx.may_raise(d < 0, 'ValueError')
        tape, pos = O.to_z3(rng.attrs['tape']), O.to_z3(rng.attrs['pos'])
        t = onehot_from_idx(list(sh), lambda b, p: RNDOH(tape, pos, O.to_z3(b), O.to_z3(p)), ohe_dim=1)
        q0, q1 = z3.Ints('rq0 rq1')
        ctx.assume(z3.ForAll([q0, q1], z3.And(RNDOH(tape, pos, q0, q1) >= 0, RNDOH(tape, pos, q0, q1) < O.to_z3(sh[1]))))
        rng.attrs['pos'] = rng.attrs['pos'] + 1
        return t


def register(world):
    world.register(ValidateInput())
    world.register(OneHotEncode())
    world.register(RandomOneHot())
