"""Contract of tangermeme.predict.predict (property C03; used by every wrapper of C07-C10, C20)."""
import z3
from vf import ops as O
from vf.ops import And, Or, Not, ite, Implies
from vf.tensor import Tn, Unsupported, basic_index
from vf.values import SStr, Opaque, CatList
from vf.contract import Contract, same
from vf.world import LoopSpec, RowWise
from vf.spec import spec_tensor

OUTS = {'tensor': (None, 'tuple'), 'tuple1': (1, 'tuple'), 'tuple2': (2, 'tuple'), 'tuple3': (3, 'tuple'), 'list2': (2, 'list')}


def make_model(name, out, n_args, A, max_trailing=2, require=True):
    k, tk = OUTS[out]
    n = 1 if k is None else k
    trailing = []
    for o in range(n):
        # output o has o % 3 trailing dimensions (0, 1, 2): trailing output rank is structural
        nt = min(o % 3 + (1 if k is None else 0), max_trailing)
        trailing.append([A.dim('%s.o%d.t%d' % (name, o, j)) for j in range(nt)])
    rw = RowWise(name, k, tk, trailing, recording=A.scope is not None)
    m = Opaque(name, 'model', {'rowwise': rw, 'training': z3.Bool(name + '.training0'), 'sub_training': z3.Bool(name + '.sub_training0'), 'require_eval_nograd': require,
                               'n_args': n_args, 'types': ['model']})
    return m


def prefix(t, R):
    """first R rows of t (spec-level view)"""
    return spec_tensor([R] + list(t.shape[1:]), lambda *i: t.elem(*i), t.kind)


class Predict(Contract):
    """C03: for every batch size b >= 1, predict returns the concatenation over examples i of
    model(X[i], args[0][i], ...) in eval mode with gradients disabled, outputs in input order;
    X / args are not modified; an args entry with a different leading dimension is rejected."""
    qualname = 'tangermeme.predict.predict'
    props = ('C03',)

    def configs(self):
        return [dict(out=o, n_args=n) for o in OUTS for n in ('none', 0, 1, 2, 3)]

    def make_args(self, cfg, A):
        n_args = cfg['n_args']
        na = 0 if n_args == 'none' else n_args
        model = make_model('M', cfg['out'], na, A)
        X = A.tensor('X', 3, 'int')
        A.assume(X.shape[0] >= 1)
        args = None
        if n_args != 'none':
            args = tuple(A.tensor('arg%d' % i, 1 + (i % 2) + 1, 'real') for i in range(na))
        bs = A.int('batch_size', lo=1)
        return [model, X], dict(args=args, batch_size=bs, device='cpu')

    def scopes(self, cfg):
        # small scopes pin the batch size as well (the batching loop is then unrolled)
        return [{'default': 3, 'batch_size': 2}, {'default': 2, 'batch_size': 1}, {'default': 3, 'batch_size': 4},
                {'default': 2, 'X.d0': 5, 'arg0.d0': 5, 'arg1.d0': 5, 'arg2.d0': 5, 'batch_size': 2}, {'default': 2, 'X.d0': 4, 'batch_size': 3}]

    def call_cfg(self, a, fr):
        m = a.model
        rw = m.attrs['rowwise']
        out = [k for k, v in OUTS.items() if v == (rw.k, rw.tuple_kind)][0]
        return dict(out=out, n_args='none' if a.args is None else len(a.args))

    def pre(self, a, cfg):
        return []

    def rejects(self, a, cfg):
        if a.args is None:
            return False
        return Or(*[O.ne(x.shape[0], a.X.shape[0]) for x in a.args]) if len(a.args) else False

    def result(self, a, cfg):
        rw = a.model.attrs['rowwise']
        outs = rw.apply_rows([a.X] + list(a.args or ()))
        if rw.k is None:
            return outs[0]
        return list(outs)

    def loops(self):
        def y_spec(fr, it):
            """abstract value of the list y after `it` iterations: its cat-view is the first
            min(it*bs, N) rows of the specification (data structure against an abstract view)"""
            env = fr.env
            X, args, model = env['X'], env['args'], env['model']
            bs = env['batch_size']
            N = X.shape[0]
            R = O.vmin(O.mul(it, bs), N)
            rw = model.attrs['rowwise']
            outs = rw.apply_rows([X] + list(args or ()))
            views = [prefix(t, R) for t in outs]
            return CatList(it, views, None if rw.k is None else rw.tuple_kind)

        def abstract_y(fr, v, it):
            return y_spec(fr, it)

        def inv(E, fr):
            tgt = y_spec(fr, E.it)
            y = E.y
            out = []
            if isinstance(y, list):
                out.append(('y-count', O.eq(len(y), tgt.count)))
                if len(y) != 0:
                    raise Unsupported("concrete non-empty y at loop head")
                for o, v in enumerate(tgt.views):
                    out.append(('y-view%d-empty' % o, O.eq(v.shape[0], 0)))
                return out
            out.append(('y-count', O.eq(y.count, tgt.count)))
            out.append(('y-kind', y.tuple_kind == tgt.tuple_kind and len(y.views) == len(tgt.views)))
            for o, (v, t) in enumerate(zip(y.views, tgt.views)):
                out.extend(same(v, t, 'y-view%d' % o))
            return out
        return {2: LoopSpec(inv, abstract={'y': abstract_y})}


def register(world):
    world.register(Predict())
