"""Contracts of tangermeme.io (property C16)."""
import z3
from vf import ops as O
from vf.ops import And, Or, Not, ite, Implies
from vf.tensor import Tn, Unsupported
from vf.values import Opaque
from vf.contract import Contract, FragmentContract, same
from vf.spec import spec_tensor
from vf.lib_text import line, isMotif, isLetter, NAME, WIDTH, ROWV, name_id


class ReadMemeStep(FragmentContract):
    """C16 (one step of the read_meme parser, for every parser state and every line): the code's
    transition equals the transition of the specification automaton
        idle --MOTIF line--> named(name)            named --letter line--> matrix(width, 0 rows)
        matrix(w, i) --row line--> matrix(w, i+1), and when the w-th row has been read the motif
        (name, the w rows read since the letter line, transposed) is COMMITTED and the state is idle
    so a motif is committed by its own last row: independent of what follows it (another MOTIF line,
    a blank/URL line, or the end of the file)."""
    qualname = 'tangermeme.io.read_meme'
    props = ('C16',)
    loop_ordinal = 1
    key = 'tangermeme.io.read_meme#step'

    def configs(self):
        return [dict(state=s) for s in ('idle', 'named', 'matrix')]

    def make_env(self, cfg, A):
        k = A.int('k', lo=0)
        mm = Opaque('motifs', 'motifmap', {'commits': [], 'count0': A.int('n_committed', lo=0), 'types': ['builtins.dict']})
        env = dict(line=line(k), motifs=mm, n_motifs=None, i=0, motif=None, width=None)
        if cfg['state'] in ('named', 'matrix'):
            env['motif'] = Opaque('name', 'nameid', {'id': z3.Int('cur_name'), 'types': ['builtins.str']})
        if cfg['state'] == 'matrix':
            w = A.int('w', lo=1)
            i = A.int('i0', lo=0)
            A.assume(i < w)
            env['width'] = w
            env['i'] = i
            env['pwm'] = A.tensor('pwm', 2, 'real', lib='np', shape=[w, 4])
        A.assume(WIDTH(O.to_z3(k)) >= 1)   # a well-formed MEME file states a positive width
        env['_k'] = k
        return env

    def post_env(self, b, a, outcome, cfg):
        k = O.to_z3(b._k)
        st = cfg['state']
        commits = a.motifs.attrs['commits']
        out = [('no-exception', not outcome.startswith('raise'))]
        if not out[0][1]:
            return out

        def state_is(motif, width, i):
            c = []
            c.append(a.motif is None if motif is None else (a.motif is not None and O.eq(name_id(a.motif), motif)))
            c.append(a.width is None if width is None else (a.width is not None and O.eq(a.width, width)))
            c.append(O.eq(a.i, i))
            return And(*c)
        if st == 'idle':
            out.append(('no-commit', len(commits) == 0))
            # which branch the path took is part of the path condition: state both implications
            out.append(('motif-line-starts-a-motif', Implies(isMotif(k), state_is(NAME(k), None, 0) if a.motif is not None else False)))
            out.append(('other-line-ignored', Implies(Not(isMotif(k)), a.motif is None and a.width is None and O.eq(a.i, 0))))
        elif st == 'named':
            cur = name_id(b.motif)
            out.append(('no-commit', len(commits) == 0))
            out.append(('letter-line-opens-matrix', Implies(isLetter(k), (a.width is not None and And(O.eq(a.width, WIDTH(k)), O.eq(a.i, 0), O.eq(name_id(a.motif), cur))) if a.width is not None else False)))
            out.append(('other-line-ignored', Implies(Not(isLetter(k)), a.width is None and a.motif is not None and O.eq(name_id(a.motif), cur) and O.eq(a.i, 0))))
            if a.width is not None:
                pwm = a.pwm
                out.append(('fresh-matrix-shape', And(O.eq(pwm.shape[0], WIDTH(k)), O.eq(pwm.shape[1], 4))))
        else:
            cur, w, i0, pwm0 = name_id(b.motif), b.width, b.i, b.pwm
            last = O.eq(i0 + 1, w)
            row = lambda r, c: ite(O.eq(r, i0), ROWV(k, O.to_z3(c)), pwm0[r, c])
            out.append(('commit-iff-last-row', Implies(last, len(commits) == 1) if len(commits) == 1 else Not(last)))
            if len(commits) == 1:
                nm, t = commits[0]
                out.append(('commit-on-last-row-only', last))
                out.append(('committed-name', O.eq(nm, cur)))
                out.append(('committed-matrix-is-transposed-rows', And(O.eq(t.shape[0], 4), O.eq(t.shape[1], w), O.forall([4, w], lambda c, r: O.eq(t[c, r], row(r, c))))))
                out.append(('back-to-idle', And(a.motif is None, a.width is None, O.eq(a.i, 0))))
            else:
                out.append(('row-stored-and-counter-advanced', And(a.motif is not None and O.eq(name_id(a.motif), cur), a.width is not None and O.eq(a.width, w), O.eq(a.i, i0 + 1),
                                                                   O.forall([w, 4], lambda r, c: O.eq(a.pwm[r, c], row(r, c))))))
        return out

    def replay_fragment(self, cfg, st):
        return []


class ExtractLociStep(FragmentContract):
    """C16 (body of the extract_loci loop for one locus, in-memory inputs): the locus is kept iff its
    expanded window [mid - max(in//2, out//2) - jitter, mid + max(...) + jitter] neither crosses the
    left end nor touches/crosses the right end of its chromosome; a kept locus contributes exactly the
    columns [mid - in//2 - j, mid + in//2 + j + in%2) of the chromosome (width in_window + 2 jitter,
    centred on the midpoint, nothing clipped) and, when signals are given, exactly the columns
    [mid - out//2 - j, mid + out//2 + j + out%2) of every signal (width out_window + 2 jitter); the
    three output lists grow together (rows stay aligned)."""
    qualname = 'tangermeme.io.extract_loci'
    props = ('C16',)
    loop_ordinal = 1
    key = 'tangermeme.io.extract_loci#step'

    def configs(self):
        return [dict(signals=s) for s in ('none', 'both')]

    def make_env(self, cfg, A):
        CL = A.dim('chrom_len', 1)
        seqarr = A.tensor('chromseq', 2, 'int', lib='np', shape=[A.dim('alpha', 1), CL])
        chrom = 'chrX'
        sequences = Opaque('sequences', 'tensordict', {'key': chrom, 'value': seqarr, 'types': ['builtins.dict']})
        in_window, out_window = A.int('in_window', lo=1), A.int('out_window', lo=1)
        jit = A.int('max_jitter', lo=0)
        env = dict(chrom=chrom, start=A.int('start', lo=0), end=A.int('end'), sequences=sequences, in_window=in_window, out_window=out_window,
                   max_jitter=jit, in_width=O.floordiv(in_window, 2), n_loci=None, min_counts=None, max_counts=None, target_idx=0,
                   seqs=[], signals_=[], in_signals_=[], alphabet=None, ignore=None)
        A.assume(env['end'] >= env['start'])
        if cfg['signals'] == 'none':
            env.update(signals=None, in_signals=None, out_width=0)
        else:
            sig = A.tensor('sig', 1, 'real', lib='np', shape=[CL])
            isig = A.tensor('isig', 1, 'real', lib='np', shape=[CL])
            env.update(signals=[Opaque('s0', 'tensordict', {'key': chrom, 'value': sig, 'types': ['builtins.dict']})],
                       in_signals=[Opaque('i0', 'tensordict', {'key': chrom, 'value': isig, 'types': ['builtins.dict']})],
                       out_width=O.floordiv(out_window, 2))
            env['_sig'], env['_isig'] = sig, isig
        env['_seqarr'], env['_CL'] = seqarr, CL
        return env

    def post_env(self, b, a, outcome, cfg):
        out = [('no-exception', not outcome.startswith('raise'))]
        if not out[0][1]:
            return out
        CL, arr = b._CL, b._seqarr
        mid = b.start + O.floordiv(b.end - b.start, 2)
        half = O.vmax(b.out_width, b.in_width)
        lo, hi = mid - half - b.max_jitter, mid + half + b.max_jitter
        keep = Not(Or(lo < 0, hi >= CL))
        kept = len(a.seqs) == 1
        # the statement's clause is an only-when: a kept locus must be extracted exactly (below); an
        # omitted one must touch or cross an end
        out.append(('omitted-only-when-window-touches-or-crosses-an-end', True if kept else Not(keep)))
        out.append(('lists-grow-together', len(a.seqs) == (len(a.signals_) if cfg['signals'] == 'both' else len(a.seqs)) and
                    (cfg['signals'] != 'both' or len(a.in_signals_) == len(a.seqs))))
        if not kept:
            return out
        s_in = mid - b.in_width - b.max_jitter
        w_in = b.in_window + 2 * b.max_jitter
        seq = a.seqs[0]
        out.append(('sequence-window-inside-chromosome', And(0 <= s_in, s_in + w_in <= CL)))
        out.append(('sequence-window-exact', And(O.eq(seq.shape[1], w_in), O.eq(seq.shape[0], arr.shape[0]),
                                                 O.forall([arr.shape[0], w_in], lambda c, p: O.eq(seq[c, p], arr[c, s_in + p])))))
        if cfg['signals'] == 'both' and len(a.signals_) == 1 and len(a.in_signals_) == 1:
            s_out = mid - O.floordiv(b.out_window, 2) - b.max_jitter
            w_out = b.out_window + 2 * b.max_jitter
            sg = a.signals_[0][0]
            isg = a.in_signals_[0][0]
            out.append(('signal-window-exact', And(0 <= s_out, s_out + w_out <= CL, O.eq(sg.shape[0], w_out),
                                                   O.forall([w_out], lambda p: O.eq(sg[p], b._sig[s_out + p])))))
            out.append(('in-signal-window-exact', And(O.eq(isg.shape[0], w_in), O.forall([w_in], lambda p: O.eq(isg[p], b._isig[s_in + p])))))
        return out

    def replay_fragment(self, cfg, st):
        return []


def register(world):
    world.register_fragment(ReadMemeStep())
    world.register_fragment(ExtractLociStep())
