"""Contracts of tangermeme.utils definitions (property C15): chunk / unchunk."""
import z3
from vf import ops as O
from vf.ops import And, Or, Not, ite, Implies
from vf.tensor import Tn, Unsupported
from vf.contract import Contract, same
from vf.spec import spec_tensor
from vf.world import LoopSpec, defined_loop


def n_chunks(L, size, step):
    return O.floordiv(L - size, step) + 1


class Chunk(Contract):
    """C15: the chunks of sequence i are rows [off_i, off_i + K_i) of the result, chunk k of a sequence
    holds its positions [k*step, k*step + size), step = size - overlap, K_i = (L_i - size)//step + 1."""
    qualname = 'tangermeme.utils.chunk'
    props = ('C15',)

    def configs(self):
        return [dict(k=k) for k in (1, 2, 3)]

    def make_args(self, cfg, A):
        Ad = A.dim('A', 1)
        X = [A.tensor('x%d' % i, 2, 'real', shape=[Ad, A.dim('L%d' % i, 1)]) for i in range(cfg['k'])]
        return [X], dict(size=A.int('size'), overlap=A.int('overlap'))

    def rejects(self, a, cfg):
        return Or(a.size <= 0, a.overlap < 0, a.overlap >= a.size, *[x.shape[1] < a.size for x in a.X])

    def result(self, a, cfg):
        size, step = a.size, a.size - a.overlap
        Ks = [n_chunks(x.shape[1], size, step) for x in a.X]
        offs = [0]
        for K in Ks:
            offs.append(offs[-1] + K)
        X = a.X

        def elem(r, c, j):
            out = X[-1][c, O.mul(r - offs[len(X) - 1], step) + j]
            for i in range(len(X) - 2, -1, -1):
                out = ite(r < offs[i + 1], X[i][c, O.mul(r - offs[i], step) + j], out)
            return out
        return spec_tensor([offs[-1], X[0].shape[0], size], elem, 'real')


class Unchunk(Contract):
    """C15: unchunk reassembles, for every sequence and every position covered by a complete chunk, the
    value from the chunk that owns that position: chunk k of a sequence with K chunks contributes its
    columns [lo_k, hi_k) to positions k*step + [lo_k, hi_k) (lo_0 = 0, lo_k = overlap//2; hi_{K-1} =
    size, hi_k = size - (overlap - overlap//2)); output length (K-1)*step + size.  With chunk's
    contract this is the round trip: every covered position is reproduced, for 1, 2 and >= 3 chunks."""
    qualname = 'tangermeme.utils.unchunk'
    props = ('C15',)

    def configs(self):
        return [dict(k=k, ov=o) for k in (1, 2) for o in ('zero', 'pos')]

    def make_args(self, cfg, A):
        R, Ad, size = A.dim('R', 1), A.dim('A', 1), A.dim('size', 1)
        X = A.tensor('X', 3, 'real', shape=[R, Ad, size])
        lengths = [A.int('len%d' % i) for i in range(cfg['k'])]
        ov = A.int('overlap')
        A.assume(ov == 0 if cfg['ov'] == 'zero' else ov > 0)
        return [X], dict(lengths=lengths, overlap=ov)

    def Ks(self, a):
        size = a.X.shape[2]
        step = size - a.overlap
        return [n_chunks(L, size, step) for L in a.lengths], step

    def pre(self, a, cfg):
        size = a.X.shape[2]
        Ks, step = self.Ks(a)
        tot = sum(Ks)
        # the chunks handed in are those of sequences with the stated lengths (what chunk() produces)
        return [a.overlap < size, a.overlap >= 0, O.eq(a.X.shape[0], tot)] + [L >= size for L in a.lengths]

    def post(self, a, r, cfg):
        X = a.X
        size = X.shape[2]
        Ks, step = self.Ks(a)
        s = O.floordiv(a.overlap, 2)
        e_ = a.overlap - s
        out = [('list-of-sequences', isinstance(r, list) and len(r) == len(a.lengths) and all(isinstance(t, Tn) and t.rank == 2 for t in r))]
        if not out[0][1]:
            return out
        off = 0
        for i, (t, K) in enumerate(zip(r, Ks)):
            out.append(('seq%d:length' % i, And(O.eq(t.shape[0], X.shape[1]), O.eq(t.shape[1], O.mul(K - 1, step) + size))))

            def covered(c, k, j, t=t, K=K, off=off):
                lo = ite(O.eq(k, 0), 0, s)
                hi = ite(O.eq(k, K - 1), size, size - e_)
                p = O.mul(k, step) + j
                # lemma instance (ediv_emod_of_decomp, lean/Lemmas.lean): position of (k, j) in the
                # merged middle part, written relative to the first chunk's width
                m = p - (size - e_)
                lemma = Implies(And(k >= 1, 0 <= j - s, j - s < step),
                                And(O.eq(O.floordiv(m, step), k - 1), O.eq(O.mod(m, step), j - s)))
                return Implies(lemma, Implies(And(0 <= k, k < K, lo <= j, j < hi), O.eq(t[c, p], X[off + k, c, j])))
            out.append(('seq%d:every-covered-position-from-its-chunk' % i, O.forall([X.shape[1], K, size], covered)))
            off = off + K
        return out


class FastOneHotEncode(Contract):
    """C15 (byte-table lookup of one_hot_encode): for a byte sequence over [0, 128) and a 256-entry table with
    entries -2 (illegal), -1 (ignored) or a column in [0, m): the kernel raises exactly when some byte is illegal;
    otherwise row i of the (n, m) buffer gets a 1 in column table[seq[i]] and nothing else changes - a byte that
    is ignored leaves its row untouched (all-zero in a zero buffer), a letter sets exactly its own column.
    Every read and write is inside its array (numba: no bounds checks)."""
    qualname = 'tangermeme.utils._fast_one_hot_encode'
    props = ('C15',)
    modifies = ('X_ohe',)
    use_at_calls = False

    def make_args(self, cfg, A):
        n, m = A.dim('n', 0), A.dim('m', 1)
        X = A.tensor('X_ohe', 2, 'int', lib='np', shape=[n, m])
        seq = A.tensor('seq', 1, 'int', lib='np', shape=[n])
        mapping = A.tensor('mapping', 1, 'int', lib='np', shape=[256])
        return [X, seq, mapping], {}

    def pre(self, a, cfg):
        n, m = a.X_ohe.shape
        return [O.forall_hyp([n], lambda i: And(a.seq[i] >= 0, a.seq[i] < 128)),
                O.forall_hyp([256], lambda b: And(a.mapping[b] >= -2, a.mapping[b] < m))]

    def rejects(self, a, cfg):
        return O.exists_box([a.seq.shape[0]], lambda i: O.eq(a.mapping[a.seq[i]], -2))

    def random_inputs(self, cfg, rng):
        """(bounds-checked replay, vf/boundscheck.py) a byte string over a small alphabet + ignore set, legal bytes only"""
        import numpy
        m = rng.randint(1, 5)
        letters = rng.sample(range(33, 127), m + 2)
        mapping = numpy.zeros(256, dtype='int8') - 2
        for i, b in enumerate(letters[:m]):
            mapping[b] = i
        for b in letters[m:]:
            mapping[b] = -1
        n = rng.randint(0, 7)
        seq = numpy.array([rng.choice(letters) for _ in range(n)], dtype='int8')
        return [numpy.zeros((n, m), dtype='int8'), seq, mapping], {}

    def show_inputs(self, args, kwargs):
        return '_fast_one_hot_encode(zeros%s, seq=%s, mapping with columns %s)' % (tuple(args[0].shape), args[1].tolist(), sorted(set(args[2].tolist())))

    def result(self, a, cfg):
        return None

    @staticmethod
    def after(X, seq, mapping, upto):
        return spec_tensor(X.shape, lambda r, c: ite(And(r < upto, O.eq(mapping[seq[r]], c)), 1, X[r, c]), lib='np')

    def post(self, a, r, cfg):
        return same(a._live['X_ohe'], self.after(a.X_ohe, a.seq, a.mapping, a.seq.shape[0]), 'X_ohe-after')

    def loops(self):
        f = z3.Function('X_ohe', z3.IntSort(), z3.IntSort(), z3.IntSort())

        def d1(fr, it):
            env = fr.env
            X = env['X_ohe']
            base = spec_tensor(X.shape, lambda r, c: f(O.to_z3(r), O.to_z3(c)), lib='np')
            return FastOneHotEncode.after(base, env['seq'], env['mapping'], it)

        def legal(E, fr):
            env = fr.env
            return [('no-illegal-byte-so-far', E.forall([E.it], lambda r: O.ne(env['mapping'][env['seq'][r]], -2)))]
        return {1: defined_loop({'X_ohe': d1}, extra=legal)}


from vf.contract import FragmentContract


class OneHotMapping(FragmentContract):
    """C15 (byte table of one_hot_encode, the statements that build `one_hot_mapping`): for an alphabet of distinct
    ASCII bytes and a disjoint ignore set, the 256-entry table sends the i-th alphabet byte to column i, every
    ignored byte to -1 and EVERY other byte to -2 (illegal) - whatever the table held before is irrelevant, and
    nothing is written outside [0, 256)."""
    qualname = 'tangermeme.utils.one_hot_encode'
    props = ('C15',)
    key = 'tangermeme.utils.one_hot_encode#mapping'
    stmt_block = ('one_hot_mapping = numpy.zeros(256', ('until', 'for i, idx in enumerate(ignore_idxs'))
    L_ALPHA, L_IGNORE = 2, 3

    def scopes(self, cfg):
        return [{'default': 2}, {'default': 3}, {'default': 1}]

    def make_env(self, cfg, A):
        m, g = A.dim('m', 1), A.dim('g', 0)
        al = A.tensor('alpha_idxs', 1, 'int', lib='np', shape=[m])
        ig = A.tensor('ignore_idxs', 1, 'int', lib='np', shape=[g])
        A.assume(m <= 127)
        A.assume(O.forall_hyp([m], lambda i: And(al[i] >= 0, al[i] < 128)))
        A.assume(O.forall_hyp([g], lambda j: And(ig[j] >= 0, ig[j] < 128)))
        A.assume(O.forall_hyp([m, m], lambda i, k: Implies(O.ne(i, k), O.ne(al[i], al[k]))))
        A.assume(O.forall_hyp([m, g], lambda i, j: O.ne(al[i], ig[j])))
        return dict(alpha_idxs=al, ignore_idxs=ig)

    @staticmethod
    def table(env, mp, n_alpha, n_ign, fa):
        """the table after the first n_alpha alphabet bytes and n_ign ignored bytes have been entered"""
        al, ig = env['alpha_idxs'], env['ignore_idxs']
        b = z3.Int('tb')
        other = z3.ForAll([b], z3.Implies(
            z3.And(0 <= b, b < 256,
                   O.to_z3(O.forall_hyp([n_alpha], lambda i: O.ne(al[i], b))),
                   O.to_z3(O.forall_hyp([n_ign], lambda j: O.ne(ig[j], b)))),
            O.to_z3(O.eq(mp[b], -2))))
        return [('alphabet byte i -> column i', fa([n_alpha], lambda i: O.eq(mp[al[i]], i))),
                ('ignored byte -> -1', fa([n_ign], lambda j: O.eq(mp[ig[j]], -1))),
                ('any other byte -> -2', other)]

    def loops(self):
        cls = type(self)

        def shape_ok(mp):
            return [('table-shape', And(mp.rank == 1, O.eq(mp.shape[0], 256)) if mp.rank == 1 else False)]

        def l_alpha(E, fr):
            mp = fr.env['one_hot_mapping']
            return shape_ok(mp) + cls.table(fr.env, mp, E.it, 0, E.forall)

        def l_ignore(E, fr):
            mp = fr.env['one_hot_mapping']
            return shape_ok(mp) + cls.table(fr.env, mp, fr.env['alpha_idxs'].shape[0], E.it, E.forall)
        return {self.L_ALPHA: LoopSpec(l_alpha), self.L_IGNORE: LoopSpec(l_ignore)}

    def replay_fragment(self, cfg, st):
        """the real whole function on a string over the alphabet, the ignore set and one foreign byte"""
        import torch
        from tangermeme.utils import one_hot_encode
        al, ig = st.get('alpha_idxs') or [], st.get('ignore_idxs') or []
        if not al:
            return []
        pool = [chr(c) for c in range(65, 91)]
        alphabet = pool[:len(al)]
        ignore = pool[len(al):len(al) + len(ig)]
        out = []
        seq = ''.join(alphabet + ignore)
        try:
            X = one_hot_encode(seq, alphabet=alphabet, ignore=ignore)
            exp = torch.zeros(len(alphabet), len(seq), dtype=X.dtype)
            for i in range(len(alphabet)):
                exp[i, i] = 1
            if tuple(X.shape) != tuple(exp.shape) or not torch.equal(X, exp):
                out.append('one_hot_encode(%r, alphabet=%r, ignore=%r) = %s' % (seq, alphabet, ignore, X.tolist()))
        except Exception as e:
            out.append('one_hot_encode(%r, alphabet=%r, ignore=%r) raised %s' % (seq, alphabet, ignore, type(e).__name__))
        foreign = pool[len(al) + len(ig)]
        try:
            one_hot_encode(alphabet[0] + foreign, alphabet=alphabet, ignore=ignore)
            out.append('one_hot_encode accepted %r, which is neither in alphabet %r nor in ignore %r' % (foreign, alphabet, ignore))
        except ValueError:
            pass
        return out

    def post_env(self, b, a, outcome, cfg):
        out = [('no-exception', not outcome.startswith('raise'))]
        if not out[0][1]:
            return out
        mp = a.one_hot_mapping
        env = dict(alpha_idxs=b.alpha_idxs, ignore_idxs=b.ignore_idxs)
        if not isinstance(mp, Tn) or mp.rank != 1:
            return out + [('table-is-a-vector', False)]
        out.append(('table-has-256-entries', O.eq(mp.shape[0], 256)))
        return out + type(self).table(env, mp, b.alpha_idxs.shape[0], b.ignore_idxs.shape[0], O.forall)


class ReverseComplementTensor(FragmentContract):
    """C15 (tensor form of reverse_complement, its last statement): with idxs[c] the row of the complement of letter c,
    the result is out[c, l] = seq[idxs[c], L - 1 - l] for every alphabet size and length, the input is not written;
    lemma over this contract: when the index map is an involution (idxs[idxs[c]] = c, i.e. the complement map is),
    applying the operation twice gives back the input."""
    qualname = 'tangermeme.utils.reverse_complement'
    props = ('C15',)
    key = 'tangermeme.utils.reverse_complement#tensor'
    stmt_block = ('seq_rc = torch.flip(seq', 1)

    def scopes(self, cfg):
        return [{'default': 2}, {'default': 3}]

    def make_env(self, cfg, A):
        from vf.values import StackList
        Ad, L = A.dim('A', 1), A.dim('L', 0)
        seq = A.tensor('seq', 2, 'real', shape=[Ad, L])
        ix = A.tensor('ix', 1, 'int', shape=[Ad])
        A.assume(O.forall_hyp([Ad], lambda c: And(ix[c] >= 0, ix[c] < Ad)))
        return dict(seq=seq, idxs=StackList(Ad, [ix]), _ix=ix)

    @staticmethod
    def rc(X, ix):
        Ad, L = X.shape
        return spec_tensor([Ad, L], lambda c, l: X.elem(ix.elem(c), L - 1 - l), 'real')

    def post_env(self, b, a, outcome, cfg):
        out = [('no-exception', not outcome.startswith('raise'))]
        if not out[0][1]:
            return out
        r = a.seq_rc
        out.append(('is-tensor', isinstance(r, Tn)))
        if not out[-1][1]:
            return out
        spec = self.rc(b.seq, b._ix)
        out.extend(same(r, spec, 'out[c, l] = seq[idxs[c], L-1-l]'))
        out.extend(same(a.seq, b.seq, 'seq-unwritten'))
        twice = self.rc(spec, b._ix)
        Ad, L = b.seq.shape
        out.append(('lemma: twice is the identity when idxs is an involution',
                    O.forall([Ad, L], lambda c, l: Implies(O.eq(b._ix.elem(b._ix.elem(c)), c), O.eq(twice.elem(c, l), b.seq.elem(c, l))))))
        return out

    def replay_fragment(self, cfg, st):
        """the real whole function with a complement map that realises the index list"""
        import torch
        from tangermeme.utils import reverse_complement
        ix = st.get('_ix')
        shp = st.get('seq.shape')
        if not ix or not shp or shp[0] != len(ix) or shp[0] > 20 or shp[1] > 64:
            return []
        Ad, L = shp
        ix = [abs(int(v)) % Ad for v in ix]
        letters = [chr(65 + i) for i in range(Ad)]
        cmap = {letters[c]: letters[ix[c]] for c in range(Ad)}
        X = torch.arange(Ad * L, dtype=torch.float64).reshape(Ad, L)
        try:
            out = reverse_complement(X, complement_map=cmap)
        except Exception as e:
            return ['reverse_complement raised %s on a (%d, %d) tensor with complement_map=%s' % (type(e).__name__, Ad, L, cmap)]
        exp = torch.stack([X[ix[c]].flip(0) for c in range(Ad)]) if L > 0 else X.clone()
        if tuple(out.shape) != tuple(exp.shape) or not torch.equal(out, exp):
            return ['reverse_complement(arange(%d*%d).reshape, complement_map=%s) = %s, expected %s' % (Ad, L, cmap, out.tolist(), exp.tolist())]
        return []


def register(world):
    from contracts.utils_c import ValidateInput
    if 'tangermeme.utils._validate_input' not in world.contracts:
        world.register(ValidateInput())
    world.register(Chunk())
    world.register(Unchunk())
    world.register(FastOneHotEncode())
    world.register_fragment(OneHotMapping())
    world.register_fragment(ReverseComplementTensor())
