"""Contracts of tangermeme.utils definitions (property C15): chunk / unchunk."""
import z3
from vf import ops as O
from vf.ops import And, Or, Not, ite, Implies
from vf.tensor import Tn, Unsupported
from vf.contract import Contract, same
from vf.spec import spec_tensor


def n_chunks(L, size, step):
    return O.floordiv(L - size, step) + 1


class Chunk(Contract):
    """C15: the chunks of sequence i are rows [off_i, off_i + K_i) of the result, chunk k of a sequence
    holds its positions [k*step, k*step + size), step = size - overlap, K_i = (L_i - size)//step + 1."""
    qualname = 'tangermeme.utils.chunk'
    props = ('C15',)

    def configs(self):
        return [dict(k=k) for k in (1, 2, 3)]

    def make_args(self, cfg, A):
        Ad = A.dim('A', 1)
        X = [A.tensor('x%d' % i, 2, 'real', shape=[Ad, A.dim('L%d' % i, 1)]) for i in range(cfg['k'])]
        return [X], dict(size=A.int('size'), overlap=A.int('overlap'))

    def rejects(self, a, cfg):
        return Or(a.size <= 0, a.overlap < 0, a.overlap >= a.size, *[x.shape[1] < a.size for x in a.X])

    def result(self, a, cfg):
        size, step = a.size, a.size - a.overlap
        Ks = [n_chunks(x.shape[1], size, step) for x in a.X]
        offs = [0]
        for K in Ks:
            offs.append(offs[-1] + K)
        X = a.X

        def elem(r, c, j):
            out = X[-1][c, O.mul(r - offs[len(X) - 1], step) + j]
            for i in range(len(X) - 2, -1, -1):
                out = ite(r < offs[i + 1], X[i][c, O.mul(r - offs[i], step) + j], out)
            return out
        return spec_tensor([offs[-1], X[0].shape[0], size], elem, 'real')


class Unchunk(Contract):
    """C15: unchunk reassembles, for every sequence and every position covered by a complete chunk, the
    value from the chunk that owns that position: chunk k of a sequence with K chunks contributes its
    columns [lo_k, hi_k) to positions k*step + [lo_k, hi_k) (lo_0 = 0, lo_k = overlap//2; hi_{K-1} =
    size, hi_k = size - (overlap - overlap//2)); output length (K-1)*step + size.  With chunk's
    contract this is the round trip: every covered position is reproduced, for 1, 2 and >= 3 chunks."""
    qualname = 'tangermeme.utils.unchunk'
    props = ('C15',)

    def configs(self):
        return [dict(k=k, ov=o) for k in (1, 2) for o in ('zero', 'pos')]

    def make_args(self, cfg, A):
        R, Ad, size = A.dim('R', 1), A.dim('A', 1), A.dim('size', 1)
        X = A.tensor('X', 3, 'real', shape=[R, Ad, size])
        lengths = [A.int('len%d' % i) for i in range(cfg['k'])]
        ov = A.int('overlap')
        A.assume(ov == 0 if cfg['ov'] == 'zero' else ov > 0)
        return [X], dict(lengths=lengths, overlap=ov)

    def Ks(self, a):
        size = a.X.shape[2]
        step = size - a.overlap
        return [n_chunks(L, size, step) for L in a.lengths], step

    def pre(self, a, cfg):
        size = a.X.shape[2]
        Ks, step = self.Ks(a)
        tot = sum(Ks)
        # the chunks handed in are those of sequences with the stated lengths (what chunk() produces)
        return [a.overlap < size, a.overlap >= 0, O.eq(a.X.shape[0], tot)] + [L >= size for L in a.lengths]

    def post(self, a, r, cfg):
        X = a.X
        size = X.shape[2]
        Ks, step = self.Ks(a)
        s = O.floordiv(a.overlap, 2)
        e_ = a.overlap - s
        out = [('list-of-sequences', isinstance(r, list) and len(r) == len(a.lengths) and all(isinstance(t, Tn) and t.rank == 2 for t in r))]
        if not out[0][1]:
            return out
        off = 0
        for i, (t, K) in enumerate(zip(r, Ks)):
            out.append(('seq%d:length' % i, And(O.eq(t.shape[0], X.shape[1]), O.eq(t.shape[1], O.mul(K - 1, step) + size))))

            def covered(c, k, j, t=t, K=K, off=off):
                lo = ite(O.eq(k, 0), 0, s)
                hi = ite(O.eq(k, K - 1), size, size - e_)
                p = O.mul(k, step) + j
                # lemma instance (ediv_emod_of_decomp, lean/Lemmas.lean): position of (k, j) in the
                # merged middle part, written relative to the first chunk's width
                m = p - (size - e_)
                lemma = Implies(And(k >= 1, 0 <= j - s, j - s < step),
                                And(O.eq(O.floordiv(m, step), k - 1), O.eq(O.mod(m, step), j - s)))
                return Implies(lemma, Implies(And(0 <= k, k < K, lo <= j, j < hi), O.eq(t[c, p], X[off + k, c, j])))
            out.append(('seq%d:every-covered-position-from-its-chunk' % i, O.forall([X.shape[1], K, size], covered)))
            off = off + K
        return out


def register(world):
    from contracts.utils_c import ValidateInput
    if 'tangermeme.utils._validate_input' not in world.contracts:
        world.register(ValidateInput())
    world.register(Chunk())
    world.register(Unchunk())
